"""Regenerates MANIFEST.json from the per-check metadata below (keeps it schema-valid at all times)."""
import json
import os

HERE = os.path.dirname(os.path.abspath(__file__))

CHECKS = {}      # pid -> dict(text, note, technique, design_ref)
NOT_APPLICABLE = {}


def check(pid, text, note, technique, design_ref):
    CHECKS[pid] = dict(text=text, note=note, technique=technique, design_ref=design_ref)


def na(pid, reason):
    NOT_APPLICABLE[pid] = reason


exec(open(os.path.join(HERE, "manifest_entries.py")).read())

ALL = [f"C{n:02d}" for n in range(1, 21)]
manifest = {
    "version": 1,
    "setup_cmd": "./setup.sh",
    "hooks": {
        "guard": "RPYLIB_VERIF",
        "enable": "none needed: the checks import rpylib from /repo's working tree and inject shims into module globals at run time; no source hooks exist",
        "baseline_off_cmd": "cd /repo && /venv/bin/python -m pytest -ra -q -p no:cacheprovider --timeout=900 --continue-on-collection-errors",
        "source_commits": [],
        "add_only": True,
    },
    "engines": [
        {"name": "symx", "path": "symx/", "serves_properties": sorted(CHECKS),
         "kind_free_text": "symbolic execution of rpylib's real python code by re-execution (z3 terms inside ordinary python/numpy objects); "
                           "z3 5.1 decides every branch feasibility and obligation, cvc5 1.4 is the second back end on the same SMT-LIB text"},
    ],
    "checks": [],
    "not_applicable": [],
    "notes": "Solver-based checking of the real code; see DESIGN.md. Exit 0 = all claimed obligations discharged (unsat) on every explored path; "
             "exit 1 + VIOLATION only after the counterexample was replayed on the unshimmed code; exit 2 = inconclusive (solver unknown, "
             "path budget exhausted, counterexample not reproduced).",
}
for pid in ALL:
    if pid in CHECKS:
        c = CHECKS[pid]
        manifest["checks"].append({
            "property_id": pid,
            "quick_cmd": f"./vcheck {pid} quick",
            "thorough_cmd": f"./vcheck {pid} thorough",
            "evidence_file": f"evidence/{pid}.json",
            "replay_cmd_template": "./vcheck replay {path}",
            "engine": "symx",
            "level_claimed": {"category": "model_checking", "text": c["text"], "design_ref": c["design_ref"]},
            "level_note": c["note"],
            "technique": c["technique"],
        })
    else:
        manifest["not_applicable"].append({"property_id": pid, "reason": NOT_APPLICABLE.get(pid, "check not built yet in this round (planned in DESIGN.md section 3)")})
json.dump(manifest, open(os.path.join(HERE, "MANIFEST.json"), "w"), indent=1)
print("MANIFEST.json:", len(manifest["checks"]), "checks,", len(manifest["not_applicable"]), "not applicable")
