"""Forward-mode automatic differentiation over symbolic reals (dual numbers): value and derivative w.r.t. one chosen variable.

Special functions carry their derivative rules (trusted base, listed in DERIVATIVE_RULES); the primal values use the UFs of special.py.
"""
import math
from fractions import Fraction

import numpy as np
import z3

from . import values as V
from . import special as S
from .values import SymReal, SymBool, is_sym, Unsupported

DERIVATIVE_RULES = {
    "exp": "d exp(u) = exp(u) u'",
    "log": "d log(u) = u'/u",
    "sqrt": "d sqrt(u) = u'/(2 sqrt(u))",
    "erf": "d erf(u) = 2/sqrt(pi) exp(-u^2) u'",
    "exp1": "d E1(u) = -exp(-u)/u u'",
    "abs": "d |u| = sign(u) u' (u != 0)",
}


def val(x):
    return x.v if isinstance(x, Dual) else x


def der(x):
    return x.d if isinstance(x, Dual) else 0.0


class Dual:
    __slots__ = ("v", "d")

    def __init__(self, v, d=0.0):
        self.v, self.d = v, d

    # arithmetic
    def __add__(self, o):
        return Dual(self.v + val(o), self.d + der(o))

    __radd__ = __add__

    def __sub__(self, o):
        return Dual(self.v - val(o), self.d - der(o))

    def __rsub__(self, o):
        return Dual(val(o) - self.v, der(o) - self.d)

    def __mul__(self, o):
        return Dual(self.v * val(o), self.d * val(o) + self.v * der(o))

    __rmul__ = __mul__

    def __truediv__(self, o):
        ov, od = val(o), der(o)
        return Dual(self.v / ov, (self.d * ov - self.v * od) / (ov * ov))

    def __rtruediv__(self, o):
        ov, od = val(o), der(o)
        return Dual(ov / self.v, (od * self.v - ov * self.d) / (self.v * self.v))

    def __neg__(self):
        return Dual(-self.v, -self.d)

    def __pos__(self):
        return self

    def __abs__(self):
        if bool(self.v >= 0):
            return self
        return -self

    def __pow__(self, n):
        if isinstance(n, Dual):
            raise Unsupported("dual exponent")
        if isinstance(n, (int, np.integer)) or (isinstance(n, float) and float(n).is_integer()):
            n = int(n)
            if n == 0:
                return Dual(1.0, 0.0)
            if n < 0:
                return 1 / (self ** (-n))
            return Dual(self.v**n, n * self.v ** (n - 1) * self.d)
        # real exponent, positive base: d x^a = a x^(a-1) x'
        return Dual(S.sym_pow(self.v, n) if is_sym(self.v) or is_sym(n) else self.v**n, n * (S.sym_pow(self.v, n - 1) if is_sym(self.v) or is_sym(n) else self.v ** (n - 1)) * self.d)

    def __rpow__(self, b):
        # b ** self = exp(self * log b)
        lb = S.sym_log(b) if is_sym(b) else math.log(b)
        return (self * lb).exp()

    # comparisons act on the value
    def __lt__(self, o):
        return self.v < val(o)

    def __le__(self, o):
        return self.v <= val(o)

    def __gt__(self, o):
        return self.v > val(o)

    def __ge__(self, o):
        return self.v >= val(o)

    def __eq__(self, o):
        return self.v == val(o)

    def __ne__(self, o):
        return self.v != val(o)

    def __hash__(self):
        return hash(("dual", self.v))

    def __float__(self):
        raise TypeError("float() of a dual number")

    # functions (numpy dispatches ufuncs on objects to these methods)
    def exp(self):
        e = S.sym_exp(self.v) if is_sym(self.v) else math.exp(self.v)
        return Dual(e, e * self.d)

    def log(self):
        return Dual(S.sym_log(self.v) if is_sym(self.v) else math.log(self.v), self.d / self.v)

    def sqrt(self):
        s = S.sym_sqrt(self.v) if is_sym(self.v) else math.sqrt(self.v)
        return Dual(s, self.d / (2 * s))

    def conjugate(self):
        return self

    def __repr__(self):
        return f"Dual({self.v}, {self.d})"

    def __deepcopy__(self, memo):
        return self


def sqrt_pi():
    from .shims import pi_const

    return S.sym_sqrt(pi_const())


def erf(x):
    if isinstance(x, Dual):
        e = erf(x.v)
        u = x.v
        if isinstance(u, float) and math.isinf(u):
            return Dual(e, 0.0)
        return Dual(e, 2 / sqrt_pi() * S.sym_exp(-(u * u)) * x.d)
    if is_sym(x):
        return S.sym_erf(x)
    if isinstance(x, float) and math.isinf(x):
        return 1.0 if x > 0 else -1.0
    import scipy.special

    return scipy.special.erf(x)


def erfc(x):
    """complementary error function, defined as 1 - erf (its own derivative rule follows from erf's)"""
    if isinstance(x, Dual) or is_sym(x) or (isinstance(x, float) and math.isinf(x)):
        return 1 - erf(x)
    import scipy.special

    return scipy.special.erfc(x)


def exp1(x):
    """exponential integral E1 (x > 0)"""
    if isinstance(x, Dual):
        u = x.v
        return Dual(exp1(u), -(S.sym_exp(-u) if is_sym(u) else math.exp(-u)) / u * x.d)
    if is_sym(x):
        return S.generic_uf("exp1", x)
    import scipy.special

    return scipy.special.exp1(x)


def gamma(x):
    if is_sym(x):
        return S.generic_uf("gamma", x)
    import scipy.special

    v = scipy.special.gamma(x)
    from . import values as _V

    c = _V.get_context()
    if c is not None and not getattr(c, "concrete", False) and not (isinstance(v, float) and math.isfinite(v)) and isinstance(x, (int, float)):
        # a pole of Gamma (the library stores c * Gamma(-y) also for integer y, where it is not used): an unconstrained symbol, so that
        # any use of it leaves the obligation unprovable instead of silently accepted
        return c.real(f"gamma_at_pole[{x}]")
    return v


def gammaincc(s, x):
    """regularised upper incomplete gamma Q(s, x) = Gamma(s, x) / Gamma(s): dQ/dx = -x^(s-1) e^(-x) / Gamma(s)  (x > 0)"""
    if isinstance(x, Dual):
        u = x.v
        xs = S.sym_pow(u, s - 1) if (is_sym(u) or is_sym(s)) else u ** (s - 1)
        ex = S.sym_exp(-u) if is_sym(u) else math.exp(-u)
        return Dual(gammaincc(s, u), -xs * ex / gamma(s) * x.d)
    if is_sym(x) or is_sym(s):
        return S.generic_uf("gammaincc", s, x)
    import scipy.special

    return scipy.special.gammaincc(s, x)


def gammainc(s, x):
    """regularised lower incomplete gamma P(s, x) = 1 - Q(s, x)"""
    if isinstance(x, Dual):
        u = x.v
        xs = S.sym_pow(u, s - 1) if (is_sym(u) or is_sym(s)) else u ** (s - 1)
        ex = S.sym_exp(-u) if is_sym(u) else math.exp(-u)
        return Dual(gammainc(s, u), xs * ex / gamma(s) * x.d)
    if is_sym(x) or is_sym(s):
        return 1 - S.generic_uf("gammaincc", s, x)
    import scipy.special

    return scipy.special.gammainc(s, x)


# --------------------------------------------------------------------------------------
# truncated Taylor arithmetic (jets) around a point: coefficients c_k = f^(k)(x0)/k!


class Jet:
    __slots__ = ("c",)
    ORDER = 6

    def __init__(self, coeffs):
        c = list(coeffs)[: Jet.ORDER + 1]
        c += [0.0] * (Jet.ORDER + 1 - len(c))
        self.c = c

    @staticmethod
    def variable(x0=0.0):
        return Jet([x0, 1.0])

    @staticmethod
    def lift(x):
        return x if isinstance(x, Jet) else Jet([x])

    def __add__(self, o):
        o = Jet.lift(o)
        return Jet([a + b for a, b in zip(self.c, o.c)])

    __radd__ = __add__

    def __neg__(self):
        return Jet([-a for a in self.c])

    def __sub__(self, o):
        return self + (-Jet.lift(o))

    def __rsub__(self, o):
        return Jet.lift(o) - self

    def __mul__(self, o):
        if not isinstance(o, Jet):
            return Jet([a * o for a in self.c])
        n = Jet.ORDER + 1
        out = [0.0] * n
        for i, a in enumerate(self.c):
            if not is_sym(a) and a == 0:
                continue
            for j, b in enumerate(o.c):
                if i + j >= n:
                    break
                if not is_sym(b) and b == 0:
                    continue
                out[i + j] = out[i + j] + a * b
        return Jet(out)

    __rmul__ = __mul__

    def inverse(self):
        n = Jet.ORDER + 1
        a0 = self.c[0]
        out = [1 / a0] + [0.0] * (n - 1)
        for k in range(1, n):
            s = 0.0
            for j in range(1, k + 1):
                s = s + self.c[j] * out[k - j]
            out[k] = -s / a0
        return Jet(out)

    def __truediv__(self, o):
        if not isinstance(o, Jet):
            return Jet([a / o for a in self.c])
        return self * o.inverse()

    def __rtruediv__(self, o):
        return Jet.lift(o) * self.inverse()

    def __pow__(self, p):
        if isinstance(p, (int, np.integer)) and p >= 0:
            r = Jet([1.0])
            for _ in range(int(p)):
                r = r * self
            return r
        if isinstance(p, (int, np.integer)):
            return (self ** (-p)).inverse()
        # real exponent: b0^p (1+u)^p with u = (self - b0)/b0, generalised binomial series
        b0 = self.c[0]
        u = Jet([0.0] + [a / b0 for a in self.c[1:]])
        base = S.sym_pow(b0, p) if (is_sym(b0) or is_sym(p)) else b0**p
        term = Jet([1.0])
        acc = Jet([1.0])
        coef = 1.0
        for k in range(1, Jet.ORDER + 1):
            coef = coef * (p - (k - 1)) / k
            term = term * u
            acc = acc + term * coef
        return acc * base

    def exp(self):
        """exp(c0) * exp(u), u without constant term"""
        c0 = self.c[0]
        e0 = 1.0 if (not is_sym(c0) and c0 == 0) else (S.sym_exp(c0) if is_sym(c0) else math.exp(c0))
        u = Jet([0.0] + self.c[1:])
        term = Jet([1.0])
        acc = Jet([1.0])
        fact = 1
        for k in range(1, Jet.ORDER + 1):
            fact *= k
            term = term * u
            acc = acc + term * Fraction(1, fact)
        return acc * e0

    def log(self):
        """log(c0) + log(1+u)"""
        c0 = self.c[0]
        l0 = 0.0 if (not is_sym(c0) and c0 == 1) else (S.sym_log(c0) if is_sym(c0) else math.log(c0))
        u = Jet([0.0] + [a / c0 for a in self.c[1:]])
        term = Jet([1.0])
        acc = Jet([l0])
        for k in range(1, Jet.ORDER + 1):
            term = term * u
            acc = acc + term * Fraction((-1) ** (k + 1), k)  # exact series coefficient (a float 1/3 would leave a 1e-16 residual)
        return acc

    def conjugate(self):
        return self

    def __repr__(self):
        return f"Jet({self.c})"
