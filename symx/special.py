"""Special functions as uninterpreted functions with a short, logged axiom list (trusted base).

Axioms are instantiated on the terms that occur (no quantifiers).  Unary facts are added when the
application is created; binary/ternary facts are instantiated by Context.instantiate() before a
proof obligation is sent to the solver.
"""
from __future__ import annotations

import math
from fractions import Fraction
from itertools import combinations

import z3

from . import values as V
from .values import SymReal, SymInt, Unsupported, concrete_value, term_of, _wrap

R = z3.RealSort()
_UF = {}


def uf(name, arity=1):
    key = (name, arity)
    if key not in _UF:
        _UF[key] = z3.Function(name, *([R] * arity), R)
    return _UF[key]


AXIOMS_DOC = {
    "sqrt": "sqrt(t)>=0 and sqrt(t)^2=t for t>=0",
    "exp": "exp(t)>0; exp(0)=1; a<b -> exp(a)<exp(b); exp(a)exp(b)=exp(c) when a+b=c (instantiated on occurring terms)",
    "log": "log(1)=0; a<b -> log(a)<log(b) (a,b>0); log(a)+log(b)=log(c) when a*b=c; exp(log(x))=x when both occur",
    "pow": "pow(x,a)>0 for x>0; pow(x,0)=1; pow(x,1)=x; pow(x,a)pow(x,b)=pow(x,c) when a+b=c; pow(x,a)pow(y,a)=pow(z,a) when xy=z; "
    "pow(pow(x,a),b)=pow(x,ab); monotone in x for fixed a>0 (increasing) / a<0 (decreasing)",
    "erf": "erf(-x)=-erf(x); -1<erf<1; increasing; limits +-1 at +-inf",
    "ncdf": "Phi(x)+Phi(-x)=1; 0<Phi<1; increasing",
}


def _ctx():
    c = V.get_context()
    if c is None:
        raise Unsupported("special function outside a context")
    return c


def _exact_sqrt(fr: Fraction):
    if fr < 0:
        return None
    n, d = fr.numerator, fr.denominator
    rn, rd = math.isqrt(n), math.isqrt(d)
    if rn * rn == n and rd * rd == d:
        return Fraction(rn, rd)
    return None


class SymIntRoot(SymReal):
    """(root_n(z) + a) / b + eps for an integer-sorted z, integers a, b > 0 and a concrete 0 <= eps < 1 (eps only with a=0, b=1).
    Carries m = iroot_n(z) (integer constraints m^n <= z < (m+1)^n).  floor() is computed exactly without a real-valued root
    variable: floor((r+a)/b) = (m+a) div b  [floor((x+a)/b) = floor((floor(x)+a)/b)], floor(r+eps) = m + [z >= (m+1-eps)^n].
    Any other use sees the real term constrained by m <= r < m+1, r = m when m^n = z (a sound over-approximation)."""

    __slots__ = ("z", "n", "m", "eps", "a", "b")

    def __init__(self, t, z, n, m, eps=0, a=0, b=1):
        SymReal.__init__(self, t)
        self.z, self.n, self.m, self.eps, self.a, self.b = z, n, m, eps, a, b

    def _const(self, o):
        if V.is_sym(o) or isinstance(o, bool) or not isinstance(o, (int, float, Fraction)):
            return None
        return Fraction(o)

    def __add__(self, o):
        c = self._const(o)
        if c is not None:
            t = z3.simplify(self.t + z3.RealVal(c))
            if c.denominator == 1 and self.eps == 0 and self.b == 1:
                return SymIntRoot(t, self.z, self.n, self.m, 0, self.a + int(c), 1)
            e = c + self.eps
            if self.a == 0 and self.b == 1 and 0 <= e < 1:
                return SymIntRoot(t, self.z, self.n, self.m, e, 0, 1)
        return SymReal.__add__(self, o)

    __radd__ = __add__

    def __sub__(self, o):
        c = self._const(o)
        if c is not None:
            return self.__add__(-c)
        return SymReal.__sub__(self, o)

    def __truediv__(self, o):
        c = self._const(o)
        if c is not None and c.denominator == 1 and c > 0 and self.eps == 0:
            return SymIntRoot(z3.simplify(self.t / z3.RealVal(c)), self.z, self.n, self.m, 0, self.a, self.b * int(c))
        return SymReal.__truediv__(self, o)

    def __floor__(self):
        m = self.m
        if self.eps == 0:
            if self.b == 1:
                return V._wrap(m + self.a)
            return V._wrap((m + self.a) / self.b)  # z3 Int div with positive divisor = floor division
        if self.n >= 3 and not z3.is_int_value(m):
            # concretise the integer root by forking over its (small, bounded) feasible values: everything downstream is then linear
            mv = _ctx().decide_int(m)
            thr = (Fraction(mv) + 1 - self.eps) ** self.n
            return V._wrap(z3.If(z3.ToReal(self.z) >= z3.RealVal(thr), z3.IntVal(mv + 1), z3.IntVal(mv)))
        bb = z3.ToReal(m) + 1 - z3.RealVal(self.eps)
        p = bb
        for _ in range(self.n - 1):
            p = p * bb
        return SymInt(z3.If(z3.ToReal(self.z) >= p, m + 1, m))

    def floor(self):
        return self.__floor__()


def _int_root(t, n):
    ctx = _ctx()
    name = ctx.fresh_name(f"iroot{n}")
    m = z3.Int(name)
    ctx.symbols[name] = m
    pm, pm1 = m, m + 1
    for _ in range(n - 1):
        pm, pm1 = pm * m, pm1 * (m + 1)
    r = uf(f"root{n}")(z3.ToReal(t))
    key = (f"iroot{n}", t.hash(), str(t))
    prev = ctx.iroots.get(key)
    if prev is not None:
        return SymIntRoot(r, t, n, prev)
    ctx.iroots[key] = m
    ctx.axiom(z3.And(m >= 0, pm <= t, t < pm1, r >= z3.ToReal(m), r < z3.ToReal(m) + 1, z3.Implies(pm == t, r == z3.ToReal(m))))
    # uniqueness of the integer root, instantiated on candidate integer terms (a theorem of integer arithmetic: sound lemma)
    if ctx.fork_roots:
        mv = ctx.decide_int(m)  # concretise the integer root (bounded, small range): downstream arithmetic becomes linear
        return SymIntRoot(z3.RealVal(mv), t, n, z3.IntVal(mv))
    cands = [v for k, v in ctx.symbols.items() if v.sort().kind() == z3.Z3_INT_SORT and not k.startswith("iroot") and v is not m]
    cands += list(ctx.hints)
    for c in cands[:12]:
        pc, pc1 = c, c + 1
        for _ in range(n - 1):
            pc, pc1 = pc * c, pc1 * (c + 1)
        ctx.axiom(z3.Implies(z3.And(c >= 0, pc <= t, t < pc1), m == c))
    return SymIntRoot(r, t, n, m)


def sym_sqrt(x):
    t = z3.simplify(V.to_term(x)) if V.is_sym(x) else None
    if t is not None and t.sort().kind() == z3.Z3_INT_SORT and concrete_value(t) is None:
        if _ctx().decide(t < 0):
            raise ValueError("math domain error (sqrt of a negative value is feasible on this path)")
        return _int_root(t, 2)
    t = z3.simplify(term_of(x))
    c = concrete_value(t)
    if c is not None:
        e = _exact_sqrt(Fraction(c))
        if e is not None:
            return _wrap(z3.RealVal(e))
        if c < 0:
            raise ValueError("math domain error")
    else:
        if _ctx().decide(t < 0):
            raise ValueError("math domain error (sqrt of a negative value is feasible on this path)")
    s = uf("sqrt")(t)
    _ctx().register_app("sqrt", (t,), s, [s >= 0, s * s == t])
    return SymReal(s)


def sym_root(x, n):
    """x**(1/n) for x>=0: the non-negative real r with r^n = x."""
    t = z3.simplify(V.to_term(x)) if V.is_sym(x) else None
    if t is not None and t.sort().kind() == z3.Z3_INT_SORT and concrete_value(t) is None:
        if _ctx().decide(t < 0):
            raise ValueError("root of a negative value is feasible on this path")
        return _int_root(t, n)
    t = z3.simplify(term_of(x))
    c = concrete_value(t)
    if c is not None and c < 0:
        raise ValueError("root of a negative number")
    if c is None and _ctx().decide(t < 0):
        raise ValueError("root of a negative value is feasible on this path")
    r = uf(f"root{n}")(t)
    p = r
    for _ in range(n - 1):
        p = p * r
    _ctx().register_app(f"root{n}", (t,), r, [r >= 0, p == t])
    return SymReal(r)


def sym_exp(x):
    if isinstance(x, float) and math.isinf(x):
        return 0.0 if x < 0 else x
    t = z3.simplify(term_of(x))
    c = concrete_value(t)
    if c is not None and c == 0:
        return _wrap(z3.RealVal(1))
    e = uf("exp")(t)
    _ctx().register_app("exp", (t,), e, [e > 0])
    return SymReal(e)


def sym_log(x):
    if isinstance(x, float) and math.isinf(x):
        if x > 0:
            return x
        raise ValueError("math domain error")
    t = z3.simplify(term_of(x))
    c = concrete_value(t)
    if c is not None:
        if c == 1:
            return _wrap(z3.RealVal(0))
        if c <= 0:
            raise ValueError("math domain error")
    else:
        if _ctx().decide(t <= 0):
            raise ValueError("math domain error (log of a non-positive value is feasible on this path)")
    l = uf("log")(t)
    _ctx().register_app("log", (t,), l, [])
    return SymReal(l)


def sym_pow(x, a):
    """x**a for x>0 (real exponent) as a UF with the power laws."""
    if isinstance(x, float) and math.isinf(x) and x > 0:
        if V.is_sym(a):
            s = a._sign_vs_zero()
        else:
            s = (a > 0) - (a < 0)
        if s == 0:
            return 1.0
        return x if s > 0 else 0.0
    if not V.is_sym(x) and x == 0:
        s = a._sign_vs_zero() if V.is_sym(a) else (a > 0) - (a < 0)
        if s > 0:
            return 0.0
        if s == 0:
            return 1.0
        raise ZeroDivisionError("0.0 cannot be raised to a negative power")
    tx = z3.simplify(term_of(x))
    ta = z3.simplify(term_of(a))
    ca = concrete_value(ta)
    if ca is not None and Fraction(ca).denominator == 1:
        return V._lift(x) ** int(ca)
    cx = concrete_value(tx)
    if cx is not None:
        if cx <= 0:
            raise Unsupported("pow with non-positive concrete base and non-integer exponent")
        if cx == 1:
            return _wrap(z3.RealVal(1))
    else:
        if _ctx().decide(tx <= 0):
            raise ValueError("pow: non-positive base with real exponent feasible on this path")
    p = uf("pow", 2)(tx, ta)
    _ctx().register_app("pow", (tx, ta), p, [p > 0])
    return SymReal(p)


def sym_erf(x):
    if isinstance(x, float) and math.isinf(x):
        return 1.0 if x > 0 else -1.0
    t = z3.simplify(term_of(x))
    c = concrete_value(t)
    if c is not None and c == 0:
        return _wrap(z3.RealVal(0))
    e = uf("erf")(t)
    _ctx().register_app("erf", (t,), e, [e > -1, e < 1])
    return SymReal(e)


def sym_ncdf(x):
    if isinstance(x, float) and math.isinf(x):
        return 1.0 if x > 0 else 0.0
    t = z3.simplify(term_of(x))
    c = concrete_value(t)
    if c is not None and c == 0:
        return _wrap(z3.RealVal(Fraction(1, 2)))
    e = uf("ncdf")(t)
    _ctx().register_app("ncdf", (t,), e, [e > 0, e < 1])
    return SymReal(e)


def generic_uf(name, *args):
    """An uninterpreted special function without axioms beyond congruence."""
    ts = tuple(z3.simplify(term_of(a)) for a in args)
    r = uf(name, len(ts))(*ts)
    _ctx().register_app(name, ts, r, [])
    return SymReal(r)


# --------------------------------------------------------------------------------------
# instantiation of the multi-application axioms


def instantiate(apps, limit=4000):
    """apps: dict name -> list of (args, result). Returns a list of z3 formulas."""
    out = []
    ex = apps.get("exp", [])
    lg = apps.get("log", [])
    pw = apps.get("pow", [])
    er = apps.get("erf", [])
    e1 = apps.get("exp1", [])
    for ((a,), ea) in e1:
        out.append(z3.Implies(a > 0, ea > 0))
    for ((a,), ea), ((b,), eb) in combinations(e1, 2):
        out.append(z3.Implies(z3.And(a > 0, a < b), ea > eb))
        out.append(z3.Implies(z3.And(b > 0, b < a), eb > ea))
    nc = apps.get("ncdf", [])
    for (a,), ea in ex:
        pass
    for ((a,), ea), ((b,), eb) in combinations(ex, 2):
        out.append(z3.Implies(a < b, ea < eb))
        out.append(z3.Implies(b < a, eb < ea))
    if len(ex) <= 12:
        for ((a,), ea) in ex:
            for ((b,), eb) in ex:
                for ((c,), ec) in ex:
                    if a.hash() <= b.hash():
                        out.append(z3.Implies(a + b == c, ea * eb == ec))
                # exp(a)exp(-a)=1
                out.append(z3.Implies(a + b == 0, ea * eb == 1))
    for ((a,), la), ((b,), lb) in combinations(lg, 2):
        out.append(z3.Implies(a < b, la < lb))
        out.append(z3.Implies(b < a, lb < la))
    if len(lg) <= 12:
        for ((a,), la) in lg:
            out.append(z3.Implies(a == 1, la == 0))
            out.append((la > 0) == (a > 1))
            for ((b,), lb) in lg:
                for ((c,), lc) in lg:
                    if a.hash() <= b.hash():
                        out.append(z3.Implies(a * b == c, la + lb == lc))
                out.append(z3.Implies(a * b == 1, la + lb == 0))
    for ((a,), la) in lg:
        for ((b,), eb) in ex:
            out.append(z3.Implies(b == la, eb == a))  # exp(log a) = a
            out.append(z3.Implies(eb == a, la == b))  # log(exp b) = b
    # pow
    for ((x, a), p) in pw:
        out.append(z3.Implies(a == 0, p == 1))
        out.append(z3.Implies(a == 1, p == x))
        out.append(z3.Implies(x == 1, p == 1))
        out.append(z3.Implies(z3.And(x > 1, a > 0), p > 1))
        out.append(z3.Implies(z3.And(x < 1, a > 0), p < 1))
        out.append(z3.Implies(z3.And(x > 1, a < 0), p < 1))
        out.append(z3.Implies(z3.And(x < 1, a < 0), p > 1))
    if len(pw) <= 14:
        for ((x, a), p) in pw:
            for ((y, b), q) in pw:
                if p.hash() < q.hash():
                    # same exponent: monotone in base
                    out.append(z3.Implies(z3.And(a == b, a > 0, x < y), p < q))
                    out.append(z3.Implies(z3.And(a == b, a > 0, y < x), q < p))
                    out.append(z3.Implies(z3.And(a == b, a < 0, x < y), p > q))
                    out.append(z3.Implies(z3.And(a == b, a < 0, y < x), q > p))
                    # same base: monotone in exponent
                    out.append(z3.Implies(z3.And(x == y, x > 1, a < b), p < q))
                    out.append(z3.Implies(z3.And(x == y, x > 1, b < a), q < p))
                    out.append(z3.Implies(z3.And(x == y, x < 1, a < b), p > q))
                    out.append(z3.Implies(z3.And(x == y, x < 1, b < a), q > p))
                # inverse / composition
                out.append(z3.Implies(z3.And(x == y, a + b == 0), p * q == 1))
                out.append(z3.Implies(z3.And(y == p), True))
                for ((w, c), r) in pw:
                    if p.hash() <= q.hash():
                        out.append(z3.Implies(z3.And(x == y, y == w, a + b == c), p * q == r))
                        out.append(z3.Implies(z3.And(a == b, b == c, x * y == w), p * q == r))
                # pow(pow(x,a),b) = pow(x, a*b)
                for ((w, c), r) in pw:
                    out.append(z3.Implies(z3.And(y == p, w == x, c == a * b), q == r))
                out.append(z3.Implies(z3.And(y == p, a * b == 1), q == x))
    # integer shifts of the exponent: pow(x, a) = pow(x, b) * x^k when a = b + k
    if len(pw) <= 14:
        for ((x, a), p) in pw:
            for ((y, b), q) in pw:
                if p.eq(q):
                    continue
                xk = x
                for k in range(1, 7):
                    out.append(z3.Implies(z3.And(x == y, a == b + k), p == q * xk))
                    xk = xk * x
    gm = apps.get("gamma", [])
    for ((a,), ga) in gm:
        for ((b,), gb) in gm:
            if ga.eq(gb):
                continue
            prod = a
            for k in range(1, 7):  # Gamma(s+k) = s (s+1) ... (s+k-1) Gamma(s)
                out.append(z3.Implies(b == a + k, gb == prod * ga))
                prod = prod * (a + k)
    # pow(x,a) = exp(a log x) when those occur
    for ((x, a), p) in pw:
        for ((y,), ly) in lg:
            for ((e,), ee) in ex:
                out.append(z3.Implies(z3.And(x == y, e == a * ly), p == ee))
    for ((a,), ea), ((b,), eb) in combinations(er, 2):
        out.append(z3.Implies(a < b, ea < eb))
        out.append(z3.Implies(b < a, eb < ea))
        out.append(z3.Implies(a + b == 0, ea + eb == 0))
    for ((a,), ea) in er:
        out.append((ea > 0) == (a > 0))
    for ((a,), ea), ((b,), eb) in combinations(nc, 2):
        out.append(z3.Implies(a < b, ea < eb))
        out.append(z3.Implies(b < a, eb < ea))
        out.append(z3.Implies(a + b == 0, ea + eb == 1))
    for ((a,), ea) in nc:
        out.append((2 * ea > 1) == (a > 0))
    if len(out) > limit:
        out = out[:limit]
    return out
