"""Path exploration by re-execution, obligations, verdicts.

A *harness* is a python callable `fn(ctx, **params)` that creates symbols through `ctx`, runs real
rpylib code on them and states obligations with `ctx.prove(...)`.  A path is the list of decisions
taken at SymBool.__bool__ / SymInt.__index__.  At a fresh decision the solver is asked for both
sides; the feasible alternative is queued as a new prefix.  Every decision (also one-sided) is
recorded so that replayed prefixes stay aligned.
"""
from __future__ import annotations

import hashlib
import json
import os
import sys
import time
import traceback
from fractions import Fraction

import z3

from . import values as V
from .values import SymBool, SymInt, SymReal, Unsupported, is_sym
from . import special


class PathAbort(BaseException):
    """Ends the current path silently (e.g. an assumption became unsatisfiable)."""


class BudgetExceeded(BaseException):
    pass


def _clear_rpylib_caches():
    for name, mod in list(sys.modules.items()):
        if not name.startswith("rpylib") or mod is None:
            continue
        for obj in list(vars(mod).values()):
            if hasattr(obj, "cache_clear"):
                try:
                    obj.cache_clear()
                except Exception:
                    pass
            elif isinstance(obj, type):
                for attr in list(vars(obj).values()):
                    f = attr.__func__ if isinstance(attr, (staticmethod, classmethod)) else attr
                    if hasattr(f, "cache_clear"):
                        try:
                            f.cache_clear()
                        except Exception:
                            pass


def model_value(m, t):
    v = m.eval(t, model_completion=True)
    c = V.concrete_value(v)
    if c is not None:
        return c
    if z3.is_true(v):
        return True
    if z3.is_false(v):
        return False
    if z3.is_algebraic_value(v):
        return Fraction(v.approx(30).as_fraction())
    return str(v)


class Context:
    def __init__(self, prefix=(), timeout_ms=60000, seed=0, known=None, max_int_fanout=64):
        self.prefix = list(prefix)
        self.trace = []  # decisions taken (True/False/int)
        self.twosided = 0
        self.pending = []  # new prefixes discovered on this path
        self.pc = []
        self.axioms = []
        self.apps = {}
        self.iroots = {}
        self.axiom_generators = []
        self._axiom_keys = set()
        self.gen_state = {}  # per-generator progress (incremental instantiation)
        self._gen_seen = set()
        self.fork_roots = False
        self.nested_leaves = 0
        self.fork_small_mod = 2
        self.inner_exc = None
        self.fork_pow_base = False
        self.hints = []  # candidate integer terms for integer-root uniqueness lemmas
        self._app_keys = set()
        self.symbols = {}  # name -> term
        self.counter = {}
        self.solver = z3.Solver()
        self.solver.set("timeout", timeout_ms)
        self.solver.set("random_seed", seed % (2**31))
        self.timeout_ms = timeout_ms
        self.first_timeout_ms = 4000
        self.feas_timeout_ms = 2000
        self.cvc5_timeout_ms = 20000
        self.model = None
        self.results = []  # obligation records
        self.queries = 0
        self.solver_s = 0.0
        self.known = known or {}
        self.max_int_fanout = max_int_fanout
        self.notes = []
        self.inconclusive = []
        self._inst_done = 0
        self.decisions_log = []

    # ---- symbols
    def fresh_name(self, base):
        k = self.counter.get(base, 0)
        self.counter[base] = k + 1
        return base if k == 0 else f"{base}#{k}"

    def real(self, name, lo=None, hi=None, lo_strict=False, hi_strict=False):
        name = self.fresh_name(name)
        t = z3.Real(name)
        self.symbols[name] = t
        if lo is not None:
            self.assume_term(t > V.term_of(lo) if lo_strict else t >= V.term_of(lo))
        if hi is not None:
            self.assume_term(t < V.term_of(hi) if hi_strict else t <= V.term_of(hi))
        return SymReal(t)

    def int(self, name, lo=None, hi=None):
        name = self.fresh_name(name)
        t = z3.Int(name)
        self.symbols[name] = t
        if lo is not None:
            self.assume_term(t >= lo)
        if hi is not None:
            self.assume_term(t <= hi)
        return SymInt(t)

    def bool(self, name):
        name = self.fresh_name(name)
        t = z3.Bool(name)
        self.symbols[name] = t
        return SymBool(t)

    # ---- assumptions
    def _keep_model(self, t):
        if self.model is not None:
            try:
                if not z3.is_true(self.model.eval(t, model_completion=True)):
                    self.model = None
            except z3.Z3Exception:
                self.model = None

    def assume_term(self, t):
        self.pc.append(t)
        self.solver.add(t)
        self._keep_model(t)

    def assume(self, c):
        """Assume c (harness precondition). Ends the path if it makes the PC unsatisfiable."""
        if isinstance(c, bool):
            if not c:
                raise PathAbort()
            return
        t = V._bterm(c)
        self.assume_term(t)

    def axiom(self, t):
        self.axioms.append(t)
        self.solver.add(t)
        self._keep_model(t)

    def axiom_once(self, key, t):
        """add an axiom unless the same key was already added on this path (nested enumerations re-add after their pop)"""
        if key in self._axiom_keys:
            return
        self._axiom_keys.add(key)
        self.axiom(t)

    def register_app(self, name, args, res, unary):
        key = (name, tuple(a.hash() for a in args), tuple(str(a) for a in args) if len(args) < 3 else None)
        if key in self._app_keys:
            return
        self._app_keys.add(key)
        self.apps.setdefault(name, []).append((args, res))
        for u in unary:
            self.axiom(u)

    def instantiate(self):
        for gen in self.axiom_generators:
            for f in gen():
                self.solver.add(f)
                self.model = None
        n = sum(len(v) for v in self.apps.values())
        if n == self._inst_done:
            return
        self._inst_done = n
        for f in special.instantiate(self.apps):
            self.solver.add(f)
        self.model = None

    # ---- solver
    def _check(self, *extra):
        t0 = time.time()
        self.queries += 1
        r = self.solver.check(*extra)
        self.solver_s += time.time() - t0
        return r

    def _feasible(self, t):
        """sat / unsat / unknown for PC ∧ t: z3 with a short budget, then cvc5 (can only turn unknown into unsat)."""
        self.solver.set("timeout", self.feas_timeout_ms)
        try:
            r = self._check(t)
        finally:
            self.solver.set("timeout", self.timeout_ms)
        if r == z3.unknown:
            from .backends import cvc5_check

            s2 = z3.Solver()
            s2.add(*self.solver.assertions())
            s2.add(t)
            t0 = time.time()
            self.queries += 1
            rc = cvc5_check(s2.to_smt2(), self.feas_timeout_ms * 2)
            self.solver_s += time.time() - t0
            if rc == "unsat":
                return z3.unsat
            # still undecided (a busy machine stretches the wall-clock budgets): fresh z3 instances, other seeds, four times the budget
            for k in (1, 2):
                s3 = z3.Solver()
                s3.set("timeout", self.feas_timeout_ms * 4)
                s3.set("random_seed", 7919 * k)
                s3.add(*self.solver.assertions())
                s3.add(t)
                t0 = time.time()
                self.queries += 1
                r3 = s3.check()
                self.solver_s += time.time() - t0
                if r3 == z3.unsat:
                    return z3.unsat
                if r3 == z3.sat:
                    return z3.unknown  # satisfiable, but the model lives in another solver instance: callers treat unknown as feasible
        return r

    # ---- decisions
    def decide(self, t):
        pos = len(self.trace)
        if pos < len(self.prefix):
            d = self.prefix[pos]
            if not isinstance(d, bool):
                raise RuntimeError(f"prefix misaligned at {pos}: expected bool got {d!r}")
            self.trace.append(d)
            self.assume_term(t if d else z3.Not(t))
            return d
        # fresh decision
        self.instantiate()
        mt = None
        if self.model is not None:
            try:
                mv = self.model.eval(t, model_completion=True)
                mt = True if z3.is_true(mv) else (False if z3.is_false(mv) else None)
            except z3.Z3Exception:
                mt = None
        can_t = can_f = None
        if mt is True:
            can_t = True
        elif mt is False:
            can_f = True
        if can_t is None:
            r = self._feasible(t)
            can_t = r != z3.unsat
            if r == z3.sat:
                self.model = self.solver.model()
            elif r == z3.unknown:
                self.notes.append(f"unknown feasibility at decision {pos} (treated feasible)")
        if can_f is None:
            if can_t:
                r = self._feasible(z3.Not(t))
                can_f = r != z3.unsat
                if r == z3.unknown:
                    self.notes.append(f"unknown feasibility at decision {pos} (treated feasible)")
            else:
                can_f = True  # PC is satisfiable, so the other side must be
        if can_t and can_f:
            self.twosided += 1
            self.pending.append(self.trace + [False])
            d = True
        elif can_t:
            d = True
        elif can_f:
            d = False
        else:
            raise PathAbort()
        self.trace.append(d)
        self.assume_term(t if d else z3.Not(t))
        return d

    def decide_int(self, t, soft=False):
        """fork over the feasible values of an integer term.  soft=True: give up (return None, recorded as the decision
        'S') when the solver cannot enumerate the values within the short feasibility budget."""
        pos = len(self.trace)
        if pos < len(self.prefix):
            d = self.prefix[pos]
            if isinstance(d, bool):
                raise RuntimeError(f"prefix misaligned at {pos}: expected int got bool")
            self.trace.append(d)
            if d == "S":
                return None
            self.assume_term(t == d)
            return d
        vals = []
        self.solver.push()
        if soft:
            self.solver.set("timeout", self.feas_timeout_ms)
        try:
            aux = z3.Int(f"__decide_{pos}")
            self.solver.add(aux == t)
            while len(vals) <= self.max_int_fanout:
                r = self._check()
                if r != z3.sat:
                    if r == z3.unknown:
                        if soft:
                            vals = None
                            break
                        raise Unsupported("unknown while enumerating values of a symbolic integer")
                    break
                v = self.solver.model().eval(aux, model_completion=True).as_long()
                vals.append(v)
                self.solver.add(aux != v)
        finally:
            self.solver.pop()
            self.solver.set("timeout", self.timeout_ms)
        if vals is None:
            self.trace.append("S")
            return None
        if not vals:
            raise PathAbort()
        if len(vals) > self.max_int_fanout:
            raise Unsupported(f"symbolic integer with more than {self.max_int_fanout} feasible values: {t}")
        vals.sort()
        if len(vals) > 1:
            self.twosided += 1
        for v in vals[1:]:
            self.pending.append(self.trace + [v])
        d = vals[0]
        self.trace.append(d)
        self.assume_term(t == d)
        return d

    # ---- nested enumeration (all paths of a sub-computation under the current path condition)
    def enumerate(self, fn, max_leaves=2000):
        """Explore every path of fn() under the current PC (forks inside fn are NOT recorded in the outer trace).
        Returns a list of leaves (constraints, value, exception): constraints are the z3 terms added to the PC (decisions,
        assumptions and axioms) on that leaf.  fn must not leave side effects behind (callers deep-copy their objects)."""
        leaves = []
        stack = [[]]
        saved = (self.prefix, self.trace, self.pending, self.twosided)
        saved_apps = ({k: list(v) for k, v in self.apps.items()}, set(self._app_keys), dict(self.iroots), self._inst_done)
        saved_gen = {k: list(v) for k, v in self.gen_state.items()}
        saved_keys = set(self._axiom_keys)
        pc_mark, ax_mark = len(self.pc), len(self.axioms)
        try:
            while stack:
                if len(leaves) >= max_leaves:
                    raise Unsupported(f"more than {max_leaves} leaves in a nested enumeration")
                sub = stack.pop()
                self.solver.push()
                self.prefix, self.trace, self.pending = sub, [], []
                self.model = None
                _clear_rpylib_caches()  # a memoised result would skip decisions on re-execution and misalign the replayed prefix
                val = exc = None
                try:
                    val = fn()
                except PathAbort:
                    exc = "abort"
                except Unsupported:
                    raise
                except Exception as e:
                    exc = e
                finally:
                    cons = self.pc[pc_mark:] + self.axioms[ax_mark:]
                    del self.pc[pc_mark:]
                    del self.axioms[ax_mark:]
                    self.solver.pop()
                    self._axiom_keys = set(saved_keys)
                    self.gen_state.clear()
                    self.gen_state.update({k: list(v) for k, v in saved_gen.items()})
                    self.apps, self._app_keys, self.iroots, self._inst_done = (
                        {k: list(v) for k, v in saved_apps[0].items()}, set(saved_apps[1]), dict(saved_apps[2]), saved_apps[3])
                stack.extend(self.pending)
                if exc != "abort":
                    leaves.append((cons, val, exc))
        finally:
            self.prefix, self.trace, self.pending, self.twosided = saved
            self.model = None
        self.nested_leaves += len(leaves)
        return leaves

    # ---- obligations
    def prove(self, oid, goal, info=None, replay=None, regions=None, timeout_ms=None):
        """Obligation PC ∧ axioms ⊢ goal.  `regions`: name -> predicate; a counterexample is attributed to a
        listed known finding if no counterexample exists outside the union of the *listed* regions."""
        if isinstance(goal, bool):
            g = z3.BoolVal(goal)
        else:
            g = V._bterm(goal)
        self.instantiate()
        neg = z3.simplify(z3.Not(g))
        rec = {"id": oid, "trace": list(self.trace), "info": info or {}}
        if z3.is_false(neg):
            rec["verdict"] = "unsat"
            rec["trivial"] = True
            self.results.append(rec)
            return True
        rec["trivial"] = False
        t0 = time.time()
        r = self._portfolio(neg, timeout_ms or self.timeout_ms, rec)
        rec["solver_s"] = round(time.time() - t0, 4)
        if r == z3.unsat:
            rec["verdict"] = "unsat"
        elif r == z3.unknown:
            rec["verdict"] = "unknown"
            rec["reason"] = self.solver.reason_unknown()
            covered = [n for n, p in (regions or {}).items() if (oid, n) in self.known and p is True]
            if covered:
                # every possible counterexample of this obligation lies inside a listed known-finding region (the region predicate
                # is concretely true for this harness instance): nothing outside the region can be reported, whatever the solver says
                rec["verdict"] = "unknown_in_known_region"
                rec["known"] = covered
        else:
            m = self.solver.model()
            rec["verdict"] = "sat"
            rec["model"] = {k: _jsonable(model_value(m, t)) for k, t in self.symbols.items()}
            listed = [(n, p) for n, p in (regions or {}).items() if (oid, n) in self.known]
            if listed:
                outside = z3.And(neg, *[z3.Not(V._bterm(p)) for _, p in listed])
                r2 = self._check(outside)
                if r2 == z3.unsat:
                    rec["verdict"] = "known"
                    rec["known"] = [n for n, _ in listed]
                elif r2 == z3.sat:
                    m = self.solver.model()
                    rec["model"] = {k: _jsonable(model_value(m, t)) for k, t in self.symbols.items()}
                    rec["outside_known_region"] = True
                else:
                    rec["verdict"] = "unknown"
                    rec["reason"] = "unknown outside known region: " + self.solver.reason_unknown()
            if rec["verdict"] == "sat":
                rec["regions_hit"] = [n for n, p in (regions or {}).items() if _holds(m, p)]
                if replay is not None:
                    cfn, builder = replay
                    try:
                        scenario = builder(_ModelView(m, self.symbols))
                        rec["scenario"] = scenario
                        rec["replay_fn"] = f"{cfn.__module__}:{cfn.__name__}"
                        V.set_context(None)
                        try:
                            ok, detail = cfn(scenario)
                        finally:
                            V.set_context(self)
                    except Exception as e:  # replay itself failed
                        ok, detail = None, f"replay raised {type(e).__name__}: {e}\n{traceback.format_exc(limit=4)}"
                    rec["replayed"] = None if ok is None else bool(ok)
                    rec["replay_detail"] = detail
                    if ok is not True and getattr(self, "harness_ref", None) is not None:
                        # the hand-written replay runs a fixed family of scenarios and did not show the failure: re-run the harness itself on the
                        # real code with every symbol pinned to the model's value
                        module, hname = self.harness_ref
                        gsc = {"module": module, "harness": hname, "obligation": oid,
                               "values": {k: _plain(model_value(m, t)) for k, t in self.symbols.items()}, "functions": model_functions(m)}
                        try:
                            ok2, detail2 = generic_replay(gsc)
                        except BaseException as e:
                            ok2, detail2 = None, f"generic replay raised {type(e).__name__}: {e}"
                        finally:
                            V.set_context(self)
                        if ok2 is True:
                            rec["scenario"], rec["replay_fn"] = gsc, "symx.explorer:generic_replay"
                            rec["replayed"], rec["replay_detail"] = True, detail2
                        else:
                            rec["replay_detail"] = f"{detail} | generic re-run: {str(detail2)[:300]}"
                elif getattr(self, "harness_ref", None) is not None:
                    module, hname = self.harness_ref
                    scenario = {"module": module, "harness": hname, "obligation": oid,
                                "values": {k: _plain(model_value(m, t)) for k, t in self.symbols.items()}, "functions": model_functions(m)}
                    rec["scenario"] = scenario
                    rec["replay_fn"] = "symx.explorer:generic_replay"
                    try:
                        ok, detail = generic_replay(scenario)
                    except BaseException as e:  # never let the replay disturb the exploration
                        ok, detail = None, f"generic replay raised {type(e).__name__}: {e}"
                    finally:
                        V.set_context(self)
                    rec["replayed"] = None if ok is None else bool(ok)
                    rec["replay_detail"] = detail
                else:
                    rec["replayed"] = None
                    rec["replay_detail"] = "no replay available"
        self.results.append(rec)
        return rec["verdict"] == "unsat"

    def _portfolio(self, neg, timeout_ms, rec=None):
        """z3 (short) -> cvc5 on the same SMT-LIB text -> z3 (full budget).  Only z3 produces models."""
        first = min(timeout_ms, self.first_timeout_ms)
        self.solver.set("timeout", first)
        r = self._check(neg)
        backend = "z3"
        if r == z3.unknown and timeout_ms > first:
            from .backends import cvc5_check

            s2 = z3.Solver()
            s2.add(*self.solver.assertions())
            s2.add(neg)
            t0 = time.time()
            self.queries += 1
            rc = cvc5_check(s2.to_smt2(), min(timeout_ms, self.cvc5_timeout_ms))
            self.solver_s += time.time() - t0
            if rc == "unsat":
                r, backend = z3.unsat, "cvc5"
            else:
                # z3's non-linear search is sensitive to its random choices: a few short restarts on a fresh solver with other seeds
                # (only an unsat answer is taken from them), then the full budget on the path's own solver
                for attempt in range(1, 5):
                    s3 = z3.Solver()
                    s3.set("timeout", 2 * first)
                    s3.set("random_seed", 7919 * attempt)
                    s3.add(*self.solver.assertions())
                    s3.add(neg)
                    t0 = time.time()
                    self.queries += 1
                    r3 = s3.check()
                    self.solver_s += time.time() - t0
                    if r3 == z3.unsat:
                        r, backend = z3.unsat, f"z3-restart{attempt}"
                        break
                    if r3 == z3.sat:
                        break
                if r != z3.unsat:
                    self.solver.set("timeout", timeout_ms)
                    r = self._check(neg)
                    backend = "z3-long"
        self.solver.set("timeout", self.timeout_ms)
        if rec is not None:
            rec["backend"] = backend
        return r

    def report(self, oid, verdict, info=None, **kw):
        """Record an obligation decided outside prove() (e.g. by an aggregated query)."""
        rec = {"id": oid, "trace": list(self.trace), "info": info or {}, "verdict": verdict, "trivial": False}
        rec.update(kw)
        self.results.append(rec)

    def check_sat(self, *terms, timeout_ms=None):
        """raw query PC ∧ axioms ∧ terms; returns (result, model or None)"""
        self.instantiate()
        if timeout_ms:
            self.solver.set("timeout", timeout_ms)
        r = self._check(*[t.t if hasattr(t, "t") and isinstance(t.t, z3.BoolRef) else V._bterm(t) for t in terms])
        m = self.solver.model() if r == z3.sat else None
        if timeout_ms:
            self.solver.set("timeout", self.timeout_ms)
        return r, m

    def model_view(self, m):
        return _ModelView(m, self.symbols)

    def pc_strings(self, limit=12):
        return [str(z3.simplify(p))[:300] for p in self.pc[:limit]]


def _holds(m, p):
    try:
        return z3.is_true(m.eval(V._bterm(p), model_completion=True))
    except Exception:
        return False


def _jsonable(v):
    if isinstance(v, Fraction):
        return {"q": f"{v.numerator}/{v.denominator}", "f": float(v)} if v.denominator != 1 else int(v)
    return v


class _ModelView:
    """Access to model values for replay: float(mv[name]) / mv.frac(name) / mv.eval(sym)."""

    def __init__(self, m, symbols):
        self.m = m
        self.symbols = symbols

    def frac(self, x):
        t = self.symbols[x] if isinstance(x, str) else V.to_term(x)
        v = model_value(self.m, t)
        if isinstance(v, bool):
            return v
        if isinstance(v, str):
            raise ValueError(f"non numeric model value {v}")
        return Fraction(v)

    def __getitem__(self, x):
        v = self.frac(x)
        if isinstance(v, bool):
            return v
        return int(v) if v.denominator == 1 and isinstance(x, str) and self.symbols[x].sort().kind() == z3.Z3_INT_SORT else float(v)

    def f(self, x):
        if isinstance(x, (int, float)):
            return float(x)
        v = self.frac(x)
        return float(v)

    def b(self, x):
        t = self.symbols[x] if isinstance(x, str) else V._bterm(x)
        return z3.is_true(self.m.eval(t, model_completion=True))

    def func(self, f, *args):
        """value of UF f at concrete args"""
        v = self.m.eval(f(*[z3.RealVal(Fraction(a)) for a in args]), model_completion=True)
        return Fraction(model_value(self.m, v))


# --------------------------------------------------------------------------------------
# running one path / a batch of paths


class ReplayDone(BaseException):
    pass


class ReplayStop(BaseException):
    """the concrete re-execution cannot continue (assumption false on floats, nested enumeration, non-ground term ...)"""


class ConcreteContext:
    """Same interface as Context, but every symbol is the concrete value the solver's model gave it (python float / int / bool), so
    the harness drives the real code on ordinary numbers with the shims switched off (`concrete`); the target obligation is evaluated
    on the numbers it produces.  Used as the replay of a counterexample when an obligation has no hand-written replay."""

    concrete = True

    def __init__(self, values, target, functions=None):
        self.values = values
        self.target = target
        self.functions = functions or {}
        self.counter = {}
        self.symbols = {}
        self.missing = []
        self.hints = []
        self.trace = []
        self.results = []
        self.notes = []
        self.known = {}
        self.pc = []
        self.axioms = []
        self.apps = {}
        self.iroots = {}
        self.axiom_generators = []
        self.gen_state = {}
        self.inner_exc = None
        self.nested_leaves = 0
        self.target_seen = 0
        self.failed = None
        self.inputs = {}

    fresh_name = Context.fresh_name

    def _value(self, name, kind):
        name = self.fresh_name(name)
        if name not in self.values:
            self.missing.append(name)
            v = 0
        else:
            v = self.values[name]
        if isinstance(v, dict):
            v = Fraction(v["q"]) if "q" in v else v.get("f", 0)
        if isinstance(v, str):
            try:
                v = Fraction(v)
            except ValueError:
                raise ReplayStop(f"model value of {name} is not numeric: {v}")
        v = kind(v)
        self.symbols[name] = v
        self.inputs[name] = v
        return v

    def real(self, name, lo=None, hi=None, lo_strict=False, hi_strict=False):
        v = self._value(name, float)
        if lo is not None and (v < lo or (lo_strict and v == lo)) or hi is not None and (v > hi or (hi_strict and v == hi)):
            raise ReplayStop(f"{name}={v} outside its declared range after conversion to float")
        return v

    def int(self, name, lo=None, hi=None):
        return self._value(name, int)

    def bool(self, name):
        return self._value(name, bool)

    def ground(self, t):
        """simplify a term whose only non-arithmetic parts are applications of the model's uninterpreted functions (abstract inputs
        such as a Lévy measure known through finitely many values) to ground arguments"""
        v = z3.simplify(t)
        if z3.is_true(v) or z3.is_false(v) or V.concrete_value(v) is not None or not self.functions:
            return v
        cache = {}

        def go(e):
            k = e.get_id()
            if k in cache:
                return cache[k]
            if z3.is_app(e) and e.num_args() > 0:
                args = [go(a) for a in e.children()]
                name = e.decl().name()
                if e.decl().kind() == z3.Z3_OP_UNINTERPRETED and name in self.functions:
                    vals = [V.concrete_value(z3.simplify(a)) for a in args]
                    if any(x is None for x in vals):
                        raise ReplayStop(f"application of {name} to a non-ground argument")
                    tab = self.functions[name]
                    key = ",".join(str(Fraction(x)) for x in vals)
                    if key in tab["entries"]:
                        r = tab["entries"][key]
                    elif tab.get("else") is not None:
                        r = tab["else"]
                    else:
                        raise ReplayStop(f"the model does not define {name}({key})")
                    out = z3.BoolVal(r) if isinstance(r, bool) else (z3.IntVal(int(Fraction(r))) if e.sort().kind() == z3.Z3_INT_SORT else z3.RealVal(str(Fraction(r))))
                else:
                    out = e.decl()(*args)
            else:
                out = e
            cache[k] = out
            return out

        return z3.simplify(go(v))

    def truth(self, c):
        if isinstance(c, SymBool):
            c = c.t
        if z3.is_expr(c):
            v = self.ground(c)
            if z3.is_true(v):
                return True
            if z3.is_false(v):
                return False
            raise ReplayStop(f"non-ground condition in the concrete re-execution: {str(v)[:120]}")
        try:
            return bool(c)
        except ValueError:
            import numpy as np

            return bool(np.all(c))

    def assume(self, c):
        if not self.truth(c):
            raise ReplayStop("a harness assumption is false on the float values of the model")

    assume_term = assume

    def axiom(self, t):
        pass

    def axiom_once(self, key, t):
        pass

    def register_app(self, *a, **k):
        pass

    def instantiate(self):
        pass

    def decide(self, t):
        return self.truth(t)

    def decide_int(self, t, soft=False):
        if is_sym(t):
            v = V.concrete_value(self.ground(t.t))
            if v is None:
                raise ReplayStop("non-ground integer in the concrete re-execution")
            return int(v)
        return int(t)

    def enumerate(self, fn, max_leaves=2000):
        raise ReplayStop("nested enumeration (measure obligations) has no generic concrete re-execution")

    def check_sat(self, *a, **k):
        raise ReplayStop("solver query inside the harness")

    def report(self, *a, **k):
        pass

    def prove(self, oid, goal, info=None, replay=None, regions=None, timeout_ms=None):
        if oid != self.target:
            return True
        self.target_seen += 1
        if not self.truth(goal):
            self.failed = info or {}
            raise ReplayDone()
        return True


def _plain(v):
    if isinstance(v, Fraction):
        return {"q": str(v)}
    return v


def model_functions(m):
    """the model's interpretation of every uninterpreted function, as JSON-able tables (keys: comma-joined rational arguments)"""
    out = {}
    for d in m.decls():
        if d.arity() == 0:
            continue
        try:
            fi = m[d]
            entries = {}
            for row in fi.as_list()[:-1]:
                args, val = row[:-1], row[-1]
                vals = [V.concrete_value(a) for a in args]
                if z3.is_algebraic_value(val):
                    val = val.approx(30)
                r = True if z3.is_true(val) else (False if z3.is_false(val) else V.concrete_value(val))
                if r is None or any(x is None for x in vals):
                    continue
                entries[",".join(str(Fraction(x)) for x in vals)] = r if isinstance(r, bool) else str(Fraction(r))
            e = fi.else_value()
            if z3.is_algebraic_value(e):
                e = e.approx(30)
            ev = True if z3.is_true(e) else (False if z3.is_false(e) else V.concrete_value(e))
            out[d.name()] = {"entries": entries, "else": None if ev is None else (ev if isinstance(ev, bool) else str(Fraction(ev)))}
        except Exception:
            continue
    return out


def generic_replay(sc):
    """Re-run harness `sc["harness"]` of module `sc["module"]` on the real code with every symbol pinned to the model's value."""
    import importlib

    mod = importlib.import_module(sc["module"])
    h = None
    for tier in (sc.get("tier", "quick"), "thorough", "quick"):
        for cand in mod.harnesses(tier):
            if cand.name == sc["harness"]:
                h = cand
                break
        if h is not None:
            break
    if h is None:
        return None, f"harness {sc['harness']} not found in {sc['module']}"
    cctx = ConcreteContext(sc["values"], sc["obligation"], sc.get("functions"))
    prev = V.get_context()
    V.set_context(cctx)
    _clear_rpylib_caches()
    try:
        h.fn(cctx, **h.params)
    except ReplayDone:
        shown = {k: v for k, v in list(cctx.inputs.items())[:24]}
        return True, (f"harness {h.name} re-run on the real code with plain python numbers (shims off): obligation {sc['obligation']} is false"
                      f"{' for ' + str(cctx.failed) if cctx.failed else ''}; inputs {shown}")
    except (ReplayStop, PathAbort, Unsupported) as e:
        return None, f"generic concrete re-execution stopped: {type(e).__name__}: {e}"
    except Exception as e:
        if isinstance(cctx.inner_exc, BaseException):
            e = cctx.inner_exc
        site = _raise_site(e) if isinstance(e, Exception) else None
        if sc.get("expect_exception") and site is not None:  # (numpy may raise another type on plain numbers than on symbolic values)
            shown = {k: v for k, v in list(cctx.inputs.items())[:24]}
            return True, (f"harness {h.name} re-run on the real code with plain python numbers (shims off): the code under analysis raises "
                          f"{type(e).__name__}: {str(e)[:200]} at {site[0]}:{site[1]} ({site[2]}) on an input the harness assumes valid; inputs {shown}")
        return None, f"generic concrete re-execution raised {type(e).__name__}: {e}\n{traceback.format_exc(limit=5)}"
    finally:
        V.set_context(prev)
        _clear_rpylib_caches()
    if sc.get("expect_exception"):
        return False, f"harness {h.name} ran to its end on the float values of the model without raising {sc['expect_exception']}"
    if cctx.target_seen == 0:
        return None, "generic concrete re-execution never reached the obligation"
    return False, f"obligation {sc['obligation']} holds on the float values of the model ({cctx.target_seen} evaluation(s))"


def run_path(fn, params, prefix, timeout_ms, seed, known, harness_ref=None):
    ctx = Context(prefix=prefix, timeout_ms=timeout_ms, seed=seed, known=known)
    ctx.harness_ref = harness_ref
    V.set_context(ctx)
    _clear_rpylib_caches()
    status = "ok"
    err = None
    try:
        fn(ctx, **params)
    except PathAbort:
        status = "aborted"
    except Unsupported as e:
        status = "unsupported"
        err = f"{e}\n" + "".join(traceback.format_tb(e.__traceback__, limit=-6))
    except RecursionError as e:
        status = "error"
        err = "RecursionError"
    except Exception as e:
        inner = ctx.inner_exc
        if isinstance(inner, PathAbort):
            status = "aborted"
        elif isinstance(inner, Unsupported):
            status = "unsupported"
            err = f"{inner}\n" + "".join(traceback.format_tb(e.__traceback__, limit=-6))
        else:
            status = "error"
            err = f"{type(e).__name__}: {e}\n" + (f"[inner: {type(inner).__name__}: {inner}]\n" if inner else "") + "".join(traceback.format_tb(e.__traceback__, limit=-8))
            try:
                _raised_by_code_under_analysis(ctx, e, harness_ref)
            except BaseException as e2:  # never let this disturb the exploration
                ctx.notes.append(f"raise-obligation skipped: {type(e2).__name__}: {e2}")
    finally:
        V.set_context(None)
    return ctx, status, err


def _repo_root():
    import os

    return os.path.join(os.environ.get("RPYLIB_REPO", "/repo"), "rpylib")


def _raise_site(e):
    """(file, line, function) of the frame that raised `e` when that frame belongs to the code under analysis, else None"""
    tb = traceback.extract_tb(e.__traceback__)
    if not tb:
        return None
    k = len(tb) - 1
    while k > 0 and tb[k].filename.endswith("symx/abstract.py"):
        k -= 1  # the abstract Levy model mirrors the argument checks of the real models (a <= b when integrating): attribute to its caller
    last = tb[k]
    if last.filename.startswith(_repo_root()) and "/tests/" not in last.filename:
        return last.filename, last.lineno, last.name
    return None


def _raised_by_code_under_analysis(ctx, e, harness_ref):
    """The harness assumed its inputs valid and the code under analysis itself raised on this path (the raising frame is in rpylib, not in
    the engine): implicit obligation `<harness>.runs_without_raising_on_assumed_valid_input`.  The path condition is solved for a model and
    the harness is re-run on plain numbers (generic replay); only a raise reproduced there is reported."""
    site = _raise_site(e)
    if site is None or harness_ref is None:
        return
    module, hname = harness_ref
    pid = getattr(sys.modules.get(module), "PID", module)
    oid = f"{pid}.{hname.split('.')[0]}.runs_without_raising_on_assumed_valid_input"
    ctx.instantiate()
    r = ctx._check()
    rec = {"id": oid, "trace": list(ctx.trace), "trivial": False,
           "info": {"raised": f"{type(e).__name__}: {str(e)[:200]}", "at": f"{site[0]}:{site[1]} in {site[2]}"}}
    if r != z3.sat:
        return  # infeasible or undecided path: the path error is listed as inconclusive by the runner
    m = ctx.solver.model()
    rec["verdict"] = "sat"
    rec["model"] = {k: _jsonable(model_value(m, t)) for k, t in ctx.symbols.items()}
    rec["regions_hit"] = []
    scenario = {"module": module, "harness": hname, "obligation": oid, "expect_exception": type(e).__name__,
                "values": {k: _plain(model_value(m, t)) for k, t in ctx.symbols.items()}, "functions": model_functions(m)}
    rec["scenario"] = scenario
    rec["replay_fn"] = "symx.explorer:generic_replay"
    try:
        ok, detail = generic_replay(scenario)
    except BaseException as e2:
        ok, detail = None, f"generic replay raised {type(e2).__name__}: {e2}"
    rec["replayed"] = None if ok is None else bool(ok)
    rec["replay_detail"] = detail
    ctx.results.append(rec)


def explore_batch(fn, params, prefixes, batch, timeout_ms, seed, known, deadline, harness_ref=None):
    """DFS from the given prefixes for at most `batch` paths; returns plain data."""
    stack = [list(p) for p in prefixes]
    out = {"paths": 0, "nontrivial_paths": 0, "records": [], "errors": [], "queries": 0, "solver_s": 0.0,
           "leftover": [], "samples": [], "statuses": {}}
    while stack and out["paths"] < batch and time.time() < deadline:
        prefix = stack.pop()
        ctx, status, err = run_path(fn, params, prefix, timeout_ms, seed, known, harness_ref)
        out["paths"] += 1
        out["statuses"][status] = out["statuses"].get(status, 0) + 1
        if ctx.twosided > 0 or any(isinstance(d, bool) for d in ctx.trace):
            out["nontrivial_paths"] += 1
        out["nested_leaves"] = out.get("nested_leaves", 0) + ctx.nested_leaves
        out["queries"] += ctx.queries
        out["solver_s"] += ctx.solver_s
        for r in ctx.results:
            r["params"] = _param_key(params)
            out["records"].append(r)
        if err is not None:
            out["errors"].append({"status": status, "params": _param_key(params), "trace": ctx.trace, "error": err})
        if len(out["samples"]) < 2 and ctx.results:
            out["samples"].append({
                "params": _param_key(params),
                "decisions": [d if not isinstance(d, bool) else ("T" if d else "F") for d in ctx.trace][:60],
                "path_condition": ctx.pc_strings(8),
                "obligations": [{"id": r["id"], "verdict": r["verdict"]} for r in ctx.results[:12]],
                "notes": ctx.notes[:4],
            })
        stack.extend(ctx.pending)
    out["leftover"] = stack
    return out


def _param_key(params):
    return {k: (v if isinstance(v, (int, float, str, bool, type(None))) else repr(v)) for k, v in params.items()}
