"""Scheduler, verdicts, evidence, known findings, replay files."""
from __future__ import annotations

import hashlib
import importlib
import json
import multiprocessing as mp
import os
import sys
import time
from concurrent.futures import ProcessPoolExecutor, wait, FIRST_COMPLETED

VERIF = os.path.dirname(os.path.dirname(os.path.abspath(__file__)))
REPO = os.environ.get("RPYLIB_REPO", "/repo")
OUT = os.environ.get("VERIF_OUT", VERIF)  # evidence/ and replays/ go here (the seeded-change runner points it at a scratch dir)

EXIT_OK, EXIT_VIOLATION, EXIT_INCONCLUSIVE = 0, 1, 2


class Harness:
    def __init__(self, name, fn, params=None, max_paths=2000, twin=None, timeout_ms=60000, batch=6, concrete=False, error_replay=None):
        self.error_replay = error_replay  # (module-level fn, scenario): reference run of the real code, used when a path of this harness ends in an exception
        self.name = name
        self.fn = fn
        self.params = params or {}
        self.max_paths = max_paths
        self.twin = twin  # None | "must_fail": some obligation must come back sat (reachability/sensitivity twin)
        self.timeout_ms = timeout_ms
        self.batch = batch
        self.concrete = concrete  # plain python function returning a list of (id, ok, detail): translator validation


_HARNESSES = None
_KNOWN = None
_COVER = None


def _install_monitor():
    """record which rpylib functions run (sys.monitoring, disabled per location after first hit)."""
    global _COVER
    _COVER = set()
    mon = sys.monitoring
    tool = mon.COVERAGE_ID
    try:
        mon.use_tool_id(tool, "symx")
    except ValueError:
        return
    root = os.path.join(REPO, "rpylib")

    def on_start(code, off):
        fn = code.co_filename
        if fn.startswith(root) and "/tests/" not in fn:
            _COVER.add(f"{os.path.relpath(fn, REPO)}:{code.co_qualname}")
        return mon.DISABLE

    mon.register_callback(tool, mon.events.PY_START, on_start)
    mon.set_events(tool, mon.events.PY_START)


def _worker_task(args):
    hidx, prefixes, seed, deadline = args
    from . import explorer

    h = _HARNESSES[hidx]
    if _COVER is None:
        _install_monitor()
    before = set(_COVER)
    if h.concrete:
        t0 = time.time()
        try:
            res = h.fn(**h.params)
        except Exception as e:
            import traceback

            site = explorer._raise_site(e)
            res = [("concrete." + h.name, None, f"{type(e).__name__}: {e}\n{traceback.format_exc(limit=6)}")]
            if site is not None:  # the code under analysis itself raised on the reference scenarios
                res = [("concrete." + h.name, "raised", f"the code under analysis raises {type(e).__name__}: {str(e)[:200]} at {site[0]}:{site[1]} ({site[2]}) on a reference scenario")]
        out = {"paths": 1, "nontrivial_paths": 0, "records": [], "errors": [], "queries": 0, "solver_s": 0.0,
               "leftover": [], "samples": [], "statuses": {"ok": 1}}
        for oid, ok, detail in res:
            if ok == "raised":
                out["records"].append({"id": oid, "verdict": "concrete_raised", "trivial": False, "info": {"detail": detail}, "params": {}, "trace": []})
                continue
            out["records"].append({"id": oid, "verdict": "concrete_ok" if ok else ("concrete_fail" if ok is False else "error"),
                                   "trivial": False, "info": {"detail": detail}, "params": {}, "trace": []})
    else:
        out = explorer.explore_batch(h.fn, h.params, prefixes, h.batch, h.timeout_ms, seed, _KNOWN, deadline, harness_ref=(h.fn.__module__, h.name))
    out["hidx"] = hidx
    out["functions"] = sorted(_COVER - before) if _COVER is not None else []
    out["all_functions"] = sorted(_COVER) if _COVER is not None else []
    return out


_CONCRETE_RERUN = {}


def replay_concrete_harness(sc):
    """re-run the concrete reference harness of a check module on the real code: (True, what failed) / (False, summary)"""
    from . import explorer

    mod = importlib.import_module(sc["module"])
    h = None
    for tier in (sc.get("tier", "quick"), "thorough", "quick"):
        for cand in mod.harnesses(tier):
            if cand.name == sc["harness"] and cand.concrete:
                h = cand
                break
        if h is not None:
            break
    if h is None:
        return None, f"concrete harness {sc['harness']} not found in {sc['module']}"
    explorer._clear_rpylib_caches()
    try:
        res = h.fn(**h.params)
    except Exception as e:
        site = explorer._raise_site(e)
        if site is None:
            raise
        return True, f"the code under analysis raises {type(e).__name__}: {str(e)[:200]} at {site[0]}:{site[1]} ({site[2]}) on a reference scenario"
    bad = [(oid, detail) for oid, ok, detail in res if ok is False]
    if bad:
        return True, "; ".join(f"{oid}: {str(detail)[:300]}" for oid, detail in bad[:4])
    return False, f"{len(res)} reference scenario(s) agree with the real code"


def load_known(pid):
    path = os.path.join(VERIF, "known_findings.json")
    known = {}
    if os.path.exists(path):
        data = json.load(open(path))
        for f in data.get("findings", []):
            if f["property"] == pid:
                known[(f["obligation"], f["region"])] = f["what"]
    return known


def run_check(pid, tier, harnesses, expect=(), attempted=(), assumptions=(), bounds=None, level_note="",
              time_budget_s=None, workers=None, error_replays=None):
    """Explore all harnesses, aggregate verdicts, write evidence, print lines, return exit code."""
    global _HARNESSES, _KNOWN
    t_start = time.time()
    seed = int(os.environ.get("VERIF_SEED", "0") or 0)
    _HARNESSES = harnesses
    _KNOWN = load_known(pid)
    workers = workers or int(os.environ.get("VERIF_WORKERS", "0") or 0) or min(16, os.cpu_count() or 4)
    deadline = t_start + (time_budget_s or (600 if tier == "quick" else 3600))

    agg = {i: {"paths": 0, "nontrivial": 0, "queries": 0, "solver_s": 0.0, "records": [], "errors": [], "samples": [],
               "statuses": {}, "exhausted": False}
           for i in range(len(harnesses))}
    functions = set()
    queue = [(i, [[]]) for i in range(len(harnesses))]
    if seed:
        import random

        random.Random(seed).shuffle(queue)
    ctxm = mp.get_context("fork")
    futures = {}
    with ProcessPoolExecutor(max_workers=workers, mp_context=ctxm) as ex:
        def submit(i, prefixes):
            f = ex.submit(_worker_task, (i, prefixes, seed, deadline))
            futures[f] = i

        for i, p in queue:
            submit(i, p)
        while futures:
            done, _ = wait(list(futures), return_when=FIRST_COMPLETED)
            for f in done:
                i = futures.pop(f)
                try:
                    out = f.result()
                except Exception as e:
                    agg[i]["errors"].append({"status": "worker", "error": f"{type(e).__name__}: {e}"})
                    continue
                a = agg[i]
                a["paths"] += out["paths"]
                a["nontrivial"] += out["nontrivial_paths"]
                a["queries"] += out["queries"]
                a["nested"] = a.get("nested", 0) + out.get("nested_leaves", 0)
                a["solver_s"] += out["solver_s"]
                a["records"].extend(out["records"])
                a["errors"].extend(out["errors"])
                for k, v in out["statuses"].items():
                    a["statuses"][k] = a["statuses"].get(k, 0) + v
                if len(a["samples"]) < 2:
                    a["samples"].extend(out["samples"][: 2 - len(a["samples"])])
                functions.update(out["functions"])
                left = out["leftover"]
                if left:
                    if a["paths"] >= harnesses[i].max_paths or time.time() > deadline:
                        a["exhausted"] = True
                    else:
                        # split leftover into chunks so other workers can help
                        nchunk = max(1, min(len(left), workers))
                        for c in range(nchunk):
                            chunk = left[c::nchunk]
                            if chunk:
                                submit(i, chunk)

    # ---- aggregate verdicts
    lines = []
    violations = []
    known_hits = {}
    inconclusive = []
    per_obl = {}
    twin_ok = {}
    n_obl = n_dis = n_nontriv = 0
    for i, h in enumerate(harnesses):
        a = agg[i]
        if h.twin == "must_fail":
            twin_ok[h.name] = any(r["verdict"] in ("sat", "known", "concrete_fail") for r in a["records"])
            if not twin_ok[h.name]:
                inconclusive.append(f"twin {h.name} was not violated (encoding cannot see this kind of error or harness is vacuous)")
            continue
        if a["exhausted"]:
            inconclusive.append(f"harness {h.name}: path budget/time exhausted after {a['paths']} paths")
        for e in a["errors"]:
            inconclusive.append(f"harness {h.name}: path {e.get('status')}: {str(e.get('error'))[:600]}")
        for r in a["records"]:
            oid = r["id"]
            claimed = oid not in attempted
            d = per_obl.setdefault(oid, {"unsat": 0, "sat": 0, "unknown": 0, "known": 0, "trivial": 0, "claimed": claimed,
                                         "concrete_ok": 0, "concrete_fail": 0, "error": 0})
            d[r["verdict"]] = d.get(r["verdict"], 0) + 1
            if r.get("trivial"):
                d["trivial"] += 1
            n_obl += 1
            if r["verdict"] in ("unsat", "concrete_ok"):
                n_dis += 1
                if not r.get("trivial"):
                    n_nontriv += 1
            if r["verdict"] == "unknown_in_known_region":
                continue
            if r["verdict"] == "known":
                n_dis += 0
                for n in r["known"]:
                    known_hits[(oid, n)] = _KNOWN[(oid, n)]
            elif r["verdict"] == "sat":
                if not claimed:
                    continue
                if r.get("replayed") is True:
                    violations.append((h, r))
                else:
                    inconclusive.append(f"{oid}: counterexample not reproduced on the real code ({str(r.get('replay_detail'))[:300]}); model={json.dumps(r.get('model'))[:300]}")
            elif r["verdict"] == "unknown" and claimed:
                inconclusive.append(f"{oid}: solver unknown ({r.get('reason')}) params={r.get('params')}")
            elif r["verdict"] in ("concrete_fail", "concrete_raised"):
                # the reference scenarios run the real code on plain numbers against the same oracles the obligations use; on the unchanged tree
                # they all pass (translator validation).  A failure is re-run and, when it reproduces, reported as found by the concrete reference run
                sc = {"module": h.fn.__module__, "harness": h.name, "tier": tier}
                key = json.dumps(sc, sort_keys=True)
                if key not in _CONCRETE_RERUN:
                    try:
                        _CONCRETE_RERUN[key] = replay_concrete_harness(sc)
                    except Exception as e:
                        _CONCRETE_RERUN[key] = (None, f"re-run raised {type(e).__name__}: {e}")
                ok2, detail2 = _CONCRETE_RERUN[key]
                if ok2 is True:
                    violations.append((h, {"id": f"{pid}.concrete.real_code_agrees_with_the_reference_on_the_reference_scenarios", "params": {}, "regions_hit": [],
                                           "model": None, "scenario": sc, "replay_fn": "symx.runner:replay_concrete_harness",
                                           "replay_detail": "[found by the concrete reference run, not by the solver] " + str(detail2)}))
                else:
                    inconclusive.append(f"{oid}: translator validation failed and did not reproduce: {r['info'].get('detail')}")
            elif r["verdict"] == "error":
                inconclusive.append(f"{oid}: concrete harness error: {r['info'].get('detail')}")
    for oid in expect:
        if oid not in per_obl or (per_obl[oid]["unsat"] + per_obl[oid]["known"] + per_obl[oid]["sat"] + per_obl[oid]["concrete_ok"]) == 0:
            inconclusive.append(f"expected obligation {oid} was never reached (vacuity guard)")

    # ---- replay files for violations
    # a harness whose symbolic run ended in an exception (the code under test raised, or left the modelled fragment): its reference replay
    # runs the real code on concrete inputs; a misbehaviour reproduced there is reported (marked as found by the replay, not by the solver)
    error_replays = error_replays or {}
    done_replays = {}
    for i, h in enumerate(harnesses):
        if not agg[i]["errors"] or h.twin:
            continue
        er = h.error_replay
        if er is None:
            for prefix, cand in error_replays.items():
                if h.name.startswith(prefix):
                    er = cand
                    break
        if er is None:
            continue
        fn, scenario = er
        key = (fn.__module__, fn.__name__, json.dumps(scenario, sort_keys=True, default=str))
        if key not in done_replays:
            try:
                done_replays[key] = fn(scenario)
            except Exception as e:
                from . import explorer

                site = explorer._raise_site(e)
                if site is not None:
                    done_replays[key] = (True, f"the code under analysis raises {type(e).__name__}: {str(e)[:200]} at {site[0]}:{site[1]} ({site[2]}) on the reference scenario {scenario}")
                else:
                    done_replays[key] = (None, f"reference replay raised {type(e).__name__}: {e}")
        ok, detail = done_replays[key]
        if ok is True:
            first = agg[i]["errors"][0]
            violations.append((h, {"id": f"{pid}.{h.name.split('.')[0]}.real_code_runs_as_the_reference_expects", "params": first.get("params"), "regions_hit": [],
                                   "model": None, "scenario": scenario, "replay_fn": f"{fn.__module__}:{fn.__name__}",
                                   "replay_detail": f"[found by the reference replay after the symbolic run ended in: {str(first.get('error')).strip().splitlines()[0][:160]}] {detail}"}))
    seen = set()
    for h, r in violations:
        key = (r["id"], tuple(r.get("regions_hit", [])))
        payload = {"property": pid, "obligation": r["id"], "harness": h.name, "params": r.get("params"),
                   "model": r.get("model"), "scenario": r.get("scenario"), "replay_fn": r.get("replay_fn"),
                   "detail": r.get("replay_detail"), "regions_hit": r.get("regions_hit")}
        hsh = hashlib.sha1(json.dumps(payload, sort_keys=True, default=str).encode()).hexdigest()[:10]
        d = os.path.join(OUT, "replays", pid)
        os.makedirs(d, exist_ok=True)
        path = os.path.join(d, f"{r['id']}-{hsh}.json")
        with open(path, "w") as fh:
            json.dump(payload, fh, indent=1, default=str)
        if key not in seen:
            seen.add(key)
            lines.append(f"VIOLATION property={pid} replay={path}")
            lines.append(f"  obligation={r['id']} params={r.get('params')} regions={r.get('regions_hit')} detail={str(r.get('replay_detail'))[:400]}")
    for (oid, n), what in sorted(known_hits.items()):
        lines.append(f"KNOWN-FINDING: property={pid} {what} [obligation={oid} region={n}]")

    wall = time.time() - t_start
    total_paths = sum(a["paths"] for a in agg.values())
    nontriv_paths = sum(a["nontrivial"] for a in agg.values())
    samples = []
    for i, h in enumerate(harnesses):
        for s in agg[i]["samples"][:1]:
            s = dict(s)
            s["harness"] = h.name
            samples.append(s)
    samples = samples[:8]
    if not samples:
        samples = [{"note": "no path produced an obligation"}]
    evidence = {
        "property_id": pid,
        "tier": tier,
        "seed": seed,
        "level": "model_checking",
        "coverage": {
            "evaluations": max(1, total_paths + n_obl),
            "distinct_nontrivial": n_nontriv + nontriv_paths,
            "rule": "a case is either an explored path (distinct decision trace of the real code under symbolic inputs; non-trivial if it "
                    "contains at least one solver-decided branch) or a (path, obligation) pair sent to the solver (non-trivial if the negated "
                    "goal did not simplify to false syntactically and the solver answered unsat); distinct by (harness parameters, decision "
                    "trace, obligation id)",
            "samples": samples,
            "paths": total_paths,
            "paths_with_symbolic_branch": nontriv_paths,
            "nested_leaves": sum(a.get("nested", 0) for a in agg.values()),
            "obligations": n_obl,
            "discharged": n_dis,
            "obligations_by_id": per_obl,
            "solver_queries": sum(a["queries"] for a in agg.values()),
            "solver_time_s": round(sum(a["solver_s"] for a in agg.values()), 2),
            "functions_encoded": sorted(functions),
            "bounds": bounds or {},
            "harnesses": [{"name": h.name, "params": {k: repr(v) for k, v in h.params.items()}, "paths": agg[i]["paths"], "statuses": agg[i]["statuses"],
                           "twin": h.twin} for i, h in enumerate(harnesses)],
            "twins": twin_ok,
            "known_findings_hit": [f"{o}:{n}" for (o, n) in sorted(known_hits)],
            "inconclusive": inconclusive[:40],
            "solver": f"z3 {__import__('z3').get_version_string()}",
            "exhaustive": False,
        },
        "assumptions": list(assumptions),
        "wall_s": round(wall, 2),
        "violations": len(seen),
    }
    os.makedirs(os.path.join(OUT, "evidence"), exist_ok=True)
    with open(os.path.join(OUT, "evidence", f"{pid}.json"), "w") as fh:
        json.dump(evidence, fh, indent=1, default=str)

    for l in lines:
        print(l)
    print(f"[{pid} {tier}] paths={total_paths} obligations={n_obl} discharged={n_dis} known={len(known_hits)} "
          f"violations={len(seen)} inconclusive={len(inconclusive)} queries={evidence['coverage']['solver_queries']} "
          f"solver_s={evidence['coverage']['solver_time_s']} wall_s={wall:.1f}")
    if seen:
        return EXIT_VIOLATION
    if inconclusive:
        for m in inconclusive[:25]:
            print("INCONCLUSIVE:", m, file=sys.stderr)
        return EXIT_INCONCLUSIVE
    return EXIT_OK
