"""Per-module shims injected into rpylib module globals (source files untouched).

Every shim is the identity when no exploration context is active or when its inputs are concrete,
so concrete replays run the unmodified semantics.
"""
from __future__ import annotations

import builtins
import math
import sys
from fractions import Fraction

import numpy as _np
import z3

from . import values as V
from .values import SymReal, SymInt, SymBool, Unsupported, is_sym, ite
from . import special as S


def _active():
    c = V.get_context()
    return c is not None and not getattr(c, "concrete", False)


def _rng_active():
    """RNG/clock models also feed a concrete re-execution (the draws are the model's values)"""
    return V.get_context() is not None


def _has_sym(x):
    if is_sym(x):
        return True
    if isinstance(x, _np.ndarray):
        return x.dtype == object
    if isinstance(x, (list, tuple)):
        return any(_has_sym(e) for e in x)
    return False


def _float_dtype(dtype):
    if dtype is None:
        return True
    try:
        return _np.issubdtype(_np.dtype(dtype), _np.floating)
    except TypeError:
        return dtype is float


def _int_dtype(dtype):
    try:
        return _np.issubdtype(_np.dtype(dtype), _np.integer)
    except TypeError:
        return dtype is int


class _FakeUintType:
    """np.uint stand-in: callable (truncation to an integer term) and usable with np.iinfo."""

    def __init__(self, real):
        self._real = real

    def __call__(self, x):
        if is_sym(x):
            t = x if isinstance(x, SymInt) else x.__floor__()  # callers pass non-negative values (uint semantics)
            return V.SymUInt(t.t)
        return self._real(x)

    def __getattr__(self, n):
        return getattr(self._real, n)


class NpProxy:
    """`np` as seen by the rpylib module under test."""

    def __init__(self, fresh_cells=True):
        self._fresh_cells = fresh_cells
        self.uint = _FakeUintType(_np.uint)
        self.random = RandomProxy()
        self.linalg = LinalgProxy()

    def __getattr__(self, name):
        attr = getattr(_np, name)
        # plain numpy functions (concatenate, insert, cumsum, where, ...): object-array results become SymArray views, so that a later
        # .astype(float/int) on symbolic entries goes through the model instead of numpy's C conversion
        if callable(attr) and not isinstance(attr, (type, _np.ufunc)) and type(attr).__name__ in ("function", "builtin_function_or_method", "_ArrayFunctionDispatcher"):
            def wrapped(*a, **kw):
                out = attr(*a, **kw)
                if _active():
                    if isinstance(out, _np.ndarray) and out.dtype == object and type(out) is _np.ndarray:
                        return out.view(SymArray)
                    if isinstance(out, tuple):
                        return tuple(o.view(SymArray) if isinstance(o, _np.ndarray) and o.dtype == object and type(o) is _np.ndarray else o for o in out)
                return out

            wrapped.__name__ = getattr(attr, "__name__", name)
            return wrapped
        return attr

    def _dt(self, dtype):
        return dtype._real if isinstance(dtype, _FakeUintType) else dtype

    def iinfo(self, t):
        return _np.iinfo(self._dt(t))

    # ---- constants that must be exact
    @property
    def pi(self):
        if not _active():
            return _np.pi
        return pi_const()

    # ---- allocation
    def zeros(self, shape, dtype=float, **kw):
        dtype = self._dt(dtype)
        if _active() and _float_dtype(dtype):
            a = _np.empty(shape, dtype=object)
            a.fill(0.0)
            return a
        return _np.zeros(shape, dtype=dtype, **kw)

    def ones(self, shape, dtype=float, **kw):
        if _active() and _float_dtype(dtype):
            a = _np.empty(shape, dtype=object)
            a.fill(1.0)
            return a
        return _np.ones(shape, dtype=dtype, **kw)

    def full(self, shape, fill_value, dtype=None, **kw):
        if _active() and (is_sym(fill_value) or (dtype is not None and _float_dtype(dtype)) or isinstance(fill_value, float)):
            a = _np.empty(shape, dtype=object)
            a.fill(fill_value)
            return a
        return _np.full(shape, fill_value, dtype=dtype, **kw)

    def empty(self, shape, dtype=float, **kw):
        dtype = self._dt(dtype)
        if _active() and _float_dtype(dtype):
            a = _np.empty(shape, dtype=object)
            ctx = V.get_context()
            flat = a.reshape(-1)
            for i in range(flat.size):
                flat[i] = ctx.real("uninit") if self._fresh_cells else 0.0
            return a
        if _active() and _int_dtype(dtype):
            return _np.zeros(shape, dtype=object)
        return _np.empty(shape, dtype=dtype, **kw)

    def zeros_like(self, a, dtype=None, **kw):
        if _active() and (dtype is None or _float_dtype(dtype)):
            return self.zeros(_np.shape(a))
        return _np.zeros_like(a, dtype=dtype, **kw)

    def ones_like(self, a, dtype=None, **kw):
        if _active() and (dtype is None or _float_dtype(dtype)):
            return self.ones(_np.shape(a))
        return _np.ones_like(a, dtype=dtype, **kw)

    def empty_like(self, a, dtype=None, **kw):
        if _active() and (dtype is None or _float_dtype(dtype)):
            return self.empty(_np.shape(a))
        return _np.empty_like(a, dtype=dtype, **kw)

    def array(self, obj, dtype=None, **kw):
        if _active() and _has_sym(obj) and (dtype is None or _float_dtype(dtype)):
            a = _np.array(obj, dtype=object, **{k: v for k, v in kw.items() if k != "dtype"})
            # numpy would upcast the python ints of a mixed list to float64: keep that (type-dispatched code relies on it)
            flat = a.reshape(-1)
            for i in range(flat.size):
                if type(flat[i]) is int:
                    flat[i] = float(flat[i])
            return a.view(SymArray)
        if _active() and dtype is not None and _float_dtype(dtype) and isinstance(obj, _np.ndarray) and obj.dtype == object:
            return _np.array(obj, dtype=object).view(SymArray)
        return _np.array(obj, dtype=dtype, **kw)

    def asarray(self, obj, dtype=None, **kw):
        if _active() and _has_sym(obj):
            return _np.asarray(obj, dtype=object)
        return _np.asarray(obj, dtype=dtype, **kw)

    def searchsorted(self, a, v, side="left", **kw):
        """linear scan with forking comparisons on symbolic data (same result as the bisection on a sorted array)"""
        if _active() and (_has_sym(a) or _has_sym(v)):
            arr = list(_np.asarray(a, dtype=object).reshape(-1))

            def one(x):
                i = 0
                while i < len(arr) and bool((arr[i] < x) if side == "left" else (arr[i] <= x)):
                    i += 1
                return i

            if isinstance(v, (_np.ndarray, list, tuple)):
                vv = _np.asarray(v, dtype=object)
                return _np.array([one(x) for x in vv.reshape(-1)], dtype=int).reshape(vv.shape)
            return one(v)
        return _np.searchsorted(a, v, side=side, **kw)

    def atleast_1d(self, x):
        if _active() and is_sym(x):
            a = _np.empty(1, dtype=object)
            a[0] = x
            return a
        return _np.atleast_1d(x)

    # ---- elementwise helpers that numpy cannot do on objects
    def isinf(self, x):
        if _has_sym(x):
            if isinstance(x, _np.ndarray):
                return _np.array([self.isinf(e) for e in x.reshape(-1)], dtype=bool).reshape(x.shape)
            if is_sym(x):
                return False
            return _np.array([self.isinf(e) for e in x])
        return _np.isinf(x)

    def isnan(self, x):
        if _has_sym(x):
            if isinstance(x, _np.ndarray):
                return _np.array([self.isnan(e) for e in x.reshape(-1)], dtype=bool).reshape(x.shape)
            if is_sym(x):
                return False
            return _np.array([self.isnan(e) for e in x])
        return _np.isnan(x)

    def isfinite(self, x):
        if is_sym(x):
            return True
        return _np.isfinite(x)

    def ceil(self, x):
        if is_sym(x):
            return x.__ceil__()
        if isinstance(x, _np.ndarray) and x.dtype == object:
            for hook in CEIL_HOOKS:
                hook(x)
            return _obj_map(lambda e: e.__ceil__() if is_sym(e) else math.ceil(e), x).view(SymArray)
        return _np.ceil(x)

    def floor(self, x):
        if is_sym(x):
            return x.__floor__()
        if isinstance(x, _np.ndarray) and x.dtype == object:
            return _obj_map(lambda e: e.__floor__() if is_sym(e) else math.floor(e), x)
        return _np.floor(x)

    def sqrt(self, x):
        if is_sym(x):
            return S.sym_sqrt(x)
        if _active() and isinstance(x, (int, float)) and not isinstance(x, bool):
            fx = Fraction(x)
            e = S._exact_sqrt(fx) if fx >= 0 else None
            if e is not None:
                return float(e) if not _active() else V.real_val(e)
            if fx >= 0:
                return S.sym_sqrt(x)
        if isinstance(x, _np.ndarray) and x.dtype == object:
            return _obj_map(lambda e: self.sqrt(e), x)
        return _np.sqrt(x)

    def exp(self, x):
        if is_sym(x):
            return S.sym_exp(x)
        if isinstance(x, _np.ndarray) and x.dtype == object:
            return _obj_map(lambda e: self.exp(e), x)
        return _np.exp(x)

    def log(self, x):
        if is_sym(x):
            return S.sym_log(x)
        if isinstance(x, _np.ndarray) and x.dtype == object:
            return _obj_map(lambda e: self.log(e), x)
        return _np.log(x)

    def abs(self, x):
        if is_sym(x):
            return abs(x)
        return _np.abs(x)

    absolute = abs

    def sign(self, x):
        if is_sym(x):
            return x.sign()
        if isinstance(x, _np.ndarray) and x.dtype == object:
            return _obj_map(lambda e: e.sign() if is_sym(e) else _np.sign(e), x)
        return _np.sign(x)

    def maximum(self, a, b):
        if _has_sym(a) or _has_sym(b):
            return _obj_map2(_smax_fork, a, b)
        return _np.maximum(a, b)

    def minimum(self, a, b):
        if _has_sym(a) or _has_sym(b):
            return _obj_map2(_smin_fork, a, b)
        return _np.minimum(a, b)

    def power(self, a, b):
        if _has_sym(a) or _has_sym(b):
            return _obj_map2(lambda x, y: x**y, a, b)
        return _np.power(a, b)

    def where(self, cond, *args):
        return _np.where(cond, *args)

    def linspace(self, start, stop, num=50, endpoint=True, retstep=False, dtype=None, **kw):
        if _active() and (is_sym(start) or is_sym(stop) or is_sym(num)):
            n = num.__index__() if is_sym(num) else int(num)
            if n < 0:
                raise ValueError(f"Number of samples, {n}, must be non-negative.")
            div = (n - 1) if endpoint else n
            step = (stop - start) / div if div > 0 else None
            out = _np.empty(n, dtype=object)
            for k in range(n):
                out[k] = start + k * step if step is not None else start
            if endpoint and n > 1:
                out[n - 1] = stop
            return (out, step) if retstep else out
        return _np.linspace(start, stop, num=num, endpoint=endpoint, retstep=retstep, dtype=dtype, **kw)

    def geomspace(self, start, stop, num=50, endpoint=True, dtype=None, **kw):
        """contract stub on symbolic end points: an arbitrary strictly monotone sequence of `num` points from start to stop
        (same sign), the geometric spacing itself is not modelled"""
        if _active() and (is_sym(start) or is_sym(stop)):
            ctx = V.get_context()
            n = int(num)
            out = _np.empty(n, dtype=object)
            if n == 0:
                return out
            out[0] = start
            if n == 1:
                return out
            out[n - 1] = stop
            ctx.assume((start < stop) if bool(start < stop) else (start > stop))
            inc = bool(start < stop)
            prev = start
            for k in range(1, n - 1):
                x = ctx.real("geom")
                ctx.assume(x > prev if inc else x < prev)
                ctx.assume(x < stop if inc else x > stop)
                out[k] = x
                prev = x
            return out
        return _np.geomspace(start, stop, num=num, endpoint=endpoint, dtype=dtype, **kw)

    def interp(self, x, xp, fp):
        if _has_sym(x) or _has_sym(xp) or _has_sym(fp):
            raise Unsupported("np.interp on symbolic data")
        return _np.interp(x, xp, fp)

    def mean(self, a, axis=None, **kw):
        if _has_sym(a):
            a = _np.asarray(a, dtype=object)
            n = a.shape[axis] if axis is not None else a.size
            return _np.sum(a, axis=axis) / n
        return _np.mean(a, axis=axis, **kw)

    def var(self, a, axis=None, ddof=0, **kw):
        if _has_sym(a):
            a = _np.asarray(a, dtype=object)
            n = a.shape[axis] if axis is not None else a.size
            m = _np.sum(a, axis=axis) / n
            if axis is not None:
                m = _np.expand_dims(m, axis)
            d = a - m
            return _np.sum(d * d, axis=axis) / (n - ddof)
        return _np.var(a, axis=axis, ddof=ddof, **kw)

    def std(self, a, axis=None, ddof=0, **kw):
        if _has_sym(a):
            return self.sqrt(self.var(a, axis=axis, ddof=ddof))
        return _np.std(a, axis=axis, ddof=ddof, **kw)

    def cov(self, m, y=None, rowvar=True, bias=False, ddof=None, **kw):
        if _has_sym(m) or _has_sym(y):
            X = _np.atleast_2d(_np.asarray(m, dtype=object))
            if not rowvar and X.shape[0] != 1:
                X = X.T
            if y is not None:
                Y = _np.atleast_2d(_np.asarray(y, dtype=object))
                if not rowvar and Y.shape[0] != 1:
                    Y = Y.T
                X = _np.concatenate((X, Y), axis=0)
            n = X.shape[1]
            if ddof is None:
                ddof = 0 if bias else 1
            mu = _np.sum(X, axis=1) / n
            D = X - mu[:, None]
            c = _np.empty((X.shape[0], X.shape[0]), dtype=object)
            for i in range(X.shape[0]):
                for j in range(X.shape[0]):
                    c[i, j] = sum(D[i, k] * D[j, k] for k in range(n)) / (n - ddof)
            return c if c.shape != (1, 1) else c[0, 0]
        return _np.cov(m, y=y, rowvar=rowvar, bias=bias, ddof=ddof, **kw)


class SymArray(_np.ndarray):
    """object ndarray whose astype(int/float) keeps symbolic entries: float -> identity; integer dtype -> elementwise truncation towards
    zero, wrapped modulo 2^bits for the narrow integer types (what a C cast of a float array does on this platform for in-range
    magnitudes); entries that are already integers are kept (np.ceil(...).astype(int) in rpylib)"""

    def __array_wrap__(self, out, context=None, return_scalar=False):
        if getattr(out, "ndim", 1) == 0:  # reductions give the element itself, as they do for a plain object ndarray
            return out[()]
        return _np.asarray(out).view(SymArray)

    def astype(self, dtype, *a, **kw):
        base = _np.asarray(self)
        if base.dtype == object and _has_sym(base) and _float_dtype(dtype):
            return self
        if base.dtype == object and _has_sym(base) and _int_dtype(dtype):
            bits = _np.dtype(dtype).itemsize * 8
            signed = _np.issubdtype(_np.dtype(dtype), _np.signedinteger)
            out = _np.empty(base.shape, dtype=object)
            fo, fx = out.reshape(-1), base.reshape(-1)
            for i in range(fx.size):
                v = fx[i]
                if is_sym(v):
                    v = v if isinstance(v, SymInt) else v.__trunc__()
                else:
                    v = int(v)
                if bits < 64:
                    half = 2 ** (bits - 1) if signed else 0
                    v = (v + half) % (2**bits) - half
                fo[i] = v
            return out.view(SymArray)
        return base.astype(dtype, *a, **kw)


def _obj_map(f, x):
    x = _np.asarray(x, dtype=object)
    out = _np.empty(x.shape, dtype=object)
    fo, fx = out.reshape(-1), x.reshape(-1)
    for i in range(fx.size):
        fo[i] = f(fx[i])
    return out.view(SymArray)


def _obj_map2(f, a, b):
    if not isinstance(a, (_np.ndarray, list, tuple)) and not isinstance(b, (_np.ndarray, list, tuple)):
        return f(a, b)
    A = _np.asarray(a, dtype=object)
    B = _np.asarray(b, dtype=object)
    A, B = _np.broadcast_arrays(A, B)
    out = _np.empty(A.shape, dtype=object)
    fo, fa, fb = out.reshape(-1), A.reshape(-1), B.reshape(-1)
    for i in range(fa.size):
        fo[i] = f(fa[i], fb[i])
    return out.view(SymArray)


def _smax_fork(a, b):
    # If-term (no fork): the solver sees max as a case split; with ctx.fork_max the path forks instead (polynomial obligations)
    if getattr(V.get_context(), "fork_max", False) and (is_sym(a) or is_sym(b)):
        return a if bool(a >= b) else b
    return V.smax(a, b)


def _smin_fork(a, b):
    if getattr(V.get_context(), "fork_max", False) and (is_sym(a) or is_sym(b)):
        return a if bool(a <= b) else b
    return V.smin(a, b)


class LinalgProxy:
    def __getattr__(self, n):
        return getattr(_np.linalg, n)

    def inv(self, a):
        if _has_sym(a):
            a = _np.asarray(a, dtype=object)
            if a.shape == (1, 1):
                out = _np.empty((1, 1), dtype=object)
                out[0, 0] = 1 / a[0, 0]
                return out
            if a.shape == (2, 2):
                det = a[0, 0] * a[1, 1] - a[0, 1] * a[1, 0]
                out = _np.empty((2, 2), dtype=object)
                out[0, 0], out[0, 1], out[1, 0], out[1, 1] = a[1, 1] / det, -a[0, 1] / det, -a[1, 0] / det, a[0, 0] / det
                return out
            raise Unsupported("symbolic matrix inverse beyond 2x2")
        return _np.linalg.inv(a)

    def det(self, a):
        if _has_sym(a):
            a = _np.asarray(a, dtype=object)
            if a.shape == (1, 1):
                return a[0, 0]
            if a.shape == (2, 2):
                return a[0, 0] * a[1, 1] - a[0, 1] * a[1, 0]
            if a.shape == (3, 3):
                return (a[0, 0] * (a[1, 1] * a[2, 2] - a[1, 2] * a[2, 1]) - a[0, 1] * (a[1, 0] * a[2, 2] - a[1, 2] * a[2, 0])
                        + a[0, 2] * (a[1, 0] * a[2, 1] - a[1, 1] * a[2, 0]))
            raise Unsupported("symbolic determinant beyond 3x3")
        return _np.linalg.det(a)


# --------------------------------------------------------------------------------------
# RNG model


class RngModel:
    """state (seed, pos); a draw returns a fresh symbol tagged with (seed,pos) and advances pos."""

    def __init__(self):
        self.reset()

    def reset(self):
        self.seed_id = "unseeded"
        self.pos = 0
        self.log = []  # (kind, seed, pos, symbol)
        self.seed_calls = []
        self.cache = {}

    def seed(self, s=None):
        self.seed_calls.append((s, self.seed_id, self.pos))
        self.seed_id = repr(s)
        self.pos = 0

    def draw(self, kind, lo=None, hi=None, integer=False):
        ctx = V.get_context()
        key = (self.seed_id, self.pos)
        if key in self.cache and self.seed_id != "unseeded":
            sym = self.cache[key]
        else:
            nm = f"rng[{self.seed_id},{self.pos}]"
            if integer:
                sym = ctx.int(nm, lo=lo, hi=hi)
            else:
                sym = ctx.real(nm)
                if lo is not None:
                    ctx.assume(sym >= lo)
                if hi is not None:
                    ctx.assume(sym < hi)
            self.cache[key] = sym
        self.log.append((kind, self.seed_id, self.pos, sym))
        self.pos += 1
        return sym


RNG = RngModel()


def _shape_size(size):
    if size is None:
        return None, 1
    if isinstance(size, (int, _np.integer)) or is_sym(size):
        n = size.__index__() if is_sym(size) else int(size)
        return (n,), n
    shp = tuple(int(s) for s in size)
    n = 1
    for s in shp:
        n *= s
    return shp, n


class RandomProxy:
    """numpy.random as seen by rpylib modules under test."""

    def __getattr__(self, n):
        return getattr(_np.random, n)

    def seed(self, s=None):
        if _rng_active():
            RNG.seed(s)
        else:
            _np.random.seed(s)

    def _many(self, kind, size, **kw):
        shp, n = _shape_size(size)
        if shp is None:
            return RNG.draw(kind, **kw)
        a = _np.empty(n, dtype=object)
        for i in range(n):
            a[i] = RNG.draw(kind, **kw)
        if not _active():  # concrete re-execution: ordinary numeric array
            a = a.astype(int if kw.get("integer") else float)
        return a.reshape(shp)

    def uniform(self, low=0.0, high=1.0, size=None):
        if not _rng_active():
            return _np.random.uniform(low, high, size)
        u = self._many("uniform", size, lo=0, hi=1)
        if (isinstance(low, (int, float)) and low == 0) and (isinstance(high, (int, float)) and high == 1):
            return u
        return low + (high - low) * u

    def random_sample(self, size=None):
        return self.uniform(size=size)

    random = random_sample
    rand = lambda self, *shape: self.uniform(size=shape if shape else None)

    def normal(self, loc=0.0, scale=1.0, size=None):
        if not _rng_active():
            return _np.random.normal(loc, scale, size)
        z = self._many("normal", size)
        return loc + scale * z

    def standard_normal(self, size=None):
        if not _rng_active():
            return _np.random.standard_normal(size)
        return self._many("normal", size)

    def randn(self, *shape):
        return self.standard_normal(size=shape if shape else None)

    def poisson(self, lam=1.0, size=None):
        if not _rng_active():
            return _np.random.poisson(lam, size)
        return self._many("poisson", size, lo=0, hi=POISSON_MAX[0], integer=True)

    def exponential(self, scale=1.0, size=None):
        if not _rng_active():
            return _np.random.exponential(scale, size)
        e = self._many("exponential", size, lo=0)
        return scale * e

    def choice(self, a, size=None, **kw):
        if not _rng_active():
            return _np.random.choice(a, size=size, **kw)
        seq = list(a) if not isinstance(a, int) else list(range(a))
        i = RNG.draw("choice", lo=0, hi=len(seq) - 1, integer=True)
        return seq[i.__index__()]


POISSON_MAX = [2]
CEIL_HOOKS = []


# --------------------------------------------------------------------------------------
# exact constants


def pi_const():
    ctx = V.get_context()
    t = z3.Real("const_pi")
    if "const_pi" not in ctx.symbols:
        ctx.symbols["const_pi"] = t
        ctx.axiom(z3.And(t > z3.RealVal("3.14159"), t < z3.RealVal("3.1416")))
    return SymReal(t)


# --------------------------------------------------------------------------------------
# builtins / math shims


def sym_float(x=0.0):
    if is_sym(x):
        if isinstance(x, SymBool):
            return x._num() * 1.0
        return V.real_val(x) if isinstance(x, SymInt) else x
    return builtins.float(x)


class _FloatShim:
    """`float` replacement inside a module: callable + isinstance-compatible."""

    def __call__(self, x=0.0):
        return sym_float(x)

    def __instancecheck__(self, inst):
        return isinstance(inst, builtins.float)


def sym_int(x=0, *a):
    if is_sym(x):
        if isinstance(x, SymInt):
            return x
        return x.__trunc__()
    return builtins.int(x, *a)


def sym_floor(x):
    if is_sym(x):
        return x.__floor__()
    if isinstance(x, Fraction):
        return math.floor(x)
    return math.floor(x)


def sym_ceil(x):
    if is_sym(x):
        return x.__ceil__()
    return math.ceil(x)


def sym_sqrt(x):
    if is_sym(x):
        return S.sym_sqrt(x)
    if _active() and isinstance(x, (int, float, Fraction)) and not isinstance(x, bool) and x >= 0:
        e = S._exact_sqrt(Fraction(x))
        if e is not None:
            return float(e)
        return S.sym_sqrt(x)
    return math.sqrt(x)


def sym_exp(x):
    if is_sym(x):
        return S.sym_exp(x)
    return math.exp(x)


def sym_log(x):
    if is_sym(x):
        return S.sym_log(x)
    return math.log(x)


def sym_abs(x):
    return builtins.abs(x)


def sym_max(*args, **kw):
    """max without forking when all arguments are scalars (If-terms)."""
    if len(args) == 1:
        args = tuple(args[0])
    if any(is_sym(a) for a in args) and "key" not in kw:
        r = args[0]
        for a in args[1:]:
            r = V.smax(r, a)
        return r
    return builtins.max(*args, **kw)


def sym_min(*args, **kw):
    if len(args) == 1:
        args = tuple(args[0])
    if any(is_sym(a) for a in args) and "key" not in kw:
        r = args[0]
        for a in args[1:]:
            r = V.smin(r, a)
        return r
    return builtins.min(*args, **kw)


def install(module, **names):
    """set names in module globals, remembering the originals; returns an undo function."""
    saved = {}
    for k, v in names.items():
        saved[k] = module.__dict__.get(k, _MISSING)
        module.__dict__[k] = v

    def undo():
        for k, v in saved.items():
            if v is _MISSING:
                module.__dict__.pop(k, None)
            else:
                module.__dict__[k] = v

    return undo


_MISSING = object()

NP = NpProxy()


def install_np(*modules, fresh_cells=True):
    for m in modules:
        if "np" in m.__dict__:
            m.__dict__["np"] = NP
        if "npr" in m.__dict__:
            m.__dict__["npr"] = NP.random


def register_singledispatch(func_or_method, typ=SymReal, like=float):
    """register `typ` to the implementation currently registered for `like` (looked up at run time,
    so a modified implementation in /repo is what runs)."""
    disp = getattr(func_or_method, "dispatcher", func_or_method)
    impl = disp.registry.get(like)
    if impl is None:
        impl = disp.dispatch(like)
    disp.register(typ, impl)
    if typ is SymReal:
        disp.register(SymInt, impl)
