"""symx: symbolic execution of rpylib's real python code with z3 deciding every obligation."""
