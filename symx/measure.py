"""Lebesgue measure of the set of uniforms u in [0,1) that drive a sampler to a given leaf.

Every constraint of a leaf must be affine in u with a concrete non-zero coefficient (or not involve u at all).  `ToInt(K*u) = v`
facts are rewritten to v <= K*u < v+1.  The length of the leaf is max(0, min(upper bounds) - max(lower bounds)) as a z3 term in
the remaining symbols; constraints that do not involve u become an indicator.
"""
from fractions import Fraction

import z3

from . import values as V
from .values import Unsupported, concrete_value


def _contains(t, u):
    if t.eq(u):
        return True
    return any(_contains(c, u) for c in t.children())


def _affine(g, u):
    """(a, b) with g == a*u + b; a must be a concrete rational."""
    g0 = z3.simplify(z3.substitute(g, (u, z3.RealVal(0))))
    g1 = z3.simplify(z3.substitute(g, (u, z3.RealVal(1))))
    g2 = z3.simplify(z3.substitute(g, (u, z3.RealVal(2))))
    a = z3.simplify(g1 - g0)
    ca = concrete_value(a)
    if ca is None:
        raise Unsupported(f"coefficient of the uniform is not concrete: {a}")
    chk = z3.simplify(g2 - g0 - 2 * a)
    cc = concrete_value(chk)
    if cc is None or cc != 0:
        raise Unsupported(f"constraint is not affine in the uniform: {g}")
    return Fraction(ca), g0


def _toint_rewrites(t, u, out):
    """collect ToInt(e(u)) subterms"""
    if z3.is_app(t) and t.decl().kind() == z3.Z3_OP_TO_INT and _contains(t, u):
        out.append(t)
        return
    for c in t.children():
        _toint_rewrites(c, u, out)


def leaf_length(cons, u, lo0=0, hi0=1):
    """returns (length term, side condition term) for the leaf described by `cons` (list of z3 bool terms)."""
    lowers = [z3.RealVal(lo0)]
    uppers = [z3.RealVal(hi0)]
    side = []
    work = list(cons)
    # pin ToInt(e(u)) = v facts
    pins = {}
    for c in list(work):
        if z3.is_eq(c):
            l, r = c.children()
            for x, y in ((l, r), (r, l)):
                if z3.is_app(x) and x.decl().kind() == z3.Z3_OP_TO_INT and _contains(x, u) and concrete_value(y) is not None:
                    pins[x.hash()] = (x, concrete_value(y))
    subs = []
    for h, (x, v) in pins.items():
        e = x.arg(0)
        work.append(e >= v)
        work.append(e < v + 1)
        subs.append((x, z3.IntVal(int(v))))
        xs = z3.simplify(x)
        if not xs.eq(x):
            subs.append((xs, z3.IntVal(int(v))))
    work = [c for c in work if not (z3.is_eq(c) and any(c.arg(0).eq(x) or c.arg(1).eq(x) for x, _ in pins.values()))]
    flat = []
    for c in work:
        if subs:
            c = z3.substitute(c, *subs)
        c = z3.simplify(c)
        todo = [c]
        while todo:
            x = todo.pop()
            if z3.is_and(x):
                todo.extend(x.children())
            else:
                flat.append(x)
    for c in flat:
        if z3.is_true(c):
            continue
        if not _contains(c, u):
            side.append(c)
            continue
        tis = []
        _toint_rewrites(c, u, tis)
        if tis:
            raise Unsupported(f"unpinned ToInt of the uniform in a leaf constraint: {c}")
        neg = False
        while z3.is_not(c):
            neg = not neg
            c = c.arg(0)
        k = c.decl().kind()
        if k in (z3.Z3_OP_AND, z3.Z3_OP_OR) or z3.is_eq(c) or k == z3.Z3_OP_DISTINCT:
            if z3.is_eq(c) or k == z3.Z3_OP_DISTINCT:
                # u == t has measure zero; u != t has full measure
                is_eq = z3.is_eq(c) != neg
                if is_eq:
                    return z3.RealVal(0), z3.BoolVal(True)
                continue
            raise Unsupported(f"non-atomic leaf constraint on the uniform: {c}")
        l, r = c.children()
        l = z3.ToReal(l) if l.sort().kind() == z3.Z3_INT_SORT else l
        r = z3.ToReal(r) if r.sort().kind() == z3.Z3_INT_SORT else r
        a, b = _affine(l - r, u)
        if a == 0:
            side.append(c if not neg else z3.Not(c))
            continue
        op = {z3.Z3_OP_LT: "<", z3.Z3_OP_LE: "<", z3.Z3_OP_GT: ">", z3.Z3_OP_GE: ">"}.get(k)
        if op is None:
            raise Unsupported(f"unexpected comparison in a leaf constraint: {c}")
        if neg:
            op = ">" if op == "<" else "<"
        # a*u + b  op  0
        bound = z3.simplify(-b / z3.RealVal(a))
        if (op == "<") == (a > 0):
            uppers.append(bound)
        else:
            lowers.append(bound)
    lo = lowers[0]
    for t in lowers[1:]:
        lo = z3.If(t > lo, t, lo)
    hi = uppers[0]
    for t in uppers[1:]:
        hi = z3.If(t < hi, t, hi)
    length = z3.If(hi > lo, hi - lo, z3.RealVal(0))
    sidec = z3.And(*side) if side else z3.BoolVal(True)
    return z3.If(sidec, length, z3.RealVal(0)), sidec


def state_measures(leaves, u, key=lambda v: v, lo0=0, hi0=1):
    """dict state -> z3 term: total length of the leaves returning that state; leaves ending in an exception are collected
    under the key ('exception', type name)."""
    out = {}
    for cons, val, exc in leaves:
        k = ("exception", type(exc).__name__) if exc is not None else key(val)
        ln, _ = leaf_length(cons, u, lo0, hi0)
        out[k] = ln if k not in out else out[k] + ln
    return out


# --------------------------------------------------------------------------------------
# division-free reasoning about leaf lengths that are ratios (mass / total mass)


def frac(t):
    """(num, den) with t == num/den, den a product of the divisors occurring in t (structurally shared divisors are not squared).
    Supports +, -, *, / and numerals/atoms; raises Unsupported on If (callers resolve min/max with leaf_interval_resolved)."""
    t = z3.simplify(t)
    one = z3.RealVal(1)

    def same(a, b):
        return a.eq(b)

    def go(e):
        if z3.is_app(e):
            k = e.decl().kind()
            ch = e.children()
            if k == z3.Z3_OP_DIV:
                n1, d1 = go(ch[0])
                n2, d2 = go(ch[1])
                return n1 * d2, d1 * n2
            if k == z3.Z3_OP_ADD or k == z3.Z3_OP_SUB:
                parts = [go(c) for c in ch]
                num, den = parts[0]
                for i, (n, d) in enumerate(parts[1:]):
                    sgn = -1 if k == z3.Z3_OP_SUB else 1
                    if same(z3.simplify(den), z3.simplify(d)):
                        num = num + sgn * n
                    else:
                        num, den = num * d + sgn * n * den, den * d
                return num, den
            if k == z3.Z3_OP_UMINUS:
                n, d = go(ch[0])
                return -n, d
            if k == z3.Z3_OP_MUL:
                num, den = one, one
                for c in ch:
                    n, d = go(c)
                    num, den = num * n, den * d
                return num, den
            if k == z3.Z3_OP_ITE:
                n1, d1 = go(ch[1])
                n2, d2 = go(ch[2])
                if same(z3.simplify(d1), z3.simplify(d2)):
                    return z3.If(ch[0], n1, n2), d1
                return z3.If(ch[0], n1 * d2, n2 * d1), d1 * d2
            if k == z3.Z3_OP_TO_REAL:
                return e, one
        return e, one

    n, d = go(t)
    return z3.simplify(n), z3.simplify(d)


def leaf_interval_resolved(ctx, cons, u, lo0=0, hi0=1):
    """(lo, hi, side) of a leaf with the min over upper bounds / max over lower bounds resolved by solver queries under the
    current path condition (no If terms); returns None when the order of the bounds is not determined."""
    length, side = leaf_length(cons, u, lo0, hi0)  # validates the constraints; bounds are recomputed below
    lowers, uppers = _bounds(cons, u, lo0, hi0)

    def pick(cands, smallest):
        for c in cands:
            ok = True
            for o in cands:
                if o is c:
                    continue
                goal = (c <= o) if smallest else (c >= o)
                r, _ = ctx.check_sat(SymBoolT(z3.Not(goal)), timeout_ms=5000)
                if r != z3.unsat:
                    ok = False
                    break
            if ok:
                return c
        return None

    lo = pick(lowers, smallest=False)
    hi = pick(uppers, smallest=True)
    if lo is None or hi is None:
        return None
    return lo, hi, side


class SymBoolT:
    """minimal wrapper so that Context.check_sat accepts raw z3 bool terms"""

    def __init__(self, t):
        self.t = t


def _bounds(cons, u, lo0, hi0):
    """lists of lower / upper bound terms of a leaf (same normalisation as leaf_length)"""
    lowers = [z3.RealVal(lo0)]
    uppers = [z3.RealVal(hi0)]
    flat = []
    for c in cons:
        todo = [z3.simplify(c)]
        while todo:
            x = todo.pop()
            if z3.is_and(x):
                todo.extend(x.children())
            else:
                flat.append(x)
    for c in flat:
        if z3.is_true(c) or not _contains(c, u):
            continue
        neg = False
        while z3.is_not(c):
            neg = not neg
            c = c.arg(0)
        k = c.decl().kind()
        if z3.is_eq(c) or k == z3.Z3_OP_DISTINCT:
            continue
        l, r = c.children()
        a, b = _affine(l - r, u)
        if a == 0:
            continue
        op = {z3.Z3_OP_LT: "<", z3.Z3_OP_LE: "<", z3.Z3_OP_GT: ">", z3.Z3_OP_GE: ">"}[k]
        if neg:
            op = ">" if op == "<" else "<"
        bound = z3.simplify(-b / z3.RealVal(a))
        if (op == "<") == (a > 0):
            uppers.append(bound)
        else:
            lowers.append(bound)
    return lowers, uppers


def ratio_identity(length_lo, length_hi, weight, target):
    """division-free form of (hi - lo) * weight == target: returns (poly, den) with  poly == 0  <=>  identity, given den != 0"""
    n, d = frac(length_hi - length_lo)
    poly = z3.simplify(n * weight - target * d, som=True)
    return poly, d
