"""Lebesgue measure of the set of uniforms u in [0,1) that drive a sampler to a given leaf.

Every constraint of a leaf must be affine in u with a concrete non-zero coefficient (or not involve u at all).  `ToInt(K*u) = v`
facts are rewritten to v <= K*u < v+1.  The length of the leaf is max(0, min(upper bounds) - max(lower bounds)) as a z3 term in
the remaining symbols; constraints that do not involve u become an indicator.
"""
from fractions import Fraction

import z3

from . import values as V
from .values import Unsupported, concrete_value


def _contains(t, u):
    if t.eq(u):
        return True
    return any(_contains(c, u) for c in t.children())


def _affine(g, u):
    """(a, b) with g == a*u + b; a must be a concrete rational."""
    g0 = z3.simplify(z3.substitute(g, (u, z3.RealVal(0))))
    g1 = z3.simplify(z3.substitute(g, (u, z3.RealVal(1))))
    g2 = z3.simplify(z3.substitute(g, (u, z3.RealVal(2))))
    a = z3.simplify(g1 - g0)
    ca = concrete_value(a)
    if ca is None:
        raise Unsupported(f"coefficient of the uniform is not concrete: {a}")
    chk = z3.simplify(g2 - g0 - 2 * a)
    cc = concrete_value(chk)
    if cc is None or cc != 0:
        raise Unsupported(f"constraint is not affine in the uniform: {g}")
    return Fraction(ca), g0


def _toint_rewrites(t, u, out):
    """collect ToInt(e(u)) subterms"""
    if z3.is_app(t) and t.decl().kind() == z3.Z3_OP_TO_INT and _contains(t, u):
        out.append(t)
        return
    for c in t.children():
        _toint_rewrites(c, u, out)


def leaf_length(cons, u, lo0=0, hi0=1):
    """returns (length term, side condition term) for the leaf described by `cons` (list of z3 bool terms)."""
    lowers = [z3.RealVal(lo0)]
    uppers = [z3.RealVal(hi0)]
    side = []
    work = list(cons)
    # pin ToInt(e(u)) = v facts
    pins = {}
    for c in list(work):
        if z3.is_eq(c):
            l, r = c.children()
            for x, y in ((l, r), (r, l)):
                if z3.is_app(x) and x.decl().kind() == z3.Z3_OP_TO_INT and _contains(x, u) and concrete_value(y) is not None:
                    pins[x.hash()] = (x, concrete_value(y))
    subs = []
    for h, (x, v) in pins.items():
        e = x.arg(0)
        work.append(e >= v)
        work.append(e < v + 1)
        subs.append((x, z3.IntVal(int(v))))
        xs = z3.simplify(x)
        if not xs.eq(x):
            subs.append((xs, z3.IntVal(int(v))))
    work = [c for c in work if not (z3.is_eq(c) and any(c.arg(0).eq(x) or c.arg(1).eq(x) for x, _ in pins.values()))]
    flat = []
    for c in work:
        if subs:
            c = z3.substitute(c, *subs)
        c = z3.simplify(c)
        todo = [c]
        while todo:
            x = todo.pop()
            if z3.is_and(x):
                todo.extend(x.children())
            else:
                flat.append(x)
    for c in flat:
        if z3.is_true(c):
            continue
        if not _contains(c, u):
            side.append(c)
            continue
        tis = []
        _toint_rewrites(c, u, tis)
        if tis:
            raise Unsupported(f"unpinned ToInt of the uniform in a leaf constraint: {c}")
        neg = False
        while z3.is_not(c):
            neg = not neg
            c = c.arg(0)
        k = c.decl().kind()
        if k in (z3.Z3_OP_AND, z3.Z3_OP_OR) or z3.is_eq(c) or k == z3.Z3_OP_DISTINCT:
            if z3.is_eq(c) or k == z3.Z3_OP_DISTINCT:
                # u == t has measure zero; u != t has full measure
                is_eq = z3.is_eq(c) != neg
                if is_eq:
                    return z3.RealVal(0), z3.BoolVal(True)
                continue
            raise Unsupported(f"non-atomic leaf constraint on the uniform: {c}")
        l, r = c.children()
        l = z3.ToReal(l) if l.sort().kind() == z3.Z3_INT_SORT else l
        r = z3.ToReal(r) if r.sort().kind() == z3.Z3_INT_SORT else r
        a, b = _affine(l - r, u)
        if a == 0:
            side.append(c if not neg else z3.Not(c))
            continue
        op = {z3.Z3_OP_LT: "<", z3.Z3_OP_LE: "<", z3.Z3_OP_GT: ">", z3.Z3_OP_GE: ">"}.get(k)
        if op is None:
            raise Unsupported(f"unexpected comparison in a leaf constraint: {c}")
        if neg:
            op = ">" if op == "<" else "<"
        # a*u + b  op  0
        bound = z3.simplify(-b / z3.RealVal(a))
        if (op == "<") == (a > 0):
            uppers.append(bound)
        else:
            lowers.append(bound)
    lo = lowers[0]
    for t in lowers[1:]:
        lo = z3.If(t > lo, t, lo)
    hi = uppers[0]
    for t in uppers[1:]:
        hi = z3.If(t < hi, t, hi)
    length = z3.If(hi > lo, hi - lo, z3.RealVal(0))
    sidec = z3.And(*side) if side else z3.BoolVal(True)
    return z3.If(sidec, length, z3.RealVal(0)), sidec


def state_measures(leaves, u, key=lambda v: v, lo0=0, hi0=1):
    """dict state -> z3 term: total length of the leaves returning that state; leaves ending in an exception are collected
    under the key ('exception', type name)."""
    out = {}
    for cons, val, exc in leaves:
        k = ("exception", type(exc).__name__) if exc is not None else key(val)
        ln, _ = leaf_length(cons, u, lo0, hi0)
        out[k] = ln if k not in out else out[k] + ln
    return out
