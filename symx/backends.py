"""Second SMT back end: cvc5 (python wheel) on the SMT-LIB text z3 produces for the same query."""
import time


def cvc5_check(smt2_text: str, timeout_ms: int = 20000, options=None):
    """returns 'sat' | 'unsat' | 'unknown' for an SMT-LIB2 script ending in (check-sat)."""
    try:
        import cvc5
    except ImportError:
        return "unknown"
    tm = cvc5.TermManager() if hasattr(cvc5, "TermManager") else None
    slv = cvc5.Solver(tm) if tm is not None else cvc5.Solver()
    slv.setOption("tlimit-per", str(int(timeout_ms)))
    slv.setOption("nl-ext-tplanes", "true")
    for k, v in (options or {}).items():
        slv.setOption(k, v)
    slv.setLogic("ALL")
    text = smt2_text.replace("(check-sat)", "")
    parser = cvc5.InputParser(slv)
    parser.setStringInput(cvc5.InputLanguage.SMT_LIB_2_6, text, "query")
    sm = parser.getSymbolManager()
    try:
        while True:
            cmd = parser.nextCommand()
            if cmd.isNull():
                break
            cmd.invoke(slv, sm)
        r = slv.checkSat()
    except Exception:
        return "unknown"
    if r.isUnsat():
        return "unsat"
    if r.isSat():
        return "sat"
    return "unknown"
