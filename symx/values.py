"""Symbolic values that survive rpylib's real code.

SymReal / SymInt / SymBool wrap z3 terms.  Arithmetic builds terms, a comparison returns a
SymBool, and SymBool.__bool__ / SymInt.__index__ are the only places where a path forks (they
call back into the active exploration context, see explorer.py).
"""
from __future__ import annotations

import math
import numbers
from fractions import Fraction

import z3

INF = float("inf")

_ctx = None  # active exploration context (set by explorer)


def set_context(ctx):
    global _ctx
    _ctx = ctx


def get_context():
    return _ctx


class Unsupported(BaseException):
    """An operation the encoding cannot represent was reached: the path is inconclusive."""


def is_sym(x):
    return isinstance(x, (SymReal, SymBool))


def _is_inf(x):
    return isinstance(x, float) and math.isinf(x)


def to_term(x):
    """Lift a python/numpy number exactly to a z3 Real (or Int) term."""
    if isinstance(x, SymReal):
        return x.t
    if isinstance(x, z3.ExprRef):
        return x
    if isinstance(x, SymBool):
        return z3.If(x.t, z3.RealVal(1), z3.RealVal(0))
    if isinstance(x, bool):
        return z3.RealVal(1 if x else 0)
    if isinstance(x, numbers.Integral):
        return z3.IntVal(int(x))
    if isinstance(x, Fraction):
        return z3.RealVal(x)
    if isinstance(x, numbers.Real):
        xf = float(x)
        if math.isnan(xf) or math.isinf(xf):
            raise Unsupported(f"non-finite constant {xf} in arithmetic")
        return z3.RealVal(Fraction(xf))
    raise TypeError(f"cannot lift {type(x)} to a term")


def _real(t):
    return z3.ToReal(t) if t.sort().kind() == z3.Z3_INT_SORT else t


def _both(a, b):
    """terms of a,b brought to a common sort; returns (ta, tb, is_int)."""
    ta, tb = to_term(a), to_term(b)
    ia = ta.sort().kind() == z3.Z3_INT_SORT
    ib = tb.sort().kind() == z3.Z3_INT_SORT
    if ia and ib:
        return ta, tb, True
    return _real(ta), _real(tb), False


def _wrap(t):
    t = z3.simplify(t) if _SIMPLIFY else t
    if t.sort().kind() == z3.Z3_INT_SORT:
        return SymInt(t)
    return SymReal(t)


_SIMPLIFY = True


def concrete_value(t):
    """Fraction/int if the term is a numeral, else None."""
    if z3.is_int_value(t):
        return t.as_long()
    if z3.is_rational_value(t):
        return Fraction(t.numerator_as_long(), t.denominator_as_long())
    return None


class SymBool:
    __slots__ = ("t",)

    def __init__(self, t):
        self.t = t

    def __bool__(self):
        t = z3.simplify(self.t)
        if z3.is_true(t):
            return True
        if z3.is_false(t):
            return False
        if _ctx is None:
            raise Unsupported("symbolic branch outside an exploration context")
        return _ctx.decide(t)

    def __and__(self, o):
        return SymBool(z3.And(self.t, _bterm(o)))

    __rand__ = __and__

    def __or__(self, o):
        return SymBool(z3.Or(self.t, _bterm(o)))

    __ror__ = __or__

    def __invert__(self):
        return SymBool(z3.Not(self.t))

    def __xor__(self, o):
        return SymBool(z3.Xor(self.t, _bterm(o)))

    __rxor__ = __xor__

    def __eq__(self, o):
        return SymBool(self.t == _bterm(o))

    def __ne__(self, o):
        return SymBool(self.t != _bterm(o))

    def __hash__(self):
        return hash(self.t.sexpr())

    # numeric use of a bool (sum(l != r ...), True*x)
    def _num(self):
        return SymInt(z3.If(self.t, z3.IntVal(1), z3.IntVal(0)))

    def __add__(self, o):
        return self._num() + o

    __radd__ = __add__

    def __mul__(self, o):
        return self._num() * o

    __rmul__ = __mul__

    def __int__(self):
        return 1 if bool(self) else 0

    def __index__(self):
        return 1 if bool(self) else 0

    def __repr__(self):
        return f"SymBool({self.t})"

    def __deepcopy__(self, memo):
        return self

    def __copy__(self):
        return self


def _bterm(o):
    if isinstance(o, SymBool):
        return o.t
    if isinstance(o, (bool,)) or type(o).__name__ == "bool_" or type(o).__name__ == "bool":
        return z3.BoolVal(bool(o))
    if isinstance(o, SymReal):
        return o.t != 0
    return z3.BoolVal(bool(o))


def sym_and(*xs):
    return SymBool(z3.And(*[_bterm(x) for x in xs]))


def sym_or(*xs):
    return SymBool(z3.Or(*[_bterm(x) for x in xs]))


def sym_not(x):
    return SymBool(z3.Not(_bterm(x)))


class SymReal:
    """A real-valued term.  No __array_priority__/__array__: numpy must treat it as a scalar object."""

    __slots__ = ("t",)

    def __init__(self, t):
        self.t = t

    # ---- helpers
    def _sign_vs_zero(self):
        """-1/0/1 (forking if undetermined)"""
        if self > 0:
            return 1
        if self < 0:
            return -1
        return 0

    # ---- arithmetic
    def __add__(self, o):
        if _is_inf(o):
            return o
        if isinstance(o, SymBool):
            o = o._num()
        if not _arith_ok(o):
            return NotImplemented
        a, b, _ = _both(self, o)
        return _wrap(a + b)

    __radd__ = __add__

    def __sub__(self, o):
        if _is_inf(o):
            return -o
        if isinstance(o, SymBool):
            o = o._num()
        if not _arith_ok(o):
            return NotImplemented
        a, b, _ = _both(self, o)
        return _wrap(a - b)

    def __rsub__(self, o):
        if _is_inf(o):
            return o
        if not _arith_ok(o):
            return NotImplemented
        a, b, _ = _both(o, self)
        return _wrap(a - b)

    def __mul__(self, o):
        if _is_inf(o):
            s = self._sign_vs_zero()
            if s == 0:
                raise Unsupported("0 * inf")
            return o if s > 0 else -o
        if isinstance(o, SymBool):
            o = o._num()
        if not _arith_ok(o):
            return NotImplemented
        a, b, _ = _both(self, o)
        return _wrap(a * b)

    __rmul__ = __mul__

    def __truediv__(self, o):
        if _is_inf(o):
            return 0.0
        if not _arith_ok(o):
            return NotImplemented
        a, b = _real(to_term(self)), _real(to_term(o))
        _nonzero(b)
        return _wrap(a / b)

    def __rtruediv__(self, o):
        if _is_inf(o):
            s = self._sign_vs_zero()
            if s == 0:
                raise ZeroDivisionError("inf / 0")
            return o if s > 0 else -o
        if not _arith_ok(o):
            return NotImplemented
        a, b = _real(to_term(o)), _real(to_term(self))
        _nonzero(b)
        return _wrap(a / b)

    def __floordiv__(self, o):
        a, b, isint = _both(self, o)
        _nonzero(b)
        if isint:
            return _wrap(_py_floordiv(a, b))
        return _wrap(z3.ToInt(a / b))

    def __rfloordiv__(self, o):
        return _lift(o).__floordiv__(self)

    def __mod__(self, o):
        a, b, isint = _both(self, o)
        _nonzero(b)
        if isint:
            res = _wrap(a - b * _py_floordiv(a, b))
            if isinstance(o, int) and 2 <= o <= getattr(_ctx, "fork_small_mod", 0) and isinstance(res, SymInt) \
                    and concrete_value(res.t) is None:
                # residue modulo a small constant: fork (keeps q*(2r-1)-style products linear); stay symbolic if the
                # solver cannot enumerate the residues quickly
                v = _ctx.decide_int(res.t, soft=True)
                return res if v is None else v
            return res
        return _wrap(a - b * z3.ToReal(z3.ToInt(a / b)))

    def __rmod__(self, o):
        return _lift(o).__mod__(self)

    def __divmod__(self, o):
        return self // o, self % o

    def __rdivmod__(self, o):
        o = _lift(o)
        return o // self, o % self

    def __neg__(self):
        return _wrap(-self.t)

    def __pos__(self):
        return self

    def __abs__(self):
        t = self.t
        return _wrap(z3.If(t >= 0, t, -t))

    def __pow__(self, o, mod=None):
        if isinstance(o, SymReal):
            c = concrete_value(z3.simplify(o.t))
            if c is not None:
                o = c
        if isinstance(o, (int, Fraction)) or (isinstance(o, float) and float(o).is_integer()):
            if isinstance(o, Fraction) and o.denominator != 1:
                from .special import sym_pow

                return sym_pow(self, o)
            n = int(o)
            if n == 0:
                return _wrap(z3.RealVal(1)) if not isinstance(self, SymInt) else _wrap(z3.IntVal(1))
            if n > 0:
                if n >= 2 and isinstance(self, SymInt) and _ctx is not None and getattr(_ctx, "fork_pow_base", False) \
                        and concrete_value(z3.simplify(self.t)) is None:
                    return _ctx.decide_int(self.t) ** n  # concretise the base (bounded small range): keeps the path linear
                t = self.t
                r = t
                for _ in range(n - 1):
                    r = r * t
                return _wrap(r)
            return 1 / (self ** (-n))
        if isinstance(o, float) and o == 0.5:
            return self.sqrt()
        if isinstance(o, float) and o == -0.5:
            return 1 / self.sqrt()
        if isinstance(o, float) and float(2 * o).is_integer() and abs(o) <= 8:
            return self.sqrt() ** int(2 * o)  # half-integer exponents: powers of the square root
        if isinstance(o, float) and 0 < o < 0.5 and abs(1 / o - round(1 / o)) < 1e-9:
            from .special import sym_root

            return sym_root(self, int(round(1 / o)))
        from .special import sym_pow

        return sym_pow(self, o)

    def __rpow__(self, o):
        from .special import sym_pow

        c = concrete_value(z3.simplify(self.t))
        if c is not None and Fraction(c).denominator == 1:
            return _lift(o) ** int(c) if is_sym(o) else o ** int(c)
        if isinstance(self, SymInt) and not is_sym(o):
            return o ** self.__index__()  # fork over the feasible exponents (small stated ranges)
        return sym_pow(o, self)

    # ---- comparisons
    def _cmp(self, o, op):
        if _is_inf(o):
            pos = o > 0
            return {"<": pos, "<=": pos, ">": not pos, ">=": not pos, "==": False, "!=": True}[op]
        if isinstance(o, SymBool):
            o = o._num()
        if o is None or isinstance(o, (str, tuple, list)):
            return NotImplemented
        if not _arith_ok(o):
            return NotImplemented
        a, b, _ = _both(self, o)
        if op == "<":
            return SymBool(a < b)
        if op == "<=":
            return SymBool(a <= b)
        if op == ">":
            return SymBool(a > b)
        if op == ">=":
            return SymBool(a >= b)
        if op == "==":
            return SymBool(a == b)
        return SymBool(a != b)

    def __lt__(self, o):
        return self._cmp(o, "<")

    def __le__(self, o):
        return self._cmp(o, "<=")

    def __gt__(self, o):
        return self._cmp(o, ">")

    def __ge__(self, o):
        return self._cmp(o, ">=")

    def __eq__(self, o):
        r = self._cmp(o, "==")
        return False if r is NotImplemented else r

    def __ne__(self, o):
        r = self._cmp(o, "!=")
        return True if r is NotImplemented else r

    def __hash__(self):
        # hash of the full term text: two structurally different terms must not collide, otherwise dict / lru_cache lookups
        # would call the symbolic __eq__ on them and fork (z3's own 32-bit ast hash collides, e.g. on h/2 and -h/2)
        return hash(self.t.sexpr())

    def __bool__(self):
        return bool(self != 0)

    # ---- conversions
    def __float__(self):
        c = concrete_value(z3.simplify(self.t))
        if c is not None:
            return float(c)
        raise TypeError("float() of a symbolic real (unsupported concretisation)")

    def __round__(self, n=None):
        raise Unsupported("round() of a symbolic real")

    def __floor__(self):
        return _wrap(z3.ToInt(_real(self.t)))

    def __ceil__(self):
        t = _real(self.t)
        return _wrap(-z3.ToInt(-t))

    def __trunc__(self):
        t = _real(self.t)
        return _wrap(z3.If(t >= 0, z3.ToInt(t), -z3.ToInt(-t)))

    def __int__(self):
        # python int() keeps the object if it is returned by __trunc__? no: must be int -> fork
        return self.__trunc__().__index__()

    def conjugate(self):
        return self

    @property
    def size(self):
        return 1  # numpy scalars have size 1 (rpylib reads jp.size on array elements)

    @property
    def real(self):
        return self

    @property
    def imag(self):
        return 0

    # numpy ufunc method dispatch on object arrays
    def sqrt(self):
        from .special import sym_sqrt

        return sym_sqrt(self)

    def exp(self):
        from .special import sym_exp

        return sym_exp(self)

    def log(self):
        from .special import sym_log

        return sym_log(self)

    def log1p(self):
        from .special import sym_log

        return sym_log(1 + self)

    def expm1(self):
        from .special import sym_exp

        return sym_exp(self) - 1

    def floor(self):
        return self.__floor__()

    def ceil(self):
        return self.__ceil__()

    def sign(self):
        t = self.t
        one, zero = (z3.IntVal(1), z3.IntVal(0)) if isinstance(self, SymInt) else (z3.RealVal(1), z3.RealVal(0))
        return _wrap(z3.If(t > 0, one, z3.If(t < 0, -one, zero)))

    def is_integer(self):
        return isinstance(self, SymInt)

    def __repr__(self):
        return f"Sym({self.t})"

    def __format__(self, spec):
        return f"Sym({self.t})"

    def __deepcopy__(self, memo):
        return self

    def __copy__(self):
        return self

    def __reduce__(self):
        raise TypeError("symbolic values are not picklable")


class SymInt(SymReal):
    __slots__ = ()

    def __index__(self):
        c = concrete_value(z3.simplify(self.t))
        if c is not None:
            return int(c)
        if _ctx is None:
            raise Unsupported("symbolic index outside an exploration context")
        try:
            return _ctx.decide_int(self.t)
        except BaseException as e:  # numpy swallows exceptions raised inside __index__: remember the real one
            _ctx.inner_exc = e
            raise

    def __int__(self):
        return self.__index__()

    def __float__(self):
        c = concrete_value(z3.simplify(self.t))
        if c is not None:
            return float(c)
        raise TypeError("float() of a symbolic int")

    def __floor__(self):
        return self

    def __ceil__(self):
        return self

    def __trunc__(self):
        return self

    def __and__(self, o):
        raise Unsupported("bitwise and on symbolic int")

    def __lshift__(self, o):
        return self * (2 ** int(o))

    def __rshift__(self, o):
        return self // (2 ** int(o))


class SymUInt(SymInt):
    """a numpy unsigned 64-bit scalar with a symbolic value (np.uint(x)).  Only the promotion rule that matters for rpylib is
    modelled: since numpy 2 (NEP 50) a python integer operand must itself be representable in uint64, so `(-5) + np.uint64(k)`
    raises OverflowError whatever k is.  Results of arithmetic are plain integer terms (wrap-around of the result is not modelled)."""

    __slots__ = ()

    @staticmethod
    def _guard(o):
        if type(o) is int and not (0 <= o < 2**64):
            raise OverflowError(f"Python integer {o} out of bounds for uint64")

    def __add__(self, o):
        self._guard(o)
        return SymInt.__add__(self, o)

    def __radd__(self, o):
        self._guard(o)
        return SymInt.__radd__(self, o)

    def __sub__(self, o):
        self._guard(o)
        return SymInt.__sub__(self, o)

    def __rsub__(self, o):
        self._guard(o)
        return SymInt.__rsub__(self, o)

    def __mul__(self, o):
        self._guard(o)
        return SymInt.__mul__(self, o)

    def __rmul__(self, o):
        self._guard(o)
        return SymInt.__rmul__(self, o)


numbers.Real.register(SymReal)
numbers.Integral.register(SymInt)


def _py_floordiv(a, b):
    """python floor division on Int terms (z3 div is Euclidean: 0 <= remainder < |b|)."""
    return z3.If(b > 0, a / b, z3.If(a % b == 0, a / b, a / b - 1))


def _arith_ok(o):
    if isinstance(o, (SymReal, SymBool, Fraction)):
        return True
    if isinstance(o, numbers.Real):
        return True
    return False


def _lift(o):
    if isinstance(o, SymReal):
        return o
    return _wrap(to_term(o))


def _nonzero(b):
    """Division: the divisor must be provably non-zero on this path, else fork on it."""
    bs = z3.simplify(b)
    c = concrete_value(bs)
    if c is not None:
        if c == 0:
            raise ZeroDivisionError("division by zero")
        return
    if _ctx is None:
        return
    if _ctx.decide(bs == 0):
        raise ZeroDivisionError("symbolic division by zero (feasible on this path)")


def real_val(x):
    return _wrap(_real(to_term(x)))


def ite(c, a, b):
    """symbolic if-then-else without forking"""
    if isinstance(c, bool) or type(c).__name__ == "bool_":
        return a if c else b
    ta, tb, _ = _both(a, b)
    return _wrap(z3.If(_bterm(c), ta, tb))


def smax(a, b):
    return ite(a >= b, a, b) if (is_sym(a) or is_sym(b)) else max(a, b)


def smin(a, b):
    return ite(a <= b, a, b) if (is_sym(a) or is_sym(b)) else min(a, b)


def term_of(x):
    """z3 Real term of a python/sym value (for oracle formulas)."""
    return _real(to_term(x))


# --------------------------------------------------------------------------------------
# minimal complex numbers over symbolic reals (characteristic exponents at -i, C10 / C20)


class SymComplex:
    __slots__ = ("re", "im")

    def __init__(self, re, im=0.0):
        self.re, self.im = re, im

    @staticmethod
    def lift(x):
        if isinstance(x, SymComplex):
            return x
        if isinstance(x, complex):
            return SymComplex(x.real, x.imag)
        return SymComplex(x, 0.0)

    @property
    def real(self):
        return self.re

    @property
    def imag(self):
        return self.im

    def conjugate(self):
        return SymComplex(self.re, -self.im)

    def __add__(self, o):
        o = SymComplex.lift(o)
        return SymComplex(self.re + o.re, self.im + o.im)

    __radd__ = __add__

    def __neg__(self):
        return SymComplex(-self.re, -self.im)

    def __sub__(self, o):
        o = SymComplex.lift(o)
        return SymComplex(self.re - o.re, self.im - o.im)

    def __rsub__(self, o):
        return SymComplex.lift(o) - self

    def _im0(self):
        return (not is_sym(self.im)) and self.im == 0

    def __mul__(self, o):
        o = SymComplex.lift(o)
        if self._im0() and o._im0():
            return SymComplex(self.re * o.re, 0.0)
        return SymComplex(self.re * o.re - self.im * o.im, self.re * o.im + self.im * o.re)

    __rmul__ = __mul__

    def __truediv__(self, o):
        o = SymComplex.lift(o)
        if self._im0() and o._im0():
            return SymComplex(self.re / o.re, 0.0)
        den = o.re * o.re + o.im * o.im
        return SymComplex((self.re * o.re + self.im * o.im) / den, (self.im * o.re - self.re * o.im) / den)

    def __rtruediv__(self, o):
        return SymComplex.lift(o) / self

    def __pow__(self, n):
        if isinstance(n, int) and n >= 0:
            r = SymComplex(1.0, 0.0)
            for _ in range(n):
                r = r * self
            return r
        if isinstance(n, int):
            return 1 / (self ** (-n))
        if self.is_real():
            from .special import sym_pow

            return SymComplex(sym_pow(self.re, n) if (is_sym(self.re) or is_sym(n)) else self.re**n, 0.0)
        raise Unsupported("complex power with a non-integer exponent")

    def is_real(self):
        """im == 0 syntactically or as a python zero"""
        if is_sym(self.im):
            c = concrete_value(z3.simplify(self.im.t))
            return c is not None and c == 0
        return self.im == 0

    def exp(self):
        """exp(re + i im): supported when im is (syntactically) zero"""
        from .special import sym_exp

        if not self.is_real():
            raise Unsupported("exp of a complex number with a symbolic imaginary part")
        return SymComplex(sym_exp(self.re) if is_sym(self.re) else math.exp(self.re), 0.0)

    def log(self):
        from .special import sym_log

        if not self.is_real():
            raise Unsupported("log of a complex number with a non-zero imaginary part")
        return SymComplex(sym_log(self.re) if is_sym(self.re) else math.log(self.re), 0.0)

    def __repr__(self):
        return f"SymComplex({self.re}, {self.im})"

    def __deepcopy__(self, memo):
        return self


def _complex_hook(op):
    def f(self, o):
        if isinstance(o, (complex, SymComplex)):
            return getattr(SymComplex(self, 0.0), op)(o)
        return NotImplemented

    return f


_orig = {n: getattr(SymReal, n) for n in ("__add__", "__radd__", "__sub__", "__rsub__", "__mul__", "__rmul__", "__truediv__", "__rtruediv__")}


def _wrap_complex(name):
    orig = _orig[name]

    def f(self, o):
        if isinstance(o, (complex, SymComplex)):
            return getattr(SymComplex(self, 0.0), name)(o)
        return orig(self, o)

    return f


for _n in _orig:
    setattr(SymReal, _n, _wrap_complex(_n))
