"""Abstract inputs: "every Lévy measure" and "every Lévy copula" as uninterpreted functions.

AbsMeasure is a LevyMeasure whose integrals of x^k over an interval are differences of cumulative UFs
  L_k(x) = int_{-inf}^{x} y^k nu(dy) (x <= 0),   T_k(x) = int_{x}^{+inf} y^k nu(dy) (x >= 0),
so additivity over adjacent intervals is structural.  Positivity / monotonicity / mean-value links are instantiated on the
points that occur (Context.axiom_generators).  AbsCopula is a LevyCopula F given by one UF per pattern of infinite arguments.
"""
from __future__ import annotations

import math
from fractions import Fraction
from itertools import combinations, product

import numpy as np
import z3

from . import values as V
from .values import SymReal, SymBool, Unsupported, concrete_value, term_of, is_sym

R = z3.RealSort()


class InfiniteIntegral(Exception):
    """the requested integral is infinite for this flavour of measure (e.g. mass of an interval containing 0, infinite activity)"""


def _is_pinf(x):
    return isinstance(x, float) and x == math.inf


def _is_ninf(x):
    return isinstance(x, float) and x == -math.inf


def _import_base():
    from rpylib.model.levymodel.levymodel import LevyMeasure
    from rpylib.distribution.levycopula import LevyCopula

    return LevyMeasure, LevyCopula


class AbsMeasureBase:
    """mixin with the implementation; the concrete class is created lazily so that rpylib is imported by the check first"""

    def _init(self, ctx, name, finite_activity=False, finite_variation=True, bg_index=None, max_k=2, mean_value_links=False):
        self.ctx = ctx
        self.name = name
        self.finite_activity = finite_activity
        self.finite_variation = finite_variation or finite_activity
        self.bg_index = bg_index
        self.mean_value_links = mean_value_links  # x*M_k <= M_{k+1} <= y*M_k: non-linear, only for obligations that need them
        self.L = {k: z3.Function(f"{name}_L{k}", R, R) for k in range(max_k + 1)}
        self.T = {k: z3.Function(f"{name}_T{k}", R, R) for k in range(max_k + 1)}
        self.dens = z3.Function(f"{name}_density", R, R)
        self.pts_neg = []  # terms (<= 0) at which L_k was evaluated
        self.pts_pos = []
        self._seen = set()
        self._emitted = 0
        ctx.axiom_generators.append(self._axioms)
        self.calls = []

    # ---- LevyMeasure interface
    def __call__(self, x):
        t = term_of(x)
        d = self.dens(t)
        self.ctx.axiom(d >= 0)
        return SymReal(d)

    def jump_of_finite_activity(self):
        return self.finite_activity

    def jump_of_finite_variation(self):
        return self.finite_variation

    def finite_first_moment(self):
        return True

    def blumenthal_getoor_index(self):
        if self.bg_index is not None:
            return self.bg_index
        return 0.0 if self.finite_activity else (0.5 if self.finite_variation else 1.5)

    def _Lk(self, k, x):
        """int_{-inf}^{x} y^k nu(dy) for x <= 0 (x may be -inf or 0)"""
        if _is_ninf(x):
            return z3.RealVal(0)
        t = z3.simplify(term_of(x))
        self._point(t, neg=True)
        return self.L[k](t)

    def _Tk(self, k, x):
        if _is_pinf(x):
            return z3.RealVal(0)
        t = z3.simplify(term_of(x))
        self._point(t, neg=False)
        return self.T[k](t)

    def _point(self, t, neg):
        key = (neg, t.hash(), str(t))
        if key in self._seen:
            return
        self._seen.add(key)
        (self.pts_neg if neg else self.pts_pos).append(t)

    def _check_order(self, a, b):
        if _is_ninf(a) or _is_pinf(b):
            return
        if _is_pinf(a) or _is_ninf(b):
            if a == b:
                return
            raise ValueError("Expected a<b when integrating the levy measure")
        if a > b:
            raise ValueError("Expected a<b when integrating the levy measure")

    def _zero_ok(self, k):
        return (k == 0 and self.finite_activity) or (k == 1 and self.finite_variation) or k >= 2

    def _integral(self, a, b, k):
        self.calls.append((k, a, b))
        self._check_order(a, b)
        if (_is_pinf(a) and _is_pinf(b)) or (_is_ninf(a) and _is_ninf(b)):
            return 0.0
        # position of the end points w.r.t. 0 (forks when undetermined)
        a_neg = True if _is_ninf(a) else bool(a < 0)
        b_pos = True if _is_pinf(b) else bool(b > 0)
        if a_neg and not b_pos:  # [a, b] with b <= 0
            b_zero = (not _is_ninf(b)) and bool(b == 0)
            if b_zero and not self._zero_ok(k):
                raise InfiniteIntegral(f"int x^{k} nu over an interval ending at 0")
            return SymReal(z3.simplify(self._Lk(k, b) - self._Lk(k, a)))
        if b_pos and not a_neg:  # [a, b] with a >= 0
            a_zero = (not _is_pinf(a)) and bool(a == 0)
            if a_zero and not self._zero_ok(k):
                raise InfiniteIntegral(f"int x^{k} nu over an interval starting at 0")
            return SymReal(z3.simplify(self._Tk(k, a) - self._Tk(k, b)))
        if a_neg and b_pos:  # straddles 0
            if not self._zero_ok(k):
                raise InfiniteIntegral(f"int x^{k} nu over an interval containing 0")
            return SymReal(z3.simplify(self._Lk(k, 0.0) - self._Lk(k, a) + self._Tk(k, 0.0) - self._Tk(k, b)))
        # a >= 0 and b <= 0 with a <= b: a == b == 0
        return 0.0

    def integrate(self, a, b):
        return self._integral(a, b, 0)

    def integrate_against_x(self, a, b):
        return self._integral(a, b, 1)

    def integrate_against_xx(self, a, b):
        return self._integral(a, b, 2)

    def integrate_against_xn(self, a, b, n):
        if n not in self.L:
            raise Unsupported(f"abstract measure has no moment of order {n}")
        return self._integral(a, b, n)

    # ---- oracle helpers (harness side, no forks): mass of [a,b] on one side of zero as a term
    def term(self, k, a, b):
        """integral of x^k over [a,b], a<=b on the same side of 0 (harness guarantees it), as a z3 term"""
        if (_is_ninf(a) or (not _is_pinf(a) and self._side(a) < 0)):
            return self._Lk(k, b) - self._Lk(k, a)
        return self._Tk(k, a) - self._Tk(k, b)

    def _side(self, x):
        c = concrete_value(z3.simplify(term_of(x)))
        if c is None:
            raise Unsupported("oracle side of a symbolic point must be given")
        return -1 if c < 0 else 1

    def neg_term(self, k, a, b):
        return self._Lk(k, b) - self._Lk(k, a)

    def pos_term(self, k, a, b):
        return self._Tk(k, a) - self._Tk(k, b)

    # ---- axioms on occurring points
    def _axioms(self):
        """axioms for the points that appeared since the last call (incremental)"""
        out = []
        ks = sorted(self.L)
        done = self.ctx.gen_state.setdefault(id(self), [0, 0])
        for idx, (pts, F, neg) in enumerate(((self.pts_neg, self.L, True), (self.pts_pos, self.T, False))):
            n0 = done[idx] if not __import__("os").environ.get("SYMX_FULLGEN") else 0
            for t in pts[n0:]:
                for k in ks:
                    v = F[k](t)
                    if k % 2 == 0:
                        out.append(v >= 0)
                    else:
                        out.append(v <= 0 if neg else v >= 0)
            for j in range(n0, len(pts)):
                t = pts[j]
                for s in pts[:j]:
                    for k in ks:
                        for lo, hi in ((s, t), (t, s)):
                            cond = lo < hi
                            mk = (F[k](hi) - F[k](lo)) if neg else (F[k](lo) - F[k](hi))
                            if k % 2 == 0:
                                out.append(z3.Implies(cond, mk >= 0))
                            else:
                                out.append(z3.Implies(cond, mk <= 0 if neg else mk >= 0))
                            out.append(z3.Implies(lo == hi, F[k](lo) == F[k](hi)))
                            if k + 1 in F and self.mean_value_links:
                                mk1 = (F[k + 1](hi) - F[k + 1](lo)) if neg else (F[k + 1](lo) - F[k + 1](hi))
                                # lo * M_k <= M_{k+1} <= hi * M_k  when x^k >= 0 on the interval, reversed otherwise
                                if k % 2 == 0 or not neg:
                                    out.append(z3.Implies(cond, z3.And(lo * mk <= mk1, mk1 <= hi * mk)))
                                else:
                                    out.append(z3.Implies(cond, z3.And(lo * mk >= mk1, mk1 >= hi * mk)))
            done[idx] = len(pts)
        return out


_CLASSES = {}


def AbsMeasure(ctx, name, **kw):
    LevyMeasure, _ = _import_base()
    if "m" not in _CLASSES:
        _CLASSES["m"] = type("AbsMeasure", (AbsMeasureBase, LevyMeasure), {"__deepcopy__": lambda self, memo: self})
    obj = _CLASSES["m"]()
    obj._init(ctx, name, **kw)
    return obj


class AbsCopulaBase:
    """F on (-inf, inf]^d: one UF per pattern of infinite arguments ('f' finite, 'p' +inf, 'n' -inf); 0 when an argument is 0."""

    def _init(self, ctx, name, dimension):
        self.ctx = ctx
        self.name = name
        self.d = dimension
        self.F = {}
        self.apps = []  # (pattern, [terms]) of applications
        self._seen = set()

    def _uf(self, pattern):
        if pattern not in self.F:
            nf = pattern.count("f")
            self.F[pattern] = z3.Function(f"{self.name}_{pattern}", *([R] * nf), R) if nf else z3.Real(f"{self.name}_{pattern}")
        return self.F[pattern]

    def apply_terms(self, args):
        """args: list of z3 terms or +-inf floats; returns a z3 term (grounded: 0 if a finite argument is 0)"""
        pattern = ""
        fin = []
        for a in args:
            if _is_pinf(a):
                pattern += "p"
            elif _is_ninf(a):
                pattern += "n"
            else:
                pattern += "f"
                fin.append(a if z3.is_expr(a) else z3.simplify(term_of(a)))
        f = self._uf(pattern)
        val = f(*fin) if fin else f
        key = (pattern, tuple(t.hash() for t in fin), tuple(str(t) for t in fin))
        if key not in self._seen:
            self._seen.add(key)
            self.apps.append((pattern, fin))
        # grounded: F vanishes when an argument is 0.  Concretely-zero arguments are resolved here; for symbolic arguments the fact
        # is an axiom on the application (keeps masses If-free, so polynomial identities between masses simplify syntactically)
        for t in fin:
            c = concrete_value(z3.simplify(t))
            if c is not None and c == 0:
                return z3.RealVal(0)
        if fin:
            self.ctx.axiom_once(("grounded", self.name) + key, z3.Implies(z3.Or(*[t == 0 for t in fin]), val == 0))
        return val

    def __call__(self, us):
        us = list(us)
        if len(us) != self.d:
            raise ValueError(f"copula of dimension {self.d} called with {len(us)} arguments")
        args = []
        for u in us:
            if isinstance(u, (float, np.floating)) and math.isinf(u):
                args.append(float(u))
            elif is_sym(u):
                args.append(z3.simplify(term_of(u)))
            else:
                if u == 0:
                    return 0.0
                args.append(z3.simplify(term_of(u)))
        return SymReal(z3.simplify(self.apply_terms(args)))

    def __repr__(self):
        return f"AbsCopula({self.name}, d={self.d})"

    # ---- axioms (instantiated by the harness on the rectangles / points it needs)
    def volume_term(self, lo, hi):
        """F-volume of the rectangle (lo, hi] (lists of terms or +-inf)"""
        n = len(lo)
        tot = z3.RealVal(0)
        for p in product([0, 1], repeat=n):
            u = [lo[i] if pi == 0 else hi[i] for i, pi in enumerate(p)]
            sgn = -1 if (n - sum(p)) % 2 else 1
            tot = tot + sgn * self.apply_terms(u)
        return tot

    def axiom_increasing(self, lo, hi):
        """d-increasing on one rectangle: lo_i <= hi_i for all i  =>  V_F((lo,hi]) >= 0"""
        conds = []
        for l, h in zip(lo, hi):
            if _is_ninf(l) or _is_pinf(h):
                continue
            if _is_pinf(l) or _is_ninf(h):
                return
            conds.append(term_of(l) <= term_of(h))
        v = self.volume_term([l if isinstance(l, float) else term_of(l) for l in lo], [h if isinstance(h, float) else term_of(h) for h in hi])
        self.ctx.axiom(z3.Implies(z3.And(*conds) if conds else z3.BoolVal(True), v >= 0))

    def axiom_margin(self, i, u):
        """one-dimensional margin: sum over the other coordinates at +-inf (signed) of F = u"""
        u = term_of(u)
        others = [k for k in range(self.d) if k != i]
        tot = z3.RealVal(0)
        for p in product([-math.inf, math.inf], repeat=len(others)):
            args = [None] * self.d
            args[i] = u
            sgn = 1
            for k, v in zip(others, p):
                args[k] = v
                if v < 0:
                    sgn = -sgn
            tot = tot + sgn * self.apply_terms(args)
        self.ctx.axiom(tot == u)


def AbsCopula(ctx, name, dimension):
    _, LevyCopula = _import_base()
    if "c" not in _CLASSES:
        _CLASSES["c"] = type("AbsCopula", (AbsCopulaBase, LevyCopula), {"__deepcopy__": lambda self, memo: self})
    obj = _CLASSES["c"]()
    obj._init(ctx, name, dimension)
    return obj


def abs_levy_model(ctx, name, sigma=0.0, a=0.0, representation=None, **measure_kw):
    """a real rpylib LevyModel whose Lévy measure is abstract"""
    from rpylib.model.levymodel.levymodel import LevyModel, LevyTriplet, LevyRepresentation
    from rpylib.model.model import ModelType

    if "lm" not in _CLASSES:
        class AbsLevyModel(LevyModel):
            def __repr__(self):
                nu = self.levy_triplet.nu
                inner = getattr(nu, "levy_measure", nu)  # a truncated copy wraps the measure; like the library's models, the repr does not show it
                return f"AbsLevyModel({getattr(inner, 'name', type(inner).__name__)})"

            def levy_exponent_pure_jump(self, x):
                raise Unsupported("abstract model has no closed-form exponent")

            def intensity(self):
                """the model's own jump arrival rate (total mass of a finite-activity measure): an arbitrary positive number, unrelated to
                the mass a grid keeps"""
                from . import values as _V

                c = _V.get_context()
                if "model_intensity" not in c.symbols:
                    lam = c.real("model_intensity")
                    c.assume(lam > 0)
                    self._lam = lam
                return self._lam

        _CLASSES["lm"] = AbsLevyModel
    nu = AbsMeasure(ctx, name, **measure_kw)
    trip = LevyTriplet(sigma=sigma, nu=nu, a=a, representation=representation or LevyRepresentation.ONEONE)
    return _CLASSES["lm"](model_type=ModelType.HEM, levy_triplet=trip, cumulant=None)
