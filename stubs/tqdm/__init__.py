"""Import-only stand-in for tqdm (absent from /venv): identity iterator."""


def tqdm(iterable=None, *args, **kwargs):
    return iterable


def trange(*args, **kwargs):
    return range(*args)
