"""Import-only stand-in for gmpy2 (absent from /venv): exact rational division."""
from fractions import Fraction


def qdiv(a, b=1):
    return Fraction(a) / Fraction(b)


def mpz(x):
    return int(x)


def mpq(a, b=1):
    return Fraction(a, b)
