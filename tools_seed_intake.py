"""Confirm seeded changes delivered by the sub-agents (in their scratch worktrees) and keep the confirmed ones under /verif/seeded/.
For each /tmp/wt_*/SEED/<name>/ {patch.diff, demo.py}: demo passes on the clean worktree, patch applies, demo fails with it, the
existing suite still gives 37 passed; then copy patch.diff, demo.py, notes.md and write meta.json.
usage: .venv/bin/python tools_seed_intake.py [/tmp/wt_C03 ...]
"""
import glob
import json
import os
import re
import shutil
import subprocess
import sys

HERE = os.path.dirname(os.path.abspath(__file__))
ENV = dict(os.environ, PYTHONDONTWRITEBYTECODE="1", PYTHONPATH="/tmp/pystubs", SYMPY_GROUND_TYPES="python", MPLBACKEND="Agg")


def run(cmd, cwd, timeout=1200):
    return subprocess.run(cmd, shell=True, cwd=cwd, capture_output=True, text=True, env=ENV, timeout=timeout)


def main():
    wts = sys.argv[1:] or sorted(glob.glob("/tmp/wt_*"))
    for wt in wts:
        for d in sorted(glob.glob(os.path.join(wt, "SEED", "*"))):
            name = os.path.basename(d)
            patch, demo = os.path.join(d, "patch.diff"), os.path.join(d, "demo.py")
            if not (os.path.isfile(patch) and os.path.isfile(demo)):
                continue
            dest = os.path.join(HERE, "seeded", name)
            if os.path.exists(os.path.join(dest, "meta.json")):
                continue
            run("git checkout -- .", wt)
            env_cmd = f"PYTHONPATH=/tmp/pystubs:{wt} /venv/bin/python {demo}"
            clean = run(env_cmd, wt)
            ap = run(f"git apply {patch}", wt)
            if ap.returncode != 0:
                print(name, "REJECTED: patch does not apply", ap.stderr[:200])
                continue
            try:
                bad = run(env_cmd, wt)
                tests = run("env -u PYTHONPATH /venv/bin/python -m pytest -q -p no:cacheprovider --timeout=900 --continue-on-collection-errors 2>&1 | tail -1", wt)
            finally:
                run("git checkout -- .", wt)
            passed = re.search(r"(\d+) passed", tests.stdout)
            ok = clean.returncode == 0 and bad.returncode != 0 and passed and int(passed.group(1)) == 37
            print(name, "CONFIRMED" if ok else f"REJECTED (clean exit {clean.returncode}, patched exit {bad.returncode}, tests '{tests.stdout.strip()[-60:]}')")
            if not ok:
                continue
            os.makedirs(dest, exist_ok=True)
            for f in ["patch.diff", "notes.md"] + [os.path.basename(x) for x in glob.glob(os.path.join(d, "*.py"))]:
                if os.path.isfile(os.path.join(d, f)):
                    shutil.copy(os.path.join(d, f), os.path.join(dest, f))
            m = re.match(r"[cC](\d\d)", name)
            prop = f"C{m.group(1)}" if m else "C??"
            notes = open(os.path.join(d, "notes.md")).read() if os.path.isfile(os.path.join(d, "notes.md")) else ""
            meta = {"name": name, "property": prop, "source": "independent sub-agent given only the property text and a scratch worktree",
                    "needs_to_manifest": notes[:1500],
                    "confirmed": {"demo_on_clean_tree": "exit 0", "demo_with_patch": f"exit {bad.returncode}: {bad.stdout.strip()[-300:]}",
                                  "existing_suite_with_patch": tests.stdout.strip()[-80:]}}
            json.dump(meta, open(os.path.join(dest, "meta.json"), "w"), indent=1)


if __name__ == "__main__":
    main()
