#!/bin/sh
# Build the overlay venv offline: /venv's packages + z3/cvc5/crosshair from the local wheelhouse.
set -e
cd "$(dirname "$0")"
if [ ! -x .venv/bin/python ] || ! .venv/bin/python -c "import z3, numpy, scipy" 2>/dev/null; then
  rm -rf .venv
  /venv/bin/python -m venv .venv
  printf "import site; site.addsitedir('/venv/lib/python3.12/site-packages')\n" > .venv/lib/python3.12/site-packages/zz_overlay.pth
  PIP_NO_INDEX=1 .venv/bin/pip install -q --no-index --find-links /opt/veriftools/wheels z3-solver cvc5 crosshair-tool jsonschema >/dev/null 2>&1 || \
  PIP_NO_INDEX=1 .venv/bin/pip install -q --no-index --find-links /opt/veriftools/wheels z3-solver
fi
.venv/bin/python -c "import z3; print('symx venv ready, z3', z3.get_version_string())"
