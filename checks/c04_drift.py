"""C04 - drift compensation: the chain reproduces the mean of the process it replaces; variance bookkeeping.

Real LevyTriplet conversions, MarkovChainProcess.__init__/initialisation, compute_mu_h, vol_adjustment and the per-margin code of
MarkovChainLevyCopula.initialisation run on a symbolic grid and an abstract measure; the oracle is the mean per unit time of the
truncated Lévy process written from the definition of the four Lévy-Khintchine representations.
"""
import sys
from fractions import Fraction

import numpy as np

from .chain_common import *  # noqa
from .chain_common import (z3, V, shims, A, SF, GS, MC, MCLC, LCM, LM, SamplingMethod, LevyRepresentation, REPS, sym_axis, make_grid, cells,
                           cell_mass_term, concrete_models, quad_mass, StubProduct, SymReal, SymBool, AND, OR, NOT, EQ, IMPLIES, INF, Unsupported)
from .common import Harness, run_check, COMMON_ASSUMPTIONS, PathAbort

PID = "C04"


def trunc_moment(nu, k, lo, hi, l, r):
    """oracle: int_{[lo,hi] ∩ [l,r]} x^k nu(dx) as a SymReal, lo/hi may be +-inf or symbolic, written with explicit clipping (If-free:
    forks through python comparisons are avoided by using z3 If terms)"""
    def clip_lo(x, bound):  # max(x, bound)
        if isinstance(x, float) and x == -INF:
            return bound
        return V.smax(x, bound)

    def clip_hi(x, bound):
        if isinstance(x, float) and x == INF:
            return bound
        return V.smin(x, bound)

    a = clip_lo(lo, l)
    b = clip_hi(hi, r)
    # negative part [a, min(b,0)] and positive part [max(a,0), b]
    bn = V.smin(b, 0.0)
    an = V.smin(a, 0.0)
    ap = V.smax(a, 0.0)
    bp = V.smax(b, 0.0)
    neg = nu._Lk(k, bn) - nu._Lk(k, an)
    pos = nu._Tk(k, ap) - nu._Tk(k, bp)
    empty = V._bterm(a >= b) if V.is_sym(a) or V.is_sym(b) else z3.BoolVal(a >= b)
    return SymReal(z3.If(empty, z3.RealVal(0), z3.simplify(neg + pos)))


def oracle_mean(nu, a, rep, fv, l, r):
    """E[L_1] of the Lévy process with triplet (a, ., nu restricted to [l,r]) declared in representation rep"""
    if rep == "CENTER":
        return a
    if rep == "ZERO" or (rep == "TILDE" and fv):
        return a + trunc_moment(nu, 1, -INF, INF, l, r)
    # ONEONE, or TILDE with infinite variation: compensated on |x| < 1
    return a + trunc_moment(nu, 1, -INF, -1.0, l, r) + trunc_moment(nu, 1, 1.0, INF, l, r)


def replay_mean(sc):
    """on HEM / CGMY (finite and infinite variation) with the model's grid: drift + sum x_k q_k vs the mean of the truncated process"""
    from rpylib.product.payoff import PayoffDates

    details = []
    nl, nr = sc["nl"], sc["nr"]
    for name, model in concrete_models().items():
        fv = model.levy_triplet.nu.jump_of_finite_variation()
        # two scales: a grid inside [-1, 1] and one reaching beyond +-1 (the cut-off of the ONEONE / CENTER compensators)
        for h, rep_name, rep in [(hh, rn, rp) for hh in (0.1, 0.8) for rn, rp in REPS.items()]:
            axis = np.array([-h * (1.7**i) for i in range(max(nl, 2))][::-1] + [0.0] + [h * (1.6**i) for i in range(max(nr, 2))]) if h > 0.5 else \
                np.array([-h * (1.7**i) for i in range(nl)][::-1] + [0.0] + [h * (1.6**i) for i in range(nr)])
            nlh = max(nl, 2) if h > 0.5 else nl
            import copy

            m = copy.deepcopy(model)
            if rep_name == "ZERO" and not fv:
                continue
            m.levy_triplet.set_representation(rep)
            grid = GS.CTMCGrid(h=h, origin_coordinate=nlh, axes=[axis.copy()])
            proc = MC.MarkovChainProcess(m, SamplingMethod.INVERSION, grid)
            proc.initialisation(StubProduct())
            q = SF.create_q_vector(proc.model.levy_triplet.nu, grid)
            got = proc.process_drift() + float(np.dot(axis, q))
            nu = m.levy_triplet.nu
            l, r = axis[0], axis[-1]
            a = m.levy_triplet.a
            if rep_name == "CENTER":
                want = a
            elif rep_name == "ZERO" or (rep_name == "TILDE" and fv):
                want = a + quad_mass(nu, l, -1e-12, 1) + quad_mass(nu, 1e-12, r, 1)
            else:
                want = a + quad_mass(nu, l, min(-1.0, l) if l > -1 else -1.0, 1) * (1 if l < -1 else 0) + (quad_mass(nu, 1.0, r, 1) if r > 1 else 0.0)
            if abs(got - want) > 1e-6 * max(1.0, abs(want)):
                details.append(f"{name} in {rep_name}, grid [{l:.3f}, {r:.3f}]: drift + sum x_k q_k = {got!r}, mean of the truncated process = {want!r}")
    return bool(details), "; ".join(details[:3]) if details else "mean identity holds on HEM/CGMY"


def replay_untouched(sc):
    """real models: building (and initialising) a chain must leave the caller's model as it was; a second chain from the same model
    object on other truncation bounds then has the right mean"""
    details = []
    for name, model in concrete_models().items():
        trip = model.levy_triplet
        before = (trip.representation, float(trip.a), trip.nu, float(trip.nu.integrate(0.05, np.inf)))
        for axis in (np.array([-0.6, -0.1, 0.0, 0.1, 0.5]), np.array([-0.2, -0.1, 0.0, 0.1, 0.25])):
            grid = GS.CTMCGrid(h=0.1, origin_coordinate=2, axes=[axis.copy()])
            proc = MC.MarkovChainProcess(model, SamplingMethod.INVERSION, grid)
            proc.initialisation(StubProduct())
            if model.levy_triplet.representation != before[0]:
                model.levy_triplet.set_representation(before[0])
            after = (trip.representation, float(model.levy_triplet.a), model.levy_triplet.nu, float(model.levy_triplet.nu.integrate(0.05, np.inf)))
            if abs(after[1] - before[1]) > 1e-12 or abs(after[3] - before[3]) > 1e-12:
                details.append(f"{name}: after MarkovChainProcess(model, INVERSION, grid on [{axis[0]}, {axis[-1]}]) the caller's triplet is "
                               f"({after[0].name}, a={after[1]!r}, nu(0.05,inf)={after[3]!r}); it was ({before[0].name}, a={before[1]!r}, nu(0.05,inf)={before[3]!r})")
                break
    return bool(details), "; ".join(details[:2])


def replay_mean_own_cells(sc):
    """real HEM model on the real probability-step grid (its cells are cut at probability mid points): mu_h against the rate-weighted
    sum of the states, the rates being the chain's own q-vector"""
    model = concrete_models()["hem"]
    grid = GS.CTMCGridProbabilityStep(h=0.05, model=model, minimum_probability_step=0.1)
    proc = MC.MarkovChainProcess(model, SamplingMethod.INVERSION, grid)
    proc.initialisation(StubProduct())
    ax, piv = np.asarray(grid.axes[0], dtype=float), grid.origin_coordinate.value
    q = np.asarray(SF.create_q_vector(proc.model.levy_triplet.nu, grid), dtype=float)
    mu_h = float(MC.compute_mu_h(levy_measure=proc.model.levy_triplet.nu, grid=grid, axis=grid.axes[0], origin=piv))
    want = float(np.dot(ax, q))
    return abs(mu_h - want) > 1e-9 * max(1.0, abs(want)), f"HEM on CTMCGridProbabilityStep(h=0.05, minimum_probability_step=0.1): mu_h = {mu_h!r}, sum of state x rate = {want!r}"


def h_mean(ctx, nl, nr, rep, fa, fv, refine=0, own_cells=False):
    axis, h, pivot = sym_axis(ctx, nl, nr)
    grid = make_grid(h, pivot, [axis])
    if own_cells:
        # a grid that cuts its cells at its own points (as the probability-step grid does): compensator and rates use the same cells
        from .c01_rates import WeightedMiddleGrid

        grid = WeightedMiddleGrid(ctx.real("middle_weight", 0, 1, lo_strict=True, hi_strict=True), h=h, origin_coordinate=pivot, axes=[axis])
    for _ in range(refine):
        grid.refine()
    sigma = ctx.real("sigma", 0)
    a = ctx.real("a")
    mdrift = ctx.real("model_drift")
    model = A.abs_levy_model(ctx, "nu", sigma=sigma, a=a, representation=REPS[rep], finite_activity=fa, finite_variation=fv)
    model.drift = lambda t=0, x=0: mdrift  # the exponential models add (r - d + omega) here
    nu = model.levy_triplet.nu
    try:
        proc = MC.MarkovChainProcess(model, SamplingMethod.INVERSION, grid)
    except ZeroDivisionError:
        raise PathAbort()
    proc.model.drift = model.drift
    proc.initialisation(StubProduct())
    trip = model.levy_triplet
    # the caller's model must still describe the same process: measure not truncated, and the same drift once expressed in the representation it
    # was declared in (a law-preserving re-parametrisation in place would be harmless)
    same_measure = trip.nu is nu
    if same_measure and trip.representation != REPS[rep]:
        trip.set_representation(REPS[rep])
    ctx.prove("C04.building_a_chain_leaves_the_callers_model_untouched", AND(same_measure, EQ(trip.a, a)), info={"rep": rep}, replay=(replay_untouched, lambda m: {}))
    ax, piv = grid.axes[0], grid.origin_coordinate.value
    l, r = ax[0], ax[len(ax) - 1]
    q = SF.create_q_vector(proc.model.levy_triplet.nu, grid)
    mu_h_oracle = z3.RealVal(0)
    cs = cells(ax, piv)
    if own_cells:
        nn = len(ax)
        cs = {k: (ax[0] if k == 0 else grid.middle(ax[k - 1], ax[k]), ax[nn - 1] if k == nn - 1 else grid.middle(ax[k], ax[k + 1])) for k in range(nn) if k != piv}
    for k, (lo, hi) in cs.items():
        mu_h_oracle = mu_h_oracle + V.term_of(ax[k]) * cell_mass_term(nu, k, piv, lo, hi)
    info = {"nl": nl, "nr": nr, "rep": rep, "fa": fa, "fv": fv, "refine": refine, "own_cells": own_cells}
    rp = (replay_mean, lambda m: {"nl": nl, "nr": nr}) if not own_cells else (replay_mean_own_cells, lambda m: {})
    mu_h = MC.compute_mu_h(levy_measure=proc.model.levy_triplet.nu, grid=grid, axis=ax, origin=piv)
    ctx.prove("C04.mu_h_is_rate_weighted_state_sum", EQ(mu_h, SymReal(mu_h_oracle)), info=info, replay=rp)
    chain_mean = proc.process_drift() + SymReal(mu_h_oracle)
    want = mdrift + oracle_mean(nu, a, rep, fv, l, r)
    ctx.prove("C04.chain_mean_equals_truncated_process_mean", EQ(chain_mean, want), info=info, replay=rp)
    # variance bookkeeping
    s2 = proc.equivalent_diffusion_coefficient * proc.equivalent_diffusion_coefficient
    if fv:
        ctx.prove("C04.no_variance_added_for_finite_variation", EQ(s2, sigma * sigma), info=info)
    else:
        small = trunc_moment(nu, 2, V.smax(-h / 2 if refine == 0 else -grid.h / 2, -1.0), V.smin(grid.h / 2, 1.0), l, r)
        ctx.prove("C04.small_jump_variance_added_for_infinite_variation", EQ(s2, sigma * sigma + small), info=info)


class _ScipyStubMCLC:
    """the small-jump covariance of an infinite-variation copula chain (scipy.integrate.nquad over the central cell, scipy.linalg.sqrtm)
    does not enter the drift: arbitrary values"""

    class integrate:
        @staticmethod
        def nquad(func, ranges, opts=None, **kw):
            c = V.get_context()
            return (c.real("small_jump_second_moment", 0), 0.0)

    class linalg:
        @staticmethod
        def sqrtm(mat):
            return mat


class _SerialMp:
    """pathos pool used for the small-jump covariance entries: run in-process"""

    class Pool:
        def __init__(self, *a, **kw):
            pass

        def __enter__(self):
            return self

        def __exit__(self, *a):
            return False

        def apply_async(self, fn, args=(), kwds=None):
            val = fn(*args, **(kwds or {}))

            class _R:
                def get(self_inner):
                    return val

            return _R()


def replay_copula_margins(sc):
    """real copula chain with margins of mixed variation (HEM: finite, CGMY y=1.3: infinite): the mean per unit time of every margin of the
    chain = a_i + mean of the truncated margin in the margin's own representation"""
    import rpylib.model.levymodel.mixed.hem as HEM
    import rpylib.model.levymodel.purejump.cgmy as CGMY
    from rpylib.distribution.levycopula import ClaytonCopula

    ms = [HEM.HEMModel(HEM.HEMParameters(sigma=0.1, p=0.4, eta1=20.0, eta2=25.0, intensity=3.0)), CGMY.CGMYModel(CGMY.CGMYParameters(c=0.1, g=5.0, m=6.0, y=1.3))]
    lcm = LCM.LevyCopulaModel(models=ms, copula=ClaytonCopula(theta=0.7, eta=0.3))
    out = []
    for h, axis0, axis1 in ((0.2, np.array([-2.0, -1.0, -0.2, 0.0, 0.2, 1.0, 2.0]), None), (0.1, np.array([-0.5, -0.3, -0.1, 0.0, 0.1, 0.25, 0.4]), None),
                            (0.1, np.array([-0.5, -0.3, -0.1, 0.0, 0.1, 0.25, 0.4]), np.array([-0.8, -0.2, -0.1, 0.0, 0.1, 0.4, 0.9]))):
      # second grid: narrow, so that the jumps it cuts away carry a visible part of the mean of the untruncated margins; third grid: the two
      # axes differ (one threshold per name on a credit grid)
      axes = [axis0.copy(), (axis0 if axis1 is None else axis1).copy()]
      grid = GS.CTMCGrid(h=h, origin_coordinate=3, axes=[a.copy() for a in axes])
      proc = MCLC.MarkovChainLevyCopula(lcm, grid, SamplingMethod.INVERSION)
      proc.initialisation(StubProduct())
      drift = np.asarray(proc.process_drift(), dtype=float)
      for i, m in enumerate(ms):
          axis = axes[i]
          nu = m.levy_triplet.nu
          q = SF.create_q_vector(proc.model.models[i].levy_triplet.nu, GS.CTMCGrid(h=h, origin_coordinate=3, axes=[axis.copy()]))
          got = drift[i, 0] + float(np.dot(axis, q))
          fv = nu.jump_of_finite_variation()
          l, r = axis[0], axis[-1]
          rep = m.levy_triplet.representation.name
          a = float(m.levy_triplet.a)
          if rep == "CENTER":
              want = a
          elif rep == "ZERO":
              want = a + quad_mass(nu, l, -1e-12, 1) + quad_mass(nu, 1e-12, r, 1)
          else:
              want = None
          if want is not None and abs(got - want) > 1e-6 * max(1.0, abs(want)):
              out.append(f"grid [{axis[0]}, {axis[-1]}], h = {h}: margin {i} ({type(m).__name__}, declared {rep}, finite variation: {fv}): drift + sum x q = {got!r}, mean of the truncated margin {want!r}")
    return bool(out), "HEM x CGMY(y=1.3), Clayton: " + "; ".join(out)


def h_copula_margins(ctx, npts, rep, fv, nr=None):
    """each margin of a copula chain: drift_i + mu_h_i = model drift_i + mean of the truncated margin i; fv may be a pair (one flag per margin).
    nr: points right of the origin (default npts): with nr > 1 the two axes differ in their outer points (what a credit grid with one
    threshold per name produces)"""
    d = 2
    fvs = tuple(fv) if isinstance(fv, (tuple, list)) else (fv,) * d
    axis, h, pivot = sym_axis(ctx, npts, nr or npts, name="x0")
    axis2, _, _ = sym_axis(ctx, npts, nr or npts, name="x1", h=h)
    grid = make_grid(h, pivot, [axis, axis2])
    a = [ctx.real(f"a{i}") for i in range(d)]
    models = [A.abs_levy_model(ctx, f"nu{i}", sigma=0.0, a=a[i], representation=REPS[rep], finite_activity=False, finite_variation=fvs[i], bg_index=0.5 if fvs[i] else 1.5)
              for i in range(d)]
    cop = A.AbsCopula(ctx, "F", d)
    lcm = LCM.LevyCopulaModel(models=models, copula=cop)
    undo = shims.install(MCLC, scipy=_ScipyStubMCLC, mp=_SerialMp) if not all(fvs) else (lambda: None)
    try:
        try:
            proc = MCLC.MarkovChainLevyCopula(lcm, grid, SamplingMethod.INVERSION)
        except ZeroDivisionError:
            raise PathAbort()
        proc.initialisation(StubProduct())
    finally:
        undo()
    fv = None
    drift = proc.process_drift()
    for i in range(d):
        ax, piv = grid.axes[i], grid.origin_coordinate.value[i]
        nu = models[i].levy_triplet.nu
        mu = z3.RealVal(0)
        for k, (lo, hi) in cells(ax, piv).items():
            mu = mu + V.term_of(ax[k]) * cell_mass_term(nu, k, piv, lo, hi)
        want = oracle_mean(nu, a[i], rep, fvs[i], ax[0], ax[len(ax) - 1])
        ctx.prove("C04.copula_margin_mean", EQ(drift[i, 0] + SymReal(mu), want), info={"margin": i, "rep": rep, "finite_variation": list(fvs)}, replay=(replay_copula_margins, lambda m: {}))


def replay_copula_variance(sc):
    """real copula chain, both margins of infinite variation (CGMY y = 1.3 and 1.5), Clayton: the variance matrix of the Brownian part the
    simulator uses (diffusion_matrix . diffusion_matrix^T) against diag(sigma_i^2) + the small-jump covariance entries returned by the
    library's own vol_adjustment_ij"""
    import rpylib.model.levymodel.purejump.cgmy as CGMY
    from rpylib.distribution.levycopula import ClaytonCopula

    ms = [CGMY.CGMYModel(CGMY.CGMYParameters(c=0.1, g=5.0, m=6.0, y=1.3)), CGMY.CGMYModel(CGMY.CGMYParameters(c=0.2, g=4.0, m=7.0, y=1.5))]
    lcm = LCM.LevyCopulaModel(models=ms, copula=ClaytonCopula(theta=0.7, eta=0.3))
    h = 0.2
    axis = np.array([-1.0, -h, 0.0, h, 1.0])
    grid = GS.CTMCGrid(h=h, origin_coordinate=2, axes=[axis.copy(), axis.copy()])
    proc = MCLC.MarkovChainLevyCopula(lcm, grid, SamplingMethod.INVERSION)
    undo = shims.install(MCLC, mp=_SerialMp)
    try:
        proc.initialisation(StubProduct())
        model = proc.model
        C = np.array([[MCLC.vol_adjustment_ij(min(i, j), max(i, j), h, model) for j in range(2)] for i in range(2)])
    finally:
        undo()
    D = np.real(np.asarray(proc._path_simulation.diffusion_matrix, dtype=complex))
    got = D @ D.T
    want = np.diag([m.diffusion_coefficient() ** 2 for m in model.models]) + C
    bad = not np.allclose(got, want, rtol=1e-6, atol=1e-12)
    return bad, (f"CGMY(1.3) x CGMY(1.5), Clayton, h = {h}: the Brownian part has variance matrix {np.round(got, 8).tolist()}, squared diffusion coefficients + "
                 f"small-jump covariance of the central cell = {np.round(want, 8).tolist()}")


def h_copula_variance(ctx):
    """copula chain with margins of infinite variation: the variance matrix handed to the matrix square root is diag(sigma_i^2) + the
    small-jump covariance matrix (entries: what vol_adjustment_ij returns; the quadrature and the matrix square root are stubs)"""
    d = 2
    axis, h, pivot = sym_axis(ctx, 1, 1, name="x0")
    grid = make_grid(h, pivot, [axis, axis])
    sig = [ctx.real(f"sigma{i}", 0) for i in range(d)]
    models = [A.abs_levy_model(ctx, f"nu{i}", sigma=sig[i], a=0.0, representation=REPS["TILDE"], finite_activity=False, finite_variation=False, bg_index=1.5) for i in range(d)]
    lcm = LCM.LevyCopulaModel(models=models, copula=A.AbsCopula(ctx, "F", d))
    entries, seen = {}, {}
    real_ij = MCLC.vol_adjustment_ij

    def recording_ij(i, j, hh, model):
        v = real_ij(i, j, hh, model)
        entries[(i, j)] = v
        return v

    class _Stub(_ScipyStubMCLC):
        class linalg:
            @staticmethod
            def sqrtm(mat):
                seen["variance"] = np.array(mat, dtype=object)
                return mat

    undo = shims.install(MCLC, scipy=_Stub, mp=_SerialMp, vol_adjustment_ij=recording_ij)
    try:
        try:
            proc = MCLC.MarkovChainLevyCopula(lcm, grid, SamplingMethod.INVERSION)
        except ZeroDivisionError:
            raise PathAbort()
        proc.initialisation(StubProduct())
    finally:
        undo()
    ok = "variance" in seen and len(entries) == 3
    ctx.prove("C04.copula.small_jump_covariance_entries_computed_once_per_pair", ok, info={"entries": sorted(entries)})
    if not ok:
        return
    Vm = seen["variance"]
    C = {(0, 0): entries[(0, 0)], (0, 1): entries[(0, 1)], (1, 0): entries[(0, 1)], (1, 1): entries[(1, 1)]}
    rp = (replay_copula_variance, lambda m: {})
    for i in range(d):
        for j in range(d):
            want = C[(i, j)] + (sig[i] * sig[i] if i == j else 0)
            ctx.prove("C04.copula.small_jump_covariance_added_to_squared_diffusion", EQ(Vm[i, j], want), info={"entry": (i, j)}, replay=rp)


def h_twin(ctx):
    """sensitivity twin: forgetting the compensator mu_tilde must break the mean identity"""
    axis, h, pivot = sym_axis(ctx, 1, 1)
    grid = make_grid(h, pivot, [axis])
    a = ctx.real("a")
    model = A.abs_levy_model(ctx, "nu", sigma=0.0, a=a, representation=REPS["ZERO"], finite_activity=True, finite_variation=True)
    nu = model.levy_triplet.nu
    try:
        proc = MC.MarkovChainProcess(model, SamplingMethod.INVERSION, grid)
    except ZeroDivisionError:
        raise PathAbort()
    proc.initialisation(StubProduct())
    ax = grid.axes[0]
    want = oracle_mean(nu, a, "CENTER", True, ax[0], ax[2])  # wrong representation on purpose
    mu = V.term_of(ax[0]) * nu.neg_term(0, ax[0], ax[0] / 2) + V.term_of(ax[2]) * nu.pos_term(0, ax[2] / 2, ax[2])
    ctx.prove("C04.twin.wrong_representation", EQ(proc.process_drift() + SymReal(mu), want))


def concrete_validation():
    ok, detail = replay_mean({"nl": 3, "nr": 3})
    return [("C04.concrete.mean_identity", not ok, "shimmed modules on floats: " + detail)]


def harnesses(tier):
    q = tier == "quick"
    hs = [Harness("concrete", concrete_validation, concrete=True)]
    shapes = [(1, 1, 0), (2, 1, 0)] if q else [(1, 1, 0), (2, 1, 0), (1, 2, 1), (2, 2, 0), (3, 3, 0), (2, 2, 1)]
    for nl, nr, rf in shapes:
        for rep in REPS:
            for fa, fv in ((True, True), (False, True), (False, False)):
                if rep == "ZERO" and not fv:
                    continue  # h(x) = 0 requires finite variation: not a declarable representation for these models
                hs.append(Harness(f"mean.{nl}.{nr}.r{rf}.{rep}.fa{int(fa)}.fv{int(fv)}", h_mean,
                                  {"nl": nl, "nr": nr, "rep": rep, "fa": fa, "fv": fv, "refine": rf}, max_paths=6000, batch=10))
    for rep in (("TILDE", "ONEONE") if q else REPS):
        hs.append(Harness(f"copula.{rep}", h_copula_margins, {"npts": 1, "rep": rep, "fv": True}, max_paths=6000, batch=10))
        if rep != "ZERO":  # the ZERO representation needs finite variation
            hs.append(Harness(f"copula.mixed.{rep}", h_copula_margins, {"npts": 1, "rep": rep, "fv": (True, False)}, max_paths=6000, batch=10))
            hs.append(Harness(f"copula.iv.{rep}", h_copula_margins, {"npts": 1, "rep": rep, "fv": (False, False)}, max_paths=6000, batch=10))
    hs.append(Harness("mean.2.2.grid_with_its_own_cell_boundaries", h_mean, {"nl": 2, "nr": 2, "rep": "TILDE", "fa": False, "fv": True, "own_cells": True}, max_paths=6000, batch=10))
    if not q:
        for rep, fv in (("ONEONE", True), ("CENTER", True), ("TILDE", False), ("ONEONE", False)):
            hs.append(Harness(f"mean.2.2.grid_with_its_own_cell_boundaries.{rep}.fv{int(fv)}", h_mean, {"nl": 2, "nr": 2, "rep": rep, "fa": False, "fv": fv, "own_cells": True}, max_paths=6000, batch=10))
        hs.append(Harness("mean.3.2.grid_with_its_own_cell_boundaries", h_mean, {"nl": 3, "nr": 2, "rep": "TILDE", "fa": False, "fv": True, "own_cells": True}, max_paths=6000, batch=10))
    hs.append(Harness("copula.axes_differ.TILDE", h_copula_margins, {"npts": 1, "nr": 2, "rep": "TILDE", "fv": True}, max_paths=6000, batch=10))
    hs.append(Harness("copula.variance", h_copula_variance, max_paths=2000, batch=10))
    hs.append(Harness("twin", h_twin, twin="must_fail"))
    return hs


EXPECT = ["C04.building_a_chain_leaves_the_callers_model_untouched", "C04.mu_h_is_rate_weighted_state_sum", "C04.chain_mean_equals_truncated_process_mean", "C04.no_variance_added_for_finite_variation",
          "C04.small_jump_variance_added_for_infinite_variation", "C04.copula_margin_mean",
          "C04.copula.small_jump_covariance_added_to_squared_diffusion"]


# reference replays run when the symbolic run of a harness ends in an exception of the code under analysis (see runner.run_check)
ERROR_REPLAYS = {"mean.": (replay_mean, {"nl": 2, "nr": 2}), "copula.": (replay_copula_margins, {})}


def main(tier):
    bounds = {"histories_and_variants": 'copula margins also on two axes that differ in their outer points (1+2 points per axis); copula small-jump covariance with the quadrature and the matrix square root as stubs (2-d, both margins of infinite variation); mean identity on a grid that cuts its cells at a solver-chosen weighted point (2+2 points, TILDE, finite variation); replay grids at two scales (inside and beyond +-1)',
              "grids": "1-d symbolic grids up to 2+1 points (quick) / 3+3 points and 1 refinement (thorough); truncation bounds anywhere relative to +-1",
              "representations": "all four, finite/infinite activity and variation",
              "outside": "n-d small-jump covariance (vol_adjustment_ij: nquad in a process pool, sqrtm); the per-cell oscillation bound on x^2 "
                         "(a property of the measure, not of the code); omega of the exponential models (C10): model.drift() is an arbitrary symbol here"}
    return run_check(PID, tier, harnesses(tier), expect=EXPECT, error_replays=ERROR_REPLAYS, bounds=bounds,
                     assumptions=COMMON_ASSUMPTIONS + ["abstract Lévy measure with additive cumulative moment functions L_k/T_k, k <= 2",
                                                       "sqrt as UF with sqrt(t)^2 = t, sqrt >= 0"])


if __name__ == "__main__":
    sys.exit(main(sys.argv[1] if len(sys.argv) > 1 else "quick"))
