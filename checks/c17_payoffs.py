"""C17 - payoffs and underlyings are pure functions of the path obeying static identities.

The real payoff / underlying / Product classes run on symbolic paths, strikes, barriers, thresholds and notionals (exp/log as UFs with
exp(log x) = x); history twins evaluate one object on path A then B and compare with a fresh object on B.
"""
import math
import sys
from fractions import Fraction

import numpy as np

from .common import *  # noqa
from .common import z3, V, shims, Harness, run_check, SymReal, SymInt, SymBool, AND, OR, NOT, EQ, IMPLIES, COMMON_ASSUMPTIONS, Unsupported, PathAbort, EQ_RATIONAL

import rpylib.product.product as PROD
import rpylib.product.payoff as PAY
import rpylib.product.underlying as UND
from rpylib.process.process import ProcessRepresentation as REP

shims.install_np(PROD, PAY, UND)
shims.install(UND, exp=shims.sym_exp)

PID = "C17"
BT, PT_ = PAY.BarrierType, PAY.PayoffType


def sym_path(ctx, n, name="s", positive=True):
    p = np.empty(n, dtype=object)
    for i in range(n):
        p[i] = ctx.real(f"{name}{i}")
        if positive:
            ctx.assume(p[i] > 0)
    return p


def sym_times(ctx, n):
    t = np.empty(n, dtype=object)
    t[0] = 0.0
    prev = 0.0
    for i in range(1, n):
        t[i] = ctx.real(f"t{i}")
        ctx.assume(t[i] > prev)
        prev = t[i]
    return t


def _vals(m, arr):
    return [m.f(x) if V.is_sym(x) else float(x) for x in arr]


# ---- replays


def replay_barrier_history(sc):
    k, b = sc["k"], sc["b"]
    bt = getattr(BT, sc["bt"])
    A, B = np.array(sc["A"]), np.array(sc["B"])
    t = np.arange(len(A), dtype=float)
    used = PAY.Barrier(strike=k, payoff_type=PT_.CALL, barrier_type=bt, barrier=b)
    used.process(t, A)
    used.evaluate(A[-1])
    used.process(t, B)
    got = used.evaluate(B[-1])
    fresh = PAY.Barrier(strike=k, payoff_type=PT_.CALL, barrier_type=bt, barrier=b)
    fresh.process(t, B)
    want = fresh.evaluate(B[-1])
    return got != want, f"Barrier({sc['bt']}, strike={k}, barrier={b}): after path {A.tolist()} the value on path {B.tolist()} is {got}, a fresh payoff gives {want}"


def replay_update_sticky(sc):
    u = UND.Spot()
    path = np.array(sc["path"])
    u.update(REP.LOG)
    u.update(REP.IDENDITY)
    got = u.value(None, path, None)
    want = UND.Spot().value(None, path, None)
    return got != want, f"Spot().update(LOG); update(IDENTITY); value({path.tolist()}) = {got} but a fresh Spot gives {want}"


def replay_shared_underlying(sc):
    """one underlying object used by two products: the first is priced with a log-simulated process, the second with an
    identity-simulated one; the second product must read the spot itself"""
    path = np.array(sc.get("path") or [1.0, 1.3, 0.9])
    out = []
    for cls in (UND.Spot, UND.LogSpot, UND.Libors):
        u = cls()
        first = PROD.Product(payoff_underlying=u, payoff=PAY.Forward(strike=0.0), maturity=1.0)
        second = PROD.Product(payoff_underlying=u, payoff=PAY.Forward(strike=0.0), maturity=1.0)
        first.update(REP.LOG)
        second.update(REP.IDENDITY)
        got = second.payoff_underlying.value(None, path, None)
        want = cls().value(None, path, None)
        if got != want:
            out.append(f"{cls.__name__} shared by two products: after first.update(LOG), second.update(IDENTITY) the second product reads {got!r} on the path {path.tolist()}, a fresh {cls.__name__} reads {want!r}")
    return bool(out), "; ".join(out[:2]) if out else "second product reads the identity representation"


def replay_butterfly(sc):
    k1, k2, k3 = [float(x) for x in sc["k"]]
    v = float(PAY.Butterfly(strike1=k1, strike2=k2, strike3=k3)(float(sc["s"])))
    return v < -1e-12 * max(1.0, abs(k3)), f"Butterfly({k1}, {k2}, {k3}) at underlying {float(sc['s'])} is worth {v!r}"


def replay_asian(sc):
    t = np.array(sc["t"])
    p = np.array(sc["p"])
    try:
        v = UND.Asian().value(t, p, p)
    except Exception as e:
        return True, f"Asian().value(times={t.tolist()}, path={p.tolist()}) raises {type(e).__name__}: {e}"
    lo, hi = min(p[1:]), max(p[1:])
    return not (lo - 1e-12 <= v <= hi + 1e-12), f"Asian().value(times={t.tolist()}, path={p.tolist()}) = {v}, outside [{lo}, {hi}]"


# ---- harnesses


def h_static(ctx):
    s = ctx.real("s")
    k = ctx.real("k")
    n = ctx.real("notional")
    call = PAY.Vanilla(strike=k, payoff_type=PT_.CALL)
    put = PAY.Vanilla(strike=k, payoff_type=PT_.PUT)
    fwd = PAY.Forward(strike=k)
    ctx.prove("C17.call_minus_put_is_forward", EQ(call(s) - put(s), fwd(s)))
    ctx.prove("C17.vanilla_nonneg", AND(call(s) >= 0, put(s) >= 0))
    k1, k2, k3 = ctx.real("k1"), ctx.real("k2"), ctx.real("k3")
    ctx.assume(AND(k1 < k2, k2 < k3))
    c = lambda kk: PAY.Vanilla(strike=kk, payoff_type=PT_.CALL)(s)
    cs = PAY.CallSpread(strike1=k1, strike2=k2)(s)
    ctx.prove("C17.call_spread_is_call_combination_and_nonneg", AND(EQ(cs, c(k1) - c(k2)), cs >= 0))
    bf = PAY.Butterfly(strike1=k1, strike2=k2, strike3=k3)(s)
    ctx.prove("C17.butterfly_is_call_combination", EQ(bf, c(k1) - 2 * c(k2) + c(k3)))
    ctx.prove("C17.butterfly_nonneg", bf >= 0, info={"payoff": "Butterfly"}, regions={"middle_strike_below_the_midpoint": k2 - k1 < k3 - k2},
              replay=(replay_butterfly, lambda m: {"k": [m.f(k1), m.f(k2), m.f(k3)], "s": m.f(s)}))
    dc = PAY.Digital(strike=k, payoff_type=PT_.CALL)(s)
    dp = PAY.Digital(strike=k, payoff_type=PT_.PUT)(s)
    ctx.prove("C17.digital_call_plus_put_is_one", EQ(dc + dp, 1))
    prod = PROD.Product(payoff_underlying=UND.Spot(), payoff=call, maturity=1.0, notional=n)
    ctx.prove("C17.notional_scales_linearly", EQ(prod(s), n * call(s)))
    vk = np.array([k1, k2], dtype=object)
    vcall = PAY.Vanilla(strike=vk, payoff_type=PT_.CALL)
    out = vcall(s)
    ctx.prove("C17.vector_strikes_componentwise", AND(EQ(out[0], c(k1)), EQ(out[1], c(k2)), vcall.dimension() == 2))


def h_barrier(ctx, n, up):
    path = sym_path(ctx, n)
    times = sym_times(ctx, n)
    k, b = ctx.real("k"), ctx.real("b")
    tin, tout = (BT.UP_AND_IN, BT.UP_AND_OUT) if up else (BT.DOWN_AND_IN, BT.DOWN_AND_OUT)
    ki = PAY.Barrier(strike=k, payoff_type=PT_.CALL, barrier_type=tin, barrier=b)
    ko = PAY.Barrier(strike=k, payoff_type=PT_.CALL, barrier_type=tout, barrier=b)
    pin = PROD.Product(payoff_underlying=UND.Spot(), payoff=ki, maturity=1.0)
    pout = PROD.Product(payoff_underlying=UND.Spot(), payoff=ko, maturity=1.0)
    ui = pin.underlying_value(times, path, path)
    uo = pout.underlying_value(times, path, path)
    van = PAY.Vanilla(strike=k, payoff_type=PT_.CALL)(path[n - 1])
    ctx.prove("C17.knock_in_plus_knock_out_is_vanilla", EQ(pin(ui) + pout(uo), van), info={"n": n, "up": up})
    crossed = OR(*[(x > b) if up else (x < b) for x in path])
    ctx.prove("C17.knock_in_pays_iff_barrier_crossed", EQ(pin(ui), V.ite(crossed, van, 0.0)), info={"n": n, "up": up})


def h_barrier_history(ctx, n, bt):
    A = sym_path(ctx, n, "a")
    B = sym_path(ctx, n, "b")
    times = sym_times(ctx, n)
    k, b = ctx.real("k"), ctx.real("barrier")
    used = PAY.Barrier(strike=k, payoff_type=PT_.CALL, barrier_type=getattr(BT, bt), barrier=b)
    used.process(times, A)
    used.evaluate(A[n - 1])
    used.process(times, B)
    got = used.evaluate(B[n - 1])
    fresh = PAY.Barrier(strike=k, payoff_type=PT_.CALL, barrier_type=getattr(BT, bt), barrier=b)
    fresh.process(times, B)
    want = fresh.evaluate(B[n - 1])
    ctx.prove("C17.barrier_value_independent_of_earlier_paths", EQ(got, want), info={"n": n, "bt": bt},
              replay=(replay_barrier_history, lambda m: {"k": m.f(k), "b": m.f(b), "bt": bt, "A": _vals(m, A), "B": _vals(m, B)}))


def h_representation(ctx, n):
    """identity vs logarithmic process representation give the same underlying value for the same spot path"""
    path = sym_path(ctx, n)
    logpath = np.empty(n, dtype=object)
    for i in range(n):
        logpath[i] = shims.sym_log(path[i])
    for cls, args in ((UND.Spot, ()), (UND.LogSpot, ()), (UND.Libors, ())):
        a = cls(*args)
        b = cls(*args)
        b.update(REP.LOG)
        ctx.prove("C17.identity_and_log_representation_agree", EQ(a.value(None, path, None), b.value(None, logpath, None)), info={"underlying": cls.__name__})
    # 2 assets
    p2 = np.empty((2, n), dtype=object)
    l2 = np.empty((2, n), dtype=object)
    for j in range(2):
        q = sym_path(ctx, n, f"q{j}_")
        for i in range(n):
            p2[j, i] = q[i]
            l2[j, i] = shims.sym_log(q[i])
    x0 = [ctx.real("x0"), ctx.real("x1")]
    for x in x0:
        ctx.assume(x > 0)
    perf_i = UND.Performances(spots=np.array(x0, dtype=object))
    perf_l = UND.Performances(spots=np.array(x0, dtype=object))
    perf_l.update(REP.LOG)
    for j in range(2):
        shims.sym_exp(shims.sym_log(x0[j]))  # instantiate exp(log x0) so that exp(a)exp(b)=exp(a+b) links exp(log q - log x0) to q/x0
        shims.sym_exp(l2[j, n - 1])
        shims.sym_exp(-shims.sym_log(x0[j]))
    vi, vl = perf_i.value(None, p2, None), perf_l.value(None, l2, None)
    ctx.prove("C17.identity_and_log_representation_agree", AND(EQ(vi[0], vl[0]), EQ(vi[1], vl[1])), info={"underlying": "Performances"})
    nth_i, nth_l = UND.NthSpot(2), UND.NthSpot(2)
    nth_l.update(REP.LOG)
    ctx.prove("C17.identity_and_log_representation_agree", EQ(nth_i.value(None, p2, None), nth_l.value(None, l2, None)), info={"underlying": "NthSpot"})
    # sticky switch: update(LOG) then update(IDENTITY) must behave like a fresh object
    u = UND.Spot()
    u.update(REP.LOG)
    u.update(REP.IDENDITY)
    ctx.prove("C17.representation_switch_is_not_sticky", EQ(u.value(None, path, None), UND.Spot().value(None, path, None)),
              replay=(replay_update_sticky, lambda m: {"path": _vals(m, path)}))


def h_shared_underlying(ctx, n):
    """one underlying object shared by two products priced with processes of different representation: each product reads the
    representation it was last updated to"""
    path = sym_path(ctx, n)
    for cls in (UND.Spot, UND.LogSpot):
        if cls is UND.LogSpot:
            for x in path:
                ctx.assume(x > 0)
        shared = cls()
        first = PROD.Product(payoff_underlying=shared, payoff=PAY.Forward(strike=0.0), maturity=1.0)
        second = PROD.Product(payoff_underlying=shared, payoff=PAY.Forward(strike=0.0), maturity=1.0)
        first.update(REP.LOG)
        second.update(REP.IDENDITY)
        fixed = np.array([1.0, 2.0])  # the same statement on one concrete path first: refuted at once when it is wrong
        ctx.prove("C17.product_reads_the_representation_it_was_last_updated_to", bool(abs(float(second.payoff_underlying.value(None, fixed, None)) - float(cls().value(None, fixed, None))) < 1e-12),
                  info={"underlying": cls.__name__, "path": [1.0, 2.0]}, replay=(replay_shared_underlying, lambda m: {"path": [1.0, 2.0]}))
        ctx.prove("C17.product_reads_the_representation_it_was_last_updated_to", EQ(second.payoff_underlying.value(None, path, None), cls().value(None, path, None)),
                  info={"underlying": cls.__name__}, replay=(replay_shared_underlying, lambda m: {"path": _vals(m, path)}), timeout_ms=20000)


def replay_rainbow(sc):
    """real Rainbow call on the terminal spots of a 3-asset path: value = max(0, sum of weights x spots sorted from best to worst - strike),
    and valuing the product leaves the path as it was (other products are valued on the same path)"""
    path = np.array(sc.get("path") or [[100.0, 130.0], [100.0, 90.0], [100.0, 110.0]])
    w, k = sc.get("weights") or [0.5, 0.3, 0.2], sc.get("strike", 100.0)
    before = path.copy()
    prod = PROD.Product(payoff_underlying=UND.Spot(), payoff=PAY.Rainbow(weights=w, strike=k, payoff_type=PT_.CALL), maturity=1.0)
    u = prod.underlying_value(np.array([0.0, 1.0]), path, path)
    got = float(prod(u))
    want = max(0.0, float(np.dot(sorted(before[:, -1], reverse=True), w)) - k)
    out = []
    if abs(got - want) > 1e-9:
        out.append(f"value {got!r} vs {want!r}")
    if not np.array_equal(path, before):
        out.append(f"the path was {before.tolist()} and is {path.tolist()} after the valuation")
    return bool(out), f"Rainbow call, weights {w} (best to worst), strike {k}: " + ("; ".join(out) if out else "value right, path untouched")


def h_rainbow(ctx, n_assets=2):
    """a rainbow option on the terminal spots: value from the definition, and the path handed in is left as it was"""
    path = np.empty((n_assets, 2), dtype=object)
    for j in range(n_assets):
        path[j, 0], path[j, 1] = ctx.real(f"s{j}_0"), ctx.real(f"s{j}_1")
    snapshot = [[path[j, i] for i in range(2)] for j in range(n_assets)]
    w = [ctx.real(f"w{j}") for j in range(n_assets)]
    k = ctx.real("k")
    prod = PROD.Product(payoff_underlying=UND.Spot(), payoff=PAY.Rainbow(weights=list(w), strike=k, payoff_type=PT_.CALL), maturity=1.0)
    times = np.array([0.0, 1.0])
    u = prod.underlying_value(times, path, path)
    v = prod(u)
    rp = (replay_rainbow, lambda m: {})
    best = V.smax(snapshot[0][1], snapshot[1][1]) if n_assets == 2 else None
    worst = V.smin(snapshot[0][1], snapshot[1][1]) if n_assets == 2 else None
    ctx.prove("C17.rainbow_value_is_weighted_sorted_performance", EQ(v, V.smax(w[0] * best + w[1] * worst - k, 0.0)), info={"assets": n_assets}, replay=rp)
    ctx.prove("C17.valuing_a_product_leaves_the_path_unchanged", AND(*[EQ(path[j, i], snapshot[j][i]) for j in range(n_assets) for i in range(2)]), info={"payoff": "Rainbow"}, replay=rp)
    v2 = prod(prod.underlying_value(times, path, path))
    ctx.prove("C17.second_valuation_on_the_same_path_gives_the_same_value", EQ(v2, v), info={"payoff": "Rainbow"}, replay=rp)


def h_asian(ctx, n):
    path = sym_path(ctx, n)
    times = sym_times(ctx, n)
    rp = (replay_asian, lambda m: {"t": _vals(m, times), "p": _vals(m, path)})
    try:
        v = UND.Asian().value(times, path, path)
    except TypeError as e:
        ctx.prove("C17.average_between_path_extremes", False, info={"raised": repr(e)[:120]}, replay=rp, regions={"one_dimensional_path": True})
        return
    lo, hi = path[1], path[1]
    for x in path[2:]:
        lo, hi = V.smin(lo, x), V.smax(hi, x)
    ctx.prove("C17.average_between_path_extremes", AND(v >= lo, v <= hi), info={"n": n}, replay=rp)


def replay_asian_column(sc):
    t = np.array(sc["t"], dtype=float)
    p = np.array(sc["p"], dtype=float).reshape(-1, 1)
    try:
        v = float(np.ravel(UND.Asian().value(t, p, p))[0])
    except Exception as e:
        return True, f"Asian().value(times={t.tolist()}, column path={p.ravel().tolist()}) raises {type(e).__name__}: {e}"
    used = p.ravel() if t[0] > 0 else p.ravel()[1:]
    lo, hi = float(used.min()), float(used.max())
    want = float(sum(p.ravel()[i] * (t[i] - (t[i - 1] if i else 0.0)) for i in range(len(t))) / t[-1])
    bad = not (lo - 1e-12 <= v <= hi + 1e-12) or abs(v - want) > 1e-12 * max(1.0, abs(want))
    return bad, f"Asian().value(times={t.tolist()}, column path={p.ravel().tolist()}) = {v!r}; time-weighted average {want!r}, extremes [{lo}, {hi}]"


def h_asian_column(ctx, n, offset):
    """the configuration in which Asian.value works (column path of shape (n, 1)): time-weighted average with the first observation
    weighted by its distance to 0; with `offset` the first date is after 0 (TimeGrid allows start > 0)"""
    path = sym_path(ctx, n).reshape(n, 1)
    times = np.empty(n, dtype=object)
    prev = None
    for i in range(n):
        if i == 0 and not offset:
            times[i] = 0.0
        else:
            times[i] = ctx.real(f"t{i}")
            ctx.assume(times[i] > (prev if prev is not None else 0.0))
        prev = times[i]
    rp = (replay_asian_column, lambda m: {"t": _vals(m, times), "p": _vals(m, path.reshape(-1))})
    info = {"n": n, "first_date_after_zero": offset}
    try:
        v = UND.Asian().value(times, path, path)
    except (TypeError, IndexError, ValueError) as e:
        ctx.prove("C17.average_of_a_column_path_is_defined", False, info=dict(info, raised=repr(e)[:120]), replay=rp)
        return
    v = np.ravel(v)[0] if isinstance(v, np.ndarray) else v
    vals = [path[i, 0] for i in range(n)]
    used = vals if offset else vals[1:]
    lo, hi = used[0], used[0]
    for x in used[1:]:
        lo, hi = V.smin(lo, x), V.smax(hi, x)
    ctx.prove("C17.average_between_path_extremes", AND(v >= lo, v <= hi), info=info, replay=rp)
    want = sum(vals[i] * (times[i] - (times[i - 1] if i else 0.0)) for i in range(n)) / times[n - 1]
    ctx.prove("C17.attempted.average_is_the_time_weighted_mean_of_the_observations", EQ_RATIONAL(v, want), info=info, replay=rp)


class _PairPath:
    """what MLMCPath reads of a coupled stochastic path: times and a (2, n) array [fine, coarse]"""

    def __init__(self, times, fine, coarse):
        self._t = times
        self._v = np.array([list(fine), list(coarse)], dtype=object if any(V.is_sym(x) for x in list(fine) + list(coarse)) else float)

    def times(self):
        return self._t

    def value(self):
        return self._v

    def value_jump(self):
        return self._v


def replay_mlmc_barrier(sc):
    """real MLMCPath.process with a knock-in call: the fine payoff must be the product's value on the fine path alone"""
    import rpylib.montecarlo.path as MPATH

    fine, coarse = np.array(sc["fine"]), np.array(sc["coarse"])
    t = np.arange(len(fine), dtype=float)
    k, b = sc["k"], sc["b"]
    bt = getattr(BT, sc["bt"])
    prod = PROD.Product(payoff_underlying=UND.Spot(), payoff=PAY.Barrier(strike=k, payoff_type=PT_.CALL, barrier_type=bt, barrier=b), maturity=1.0)
    pm = MPATH.MLMCPath(deterministic_path=lambda times: 0.0, activate_spot_underlying=False)
    pm.set_to_path(_PairPath(t, fine, coarse))
    pm.process(prod, PROD.NoControlVariates())
    got = [float(np.ravel(x)[0]) for x in pm.payoff]
    want = []
    for p in (fine, coarse):
        fresh = PROD.Product(payoff_underlying=UND.Spot(), payoff=PAY.Barrier(strike=k, payoff_type=PT_.CALL, barrier_type=bt, barrier=b), maturity=1.0)
        want.append(float(np.ravel(fresh(fresh.underlying_value(t, p, p)))[0]))
    return got != want, f"Barrier({sc['bt']}, K={k}, B={b}) in MLMCPath.process: fine path {fine.tolist()}, coarse path {coarse.tolist()}: payoffs (fine, coarse) = {got}, each path priced alone {want}"


def h_mlmc_barrier(ctx, n, bt):
    """the coupled pair of a multilevel run: MLMCPath.process must give each component the value the product has on that path alone
    (the barrier flag of one path must not leak into the other's payoff)"""
    import rpylib.montecarlo.path as MPATH

    fine, coarse = sym_path(ctx, n, "f"), sym_path(ctx, n, "c")
    times = np.arange(n, dtype=float)
    k, b = ctx.real("k"), ctx.real("b")
    btype = getattr(BT, bt)
    mk = lambda: PROD.Product(payoff_underlying=UND.Spot(), payoff=PAY.Barrier(strike=k, payoff_type=PT_.CALL, barrier_type=btype, barrier=b), maturity=1.0)
    prod = mk()
    pm = MPATH.MLMCPath(deterministic_path=lambda t: 0.0, activate_spot_underlying=False)
    pm.set_to_path(_PairPath(times, fine, coarse))
    pm.process(prod, PROD.NoControlVariates())
    got_f, got_c = pm.payoff[0], pm.payoff[1]
    pf, pc = mk(), mk()
    want_f = pf(pf.underlying_value(times, fine, fine))
    want_c = pc(pc.underlying_value(times, coarse, coarse))
    rp = (replay_mlmc_barrier, lambda m: {"fine": _vals(m, fine), "coarse": _vals(m, coarse), "k": m.f(k), "b": m.f(b), "bt": bt})
    info = {"n": n, "barrier": bt}
    ctx.prove("C17.multilevel_pair_fine_payoff_depends_on_the_fine_path_only", EQ(np.ravel(got_f)[0], np.ravel(want_f)[0] if isinstance(want_f, np.ndarray) else want_f), info=info, replay=rp)
    ctx.prove("C17.multilevel_pair_coarse_payoff_depends_on_the_coarse_path_only", EQ(np.ravel(got_c)[0], np.ravel(want_c)[0] if isinstance(want_c, np.ndarray) else want_c), info=info, replay=rp)


def replay_barrier_representation(sc):
    path = np.array(sc["path"], dtype=float)
    t = np.arange(len(path), dtype=float)
    k, b = sc["k"], sc["b"]
    bt = getattr(BT, sc["bt"])
    mk = lambda: PROD.Product(payoff_underlying=UND.Spot(), payoff=PAY.Barrier(strike=k, payoff_type=PT_.CALL, barrier_type=bt, barrier=b), maturity=1.0)
    pi, pl = mk(), mk()
    pl.update(REP.LOG)
    vi = float(np.ravel(pi(pi.underlying_value(t, path, path)))[0])
    lp = np.log(path)
    vl = float(np.ravel(pl(pl.underlying_value(t, lp, lp)))[0])
    return abs(vi - vl) > 1e-9 * max(1.0, abs(vi)), (f"Barrier({sc['bt']}, K={k}, B={b}) on the spot path {path.tolist()}: value {vi!r} with the identity representation, "
                                                    f"{vl!r} with the logarithmic one (same spot path handed over as its logarithm)")


def h_barrier_representation(ctx, n, bt):
    """a barrier product gives the same value whether the process is simulated in spot or in log-spot (the product is told by update())"""
    path = sym_path(ctx, n)
    logpath = np.empty(n, dtype=object)
    for i in range(n):
        logpath[i] = shims.sym_log(path[i])
        shims.sym_exp(logpath[i])  # instantiates exp(log x) = x
    times = np.arange(n, dtype=float)
    k, b = ctx.real("k"), ctx.real("b")
    ctx.assume(b > 0)
    btype = getattr(BT, bt)
    mk = lambda: PROD.Product(payoff_underlying=UND.Spot(), payoff=PAY.Barrier(strike=k, payoff_type=PT_.CALL, barrier_type=btype, barrier=b), maturity=1.0)
    pi, pl = mk(), mk()
    pl.update(REP.LOG)
    vi = pi(pi.underlying_value(times, path, path))
    vl = pl(pl.underlying_value(times, logpath, logpath))
    rp = (replay_barrier_representation, lambda m: {"path": _vals(m, path), "k": m.f(k), "b": m.f(b), "bt": bt})
    ctx.prove("C17.identity_and_log_representation_agree", EQ(np.ravel(vi)[0] if isinstance(vi, np.ndarray) else vi, np.ravel(vl)[0] if isinstance(vl, np.ndarray) else vl),
              info={"underlying": "Spot", "payoff": f"Barrier.{bt}", "n": n}, replay=rp)


def h_default_time(ctx, n):
    times = sym_times(ctx, n)
    jp = np.empty(n, dtype=object)
    for i in range(n):
        jp[i] = ctx.real(f"j{i}")
    a = ctx.real("a")
    ctx.assume(a < 0)
    dt = UND.DefaultTime(default_level=a)._value_log(times, jp, jp)
    # oracle: first i with jp[i+1]-jp[i] < a -> times[i+1], else inf
    want = math.inf
    for i in reversed(range(n - 1)):
        cond = (jp[i + 1] - jp[i]) < a
        if bool(cond):
            want = times[i + 1]
    ok = (dt == want) if (isinstance(dt, float) or isinstance(want, float)) else EQ(dt, want)
    ctx.prove("C17.default_time_is_first_jump_below_threshold", ok, info={"n": n})


def h_nth_default(ctx, n):
    times = sym_times(ctx, n)
    jp = np.empty((2, n), dtype=object)
    for k in range(2):
        for i in range(n):
            jp[k, i] = ctx.real(f"j{k}_{i}")
    a = [ctx.real("a0"), ctx.real("a1")]
    for x in a:
        ctx.assume(x < 0)
    t1 = UND.NthDefaultTimes(default_levels=a, index=1)._value_log(times, jp, jp)
    t2 = UND.NthDefaultTimes(default_levels=a, index=2)._value_log(times, jp, jp)
    ok = (t1 <= t2)
    ctx.prove("C17.nth_to_default_times_nondecreasing_in_n", ok, info={"n": n})
    each = UND._DefaultTimes(default_levels=a)._value_log(times, jp, jp)
    first = UND.DefaultTimeNthUnderlying(default_levels=a, underlying_index=1)._value_log(times, jp, jp)
    same = (each[0] == first)
    ctx.prove("C17.first_to_default_is_min_of_default_times", AND(t1 <= each[0], t1 <= each[1], OR(t1 == each[0], t1 == each[1]), same), info={"n": n})


def replay_default_history(sc):
    """real NthDefaultTimes / _DefaultTimes objects valued on several paths one after the other: each value equals the value a fresh
    object gives on that path"""
    times = np.array([0.0, 0.5, 1.0, 1.5])
    a = [-0.2, -0.3]
    paths = [np.array([[0.0, -0.5, -0.5, -0.5], [0.0, 0.0, -0.6, -0.6]]), np.array([[0.0, 0.1, 0.1, 0.2], [0.0, 0.0, 0.0, -0.5]]),
             np.array([[0.0, 0.1, 0.1, 0.2], [0.0, 0.0, 0.1, 0.1]])]
    bad = []
    for name, build in (("NthDefaultTimes(index=1)", lambda: UND.NthDefaultTimes(default_levels=a, index=1)), ("NthDefaultTimes(index=2)", lambda: UND.NthDefaultTimes(default_levels=a, index=2)),
                        ("_DefaultTimes", lambda: UND._DefaultTimes(default_levels=a))):
        und = build()
        for k, jp in enumerate(paths):
            got = np.asarray(und._value_log(times, jp, jp), dtype=float)
            want = np.asarray(build()._value_log(times, jp, jp), dtype=float)
            if not np.array_equal(got, want):
                bad.append(f"{name}: path {k + 1} valued after {k} other path(s) gives {got.tolist()}, a fresh object gives {want.tolist()}")
    return bool(bad), "; ".join(bad[:3]) if bad else "values do not depend on the paths valued before"


def h_default_history(ctx, n=2, prefix="C17"):
    """the same default-time underlying object values one path after another (what every Monte-Carlo run does): the value of the second
    path is the value a fresh object gives, whatever happened on the first path"""
    times = sym_times(ctx, n)
    a = [ctx.real("a0"), ctx.real("a1")]
    for x in a:
        ctx.assume(x < 0)

    def path(tag):
        jp = np.empty((2, n), dtype=object)
        for k in range(2):
            for i in range(n):
                jp[k, i] = ctx.real(f"{tag}{k}_{i}")
        return jp

    first, second = path("p"), path("q")
    rp = (replay_default_history, lambda m: {})

    def same(u, v):
        u, v = np.atleast_1d(u), np.atleast_1d(v)
        return len(u) == len(v) and AND(*[(x == y) if (isinstance(x, float) or isinstance(y, float)) else EQ(x, y) for x, y in zip(u, v)])

    for name, build in (("nth1", lambda: UND.NthDefaultTimes(default_levels=a, index=1)), ("each", lambda: UND._DefaultTimes(default_levels=a))):
        und = build()
        und._value_log(times, first, first)
        got = und._value_log(times, second, second)
        want = build()._value_log(times, second, second)
        ctx.prove(f"{prefix}.default_times_of_a_path_do_not_depend_on_the_paths_valued_before", same(got, want), info={"n": n, "object": name}, replay=rp)


def replay_nth_default_identity(sc):
    """real DefaultTimeNthUnderlying: identity representation on (path, jump path) against the log representation on the logarithm of the
    same jump path; the path itself (drift + diffusion + jumps) differs from the jump path"""
    times = np.array([0.0, 0.5, 1.0, 1.5])
    a = [-0.2, -0.3]
    jump = np.array([[1.0, 0.7, 0.7, 0.7], [1.0, 1.0, 0.6, 0.6]])
    path = np.array([[100.0, 104.0, 99.0, 101.0], [50.0, 51.0, 52.0, 20.0]])
    out = []
    for k in (1, 2):
        got = UND.DefaultTimeNthUnderlying(default_levels=a, underlying_index=k).value(times, path, jump)
        want = UND.DefaultTimeNthUnderlying(default_levels=a, underlying_index=k)._value_log(times, np.log(path), np.log(jump))
        if got != want:
            out.append(f"name {k}: identity representation gives default time {got}, log representation {want} (jump path {jump[k - 1].tolist()}, path {path[k - 1].tolist()})")
    for k in (1, 2):
        try:
            got = UND.NthDefaultTimes(default_levels=a, index=k).value(times, path, jump)
        except Exception as e:
            out.append(f"NthDefaultTimes(index={k}).value (identity representation) raises {type(e).__name__}: {str(e)[:100]}")
            continue
        want = UND.NthDefaultTimes(default_levels=a, index=k)._value_log(times, np.log(path), np.log(jump))
        if got != want:
            out.append(f"{k}-th to default: identity representation {got}, log representation {want}")
    return bool(out), "; ".join(out) if out else "identity and log representations agree on the default time of each name"


def h_nth_default_identity(ctx):
    """default time of the k-th name: the identity representation reads the jump path (not the full path) and agrees with the log
    representation on the logarithms"""
    times = sym_times(ctx, 2)
    a = [ctx.real("a0"), ctx.real("a1")]
    for x in a:
        ctx.assume(x < 0)
    jump = np.empty((2, 2), dtype=object)
    path = np.empty((2, 2), dtype=object)
    ljump = np.empty((2, 2), dtype=object)
    for k in range(2):
        for i in range(2):
            jump[k, i], path[k, i] = ctx.real(f"j{k}_{i}"), ctx.real(f"p{k}_{i}")
            ctx.assume(AND(jump[k, i] > 0, path[k, i] > 0))
            ljump[k, i] = shims.sym_log(jump[k, i])
    # the same statement on one concrete path first (refuted at once when it is wrong; the symbolic version below needs exp / log reasoning)
    V.set_context(None)
    try:
        bad_concrete, detail = replay_nth_default_identity({})
    finally:
        V.set_context(ctx)
    ctx.prove("C17.default_time_of_a_name_follows_its_jump_path_in_both_representations", not bad_concrete, info={"concrete_path": True, "detail": detail[:160]},
              replay=(replay_nth_default_identity, lambda m: {}))
    if bad_concrete:
        return  # already refuted: the symbolic version would only add solver time
    for k in (1, 2):
        got = UND.DefaultTimeNthUnderlying(default_levels=a, underlying_index=k).value(times, path, jump)
        want = UND.DefaultTimeNthUnderlying(default_levels=a, underlying_index=k)._value_log(times, None, ljump)
        same = (got == want) if (isinstance(got, float) or isinstance(want, float)) else EQ(got, want)
        ctx.prove("C17.default_time_of_a_name_follows_its_jump_path_in_both_representations", same, info={"name": k}, replay=(replay_nth_default_identity, lambda m: {}), timeout_ms=15000)
    for k in (1, 2):
        got = UND.NthDefaultTimes(default_levels=a, index=k).value(times, path, jump)
        want = UND.NthDefaultTimes(default_levels=a, index=k)._value_log(times, None, ljump)
        same = (got == want) if (isinstance(got, float) or isinstance(want, float)) else EQ(got, want)
        ctx.prove("C17.nth_to_default_time_agrees_in_both_representations", same, info={"n": k}, replay=(replay_nth_default_identity, lambda m: {"nth": True}), timeout_ms=15000)


def h_twin(ctx):
    s, k = ctx.real("s"), ctx.real("k")
    call = PAY.Vanilla(strike=k, payoff_type=PT_.CALL)
    put = PAY.Vanilla(strike=k, payoff_type=PT_.PUT)
    ctx.prove("C17.twin.parity_with_wrong_sign", EQ(call(s) + put(s), s - k))


def harnesses(tier):
    q = tier == "quick"
    hs = [Harness("static", h_static, max_paths=4000, batch=20)]
    for n in ((2, 3) if q else (2, 3, 4)):
        for up in (True, False):
            hs.append(Harness(f"barrier.{n}.{'up' if up else 'down'}", h_barrier, {"n": n, "up": up}, max_paths=20000, batch=20))
        hs.append(Harness(f"asian.{n}", h_asian, {"n": n}, max_paths=2000))
        for offset in (False, True):
            hs.append(Harness(f"asian.column.{n}.{int(offset)}", h_asian_column, {"n": n, "offset": offset}, max_paths=2000))
        hs.append(Harness(f"default.{n}", h_default_time, {"n": n}, max_paths=4000, batch=20))
        hs.append(Harness(f"nth.{n}", h_nth_default, {"n": n}, max_paths=20000, batch=20))
    for bt in ("UP_AND_IN", "UP_AND_OUT", "DOWN_AND_IN", "DOWN_AND_OUT"):
        hs.append(Harness(f"barrier.history.{bt}", h_barrier_history, {"n": 2, "bt": bt}, max_paths=20000, batch=20))
        hs.append(Harness(f"barrier.mlmc_pair.{bt}", h_mlmc_barrier, {"n": 2, "bt": bt}, max_paths=20000, batch=20))
        hs.append(Harness(f"barrier.representation.{bt}", h_barrier_representation, {"n": 2, "bt": bt}, max_paths=20000, batch=20))
    hs.append(Harness("default.history", h_default_history, {"n": 2}, max_paths=4000, batch=20))
    hs.append(Harness("default.nth_identity", h_nth_default_identity, max_paths=4000, batch=20))
    hs.append(Harness("rainbow", h_rainbow, max_paths=2000))
    hs.append(Harness("representation", h_representation, {"n": 2}, max_paths=2000))
    hs.append(Harness("representation.shared_underlying", h_shared_underlying, {"n": 2}, max_paths=2000))
    hs.append(Harness("twin", h_twin, twin="must_fail"))
    return hs


EXPECT = ["C17.call_minus_put_is_forward", "C17.call_spread_is_call_combination_and_nonneg", "C17.butterfly_is_call_combination", "C17.digital_call_plus_put_is_one",
          "C17.notional_scales_linearly", "C17.knock_in_plus_knock_out_is_vanilla", "C17.barrier_value_independent_of_earlier_paths",
          "C17.identity_and_log_representation_agree", "C17.representation_switch_is_not_sticky", "C17.average_between_path_extremes",
          "C17.default_time_is_first_jump_below_threshold", "C17.nth_to_default_times_nondecreasing_in_n",
          "C17.default_times_of_a_path_do_not_depend_on_the_paths_valued_before", "C17.product_reads_the_representation_it_was_last_updated_to",
          "C17.rainbow_value_is_weighted_sorted_performance", "C17.valuing_a_product_leaves_the_path_unchanged", "C17.second_valuation_on_the_same_path_gives_the_same_value",
          "C17.default_time_of_a_name_follows_its_jump_path_in_both_representations"]


# stronger than the property (which only asks for a value between the extremes): reported, not claimed
ATTEMPTED = ["C17.attempted.average_is_the_time_weighted_mean_of_the_observations"]


def main(tier):
    bounds = {"histories_and_variants": 'default-time underlyings valuing two symbolic paths (2 times, 2 names) in a row; one underlying object shared by two products; Rainbow on 2 assets; butterfly with any increasing strikes; default time of a name with path != jump path',
              "paths": "length <= 3 (quick) / 4 (thorough), <= 2 assets; strikes, barriers, thresholds, notionals, times arbitrary reals (times increasing)",
              "outside": "LookBack (raises by construction), Rainbow beyond 2 assets, CDS (C19), rate payoffs (Bond/Cap/Ratchet/Swaption), MaximumOfPerformances under LOG"}
    return run_check(PID, tier, harnesses(tier), expect=EXPECT, attempted=ATTEMPTED, bounds=bounds,
                     assumptions=COMMON_ASSUMPTIONS + ["exp/log as UFs with exp(log x) = x, log(exp x) = x, monotone"])


if __name__ == "__main__":
    sys.exit(main(sys.argv[1] if len(sys.argv) > 1 else "quick"))
