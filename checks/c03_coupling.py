"""C03 - level coupling keeps the coarse path in the previous level's law (telescoping).

Real CTMCGrid.refine, CouplingMarkovChain (constructor, next_level, coupling_state, probability_to_right_jump, Brownian coupling),
CouplingProcessLevyCopula / CouplingLevyCopulaSimulation.__coupling_state run on a symbolic coarse grid, an abstract measure /
copula and a symbolic coupling uniform.  Coarse rates come from the real C01 code run on the un-refined grid.
"""
import copy
import itertools
import sys
from collections import deque
from fractions import Fraction

import numpy as np

from .chain_common import *  # noqa
from .chain_common import (z3, V, shims, A, SF, GS, MC, MCLC, LCM, SamplingMethod, sym_axis, make_grid, cells, cell_mass_term, concrete_models,
                           quad_mass, StubProduct, SymReal, SymBool, AND, OR, NOT, EQ, IMPLIES, INF, Unsupported)
from .common import Harness, run_check, COMMON_ASSUMPTIONS, PathAbort
from symx import measure as M

import rpylib.process.coupling.couplingmarkovchain as CMC
import rpylib.process.coupling.couplinglevycopula as CLC
import rpylib.process.coupling.helper as CH

shims.install_np(CMC, CLC, CH)


class _NpObjectArrays(shims.NpProxy):
    """np for couplinglevycopula: under exploration np.array of plain floats is an object array, so that `current_value += <symbolic>`
    (in-place accumulation into an array created from grid.origin) works as it does on floats"""

    def array(self, obj, dtype=None, **kw):
        a = super().array(obj, dtype=dtype, **kw)
        if V.get_context() is not None and not getattr(V.get_context(), "concrete", False) and isinstance(a, np.ndarray) and a.dtype == float and dtype is None:
            return a.astype(object)
        return a


CLC.__dict__["np"] = _NpObjectArrays()

PID = "C03"


def _key(v):
    return str(z3.simplify(V.term_of(v))) if V.is_sym(v) else repr(float(v))


def _match(value, axis):
    """index of the axis element structurally equal to value (None if none)"""
    kv = _key(value)
    for j, x in enumerate(axis):
        if _key(x) == kv:
            return j
    return None


TIMES = np.array([0.0, 1.0])


class ScriptedUniform:
    """The coupling uniform as a scheduler-controlled value: every comparison against it records the threshold term and returns
    the next scripted boolean, so the harness drives the code into each leaf without putting the (ratio-valued) thresholds into
    the path condition.  The leaf reached by the outcomes (False,...,False,True) of `u <= P_1`, `u <= P_2`, ... is the set
    P_{k-1} < u <= P_k, of Lebesgue measure P_k - P_{k-1} (thresholds are non-decreasing sums of non-negative ratios)."""

    def __init__(self, script):
        self.script = list(script)
        self.thresholds = []

    def _next(self, other):
        self.thresholds.append(other)
        if not self.script:
            raise Unsupported("scripted uniform: more comparisons than scripted")
        return self.script.pop(0)

    def __lt__(self, other):
        return self._next(other)

    __le__ = __lt__

    def __format__(self, spec):
        return "u"


class StubPathManager:
    def __init__(self):
        self.rep = None
        self.deterministic_path = None

    def update(self, rep):
        self.rep = rep


# --------------------------------------------------------------------------------------
# replay (1-d) on HEM / CGMY: coupled coarse rates vs coarse chain rates


def replay_1d(sc):
    nl, nr = sc["nl"], sc["nr"]
    details = []
    for name, model in concrete_models().items():
        h = 0.1
        axis = np.array([-h * (1.7**i) for i in range(nl)][::-1] + [0.0] + [h * (1.6**i) for i in range(nr)])
        grid = GS.CTMCGrid(h=h, origin_coordinate=nl, axes=[axis.copy()])
        cmc = CMC.CouplingMarkovChain(model, SamplingMethod.INVERSION, grid)
        coarse_axis = grid.axes[0].copy()
        q_c = SF.create_q_vector(cmc.fine_process.model.levy_triplet.nu, grid)
        sig_prev = cmc.fine_process.equivalent_diffusion_coefficient
        cmc.next_level(mc_paths=0, path_managers=None, product=StubProduct(times=TIMES))
        fine_axis, piv = grid.axes[0], grid.origin_coordinate.value
        q_f = SF.create_q_vector(cmc.fine_process.model.levy_triplet.nu, grid)
        sim = cmc._path_coupling_simulation
        got = np.zeros(len(coarse_axis))
        for p in range(len(fine_axis)):
            if p == piv:
                continue
            inc = p - piv
            if inc % 2 == 0:
                j = int(np.argmin(np.abs(coarse_axis - fine_axis[p])))
                got[j] += q_f[p]
            else:
                pr = sim.probability_to_right_jump(grid, cmc.fine_process.model.mass, inc)
                jr = int(np.argmin(np.abs(coarse_axis - grid.right_point(grid.origin_coordinate + inc))))
                jl = int(np.argmin(np.abs(coarse_axis - grid.left_point(grid.origin_coordinate + inc))))
                got[jr] += q_f[p] * pr
                got[jl] += q_f[p] * (1 - pr)
        for j in range(len(coarse_axis)):
            if j == nl:
                continue
            if abs(got[j] - q_c[j]) > 1e-7 * max(1.0, q_c[j]):
                details.append(f"{name}: coarse state {coarse_axis[j]:.4f}: coupled rate {got[j]!r} vs coarse chain rate {q_c[j]!r}")
        if abs(cmc.equivalent_diffusion_coefficient_coarse - sig_prev) > 1e-12:
            details.append(f"{name}: coarse diffusion coefficient {cmc.equivalent_diffusion_coefficient_coarse} vs previous fine {sig_prev}")
    return bool(details), "; ".join(details[:3]) if details else "coupled coarse rates equal coarse rates on HEM/CGMY"


def replay_levels(sc):
    """drift / diffusion bookkeeping of the real CouplingMarkovChain over several successive levels (HEM, CGMY finite and infinite
    variation): the coarse component carries the previous level's coefficients, the fine one the new level's, one set of Brownian variates"""
    from collections import deque as _dq

    levels = max(2, sc.get("levels", 2))
    details = []
    for name, model in concrete_models().items():
        h = 0.2
        axis = np.array([-2 * h, -h, 0.0, h, 2 * h])
        grid = GS.CTMCGrid(h=h, origin_coordinate=2, axes=[axis.copy()])
        cmc = CMC.CouplingMarkovChain(model, SamplingMethod.INVERSION, grid)
        cmc.initialisation(StubProduct(times=TIMES))
        for level in range(1, levels + 1):
            sig_prev = cmc.fine_process.equivalent_diffusion_coefficient
            drift_prev = cmc.fine_process.process_drift()
            pms = [StubPathManager()]
            cmc.next_level(mc_paths=0, path_managers=pms, product=StubProduct(times=TIMES))
            sig_new = cmc.fine_process.equivalent_diffusion_coefficient
            drift_new = cmc.fine_process.process_drift()
            x0 = model.x0_value()
            dp = pms[-1].deterministic_path(np.array([0.7]))
            if abs(dp[1][0] - (x0 + drift_prev * 0.7)) > 1e-12 or abs(dp[0][0] - (x0 + drift_new * 0.7)) > 1e-12:
                details.append(f"{name} level {level}: deterministic paths at t=0.7 (fine, coarse) = ({dp[0][0]!r}, {dp[1][0]!r}), expected "
                               f"({x0 + drift_new * 0.7!r}, {x0 + drift_prev * 0.7!r})")
            w = np.array([0.3, -1.1])
            sq = np.array([0.5, 0.8])
            cmc.fine_process._path_simulation._brownian_increments = _dq([w.copy()])
            dfine, dcoarse = cmc._path_coupling_simulation.simulate_diffusion_with_coupling(sq)
            incr = float(np.sum(sq * w))
            if abs(dfine[-1] - sig_new * incr) > 1e-12 or abs(dcoarse[-1] - sig_prev * incr) > 1e-12:
                details.append(f"{name} level {level}: diffusion parts (fine, coarse) = ({dfine[-1]!r}, {dcoarse[-1]!r}) for the Brownian sum {incr!r}; the level's fine "
                               f"coefficient is {sig_new!r} and the previous level's is {sig_prev!r}")
    return bool(details), "; ".join(details[:3]) if details else "coefficients follow the levels on HEM/CGMY"


def h_1d(ctx, nl, nr, levels=1, fa=False, fv=True):
    axis, h, pivot = sym_axis(ctx, nl, nr)
    grid = make_grid(h, pivot, [axis])
    sigma = ctx.real("sigma", 0)
    a = ctx.real("a")
    model = A.abs_levy_model(ctx, "nu", sigma=sigma, a=a, finite_activity=fa, finite_variation=fv)
    nu = model.levy_triplet.nu
    try:
        cmc = CMC.CouplingMarkovChain(model, SamplingMethod.INVERSION, grid)
    except ZeroDivisionError:
        raise PathAbort()
    rp = (replay_1d, lambda m: {"nl": nl, "nr": nr})
    info = {"nl": nl, "nr": nr, "levels": levels}
    cmc.initialisation(StubProduct(times=TIMES))
    for level in range(1, levels + 1):
        coarse_axis = list(grid.axes[0])
        cpiv = grid.origin_coordinate.value
        q_c = SF.create_q_vector(cmc.fine_process.model.levy_triplet.nu, grid)  # the real C01 code on the un-refined grid
        sig_prev = cmc.fine_process.equivalent_diffusion_coefficient
        drift_prev = cmc.fine_process.process_drift()
        pms = [StubPathManager()]
        try:
            cmc.next_level(mc_paths=0, path_managers=pms, product=StubProduct(times=TIMES))
        except ZeroDivisionError:
            raise PathAbort()
        fine_axis, piv = grid.axes[0], grid.origin_coordinate.value
        ctx.prove("C03.origin_index_doubles", piv == 2 * cpiv, info=info, replay=rp)
        q_f = SF.create_q_vector(cmc.fine_process.model.levy_triplet.nu, grid)
        sim = cmc._path_coupling_simulation
        total = {j: z3.RealVal(0) for j in range(len(coarse_axis))}
        fc = cells(fine_axis, piv)
        for p in range(len(fine_axis)):
            if p == piv:
                continue
            inc = p - piv
            shims.RNG.reset()

            def one():
                return sim.coupling_state(inc)

            if inc % 2 == 0:
                val = one()
                j = _match(val, coarse_axis)
                ctx.prove("C03.even_increment_copied_unchanged", (j == p // 2) and _key(val) == _key(fine_axis[p]), info=dict(info, p=p), replay=rp)
                if j is not None:
                    total[j] = total[j] + V.term_of(q_f[p])
                continue
            # odd: the coupling consumes one uniform; both outcomes of `u < P(right)` are scripted
            lo, hi = fc[p]
            saved = cmc.uniform.sample
            for go_right in (True, False):
                su = ScriptedUniform([go_right])
                cmc.uniform.sample = lambda size=1, su=su: su
                try:
                    try:
                        val = one()
                    except ZeroDivisionError:
                        continue  # a fine cell of zero mass is never visited
                finally:
                    cmc.uniform.sample = saved
                ctx.prove("C03.coupling_consumes_one_uniform", len(su.thresholds) == 1, info=dict(info, p=p), replay=rp)
                j = _match(val, coarse_axis)
                ok_adj = j is not None and j in ((p - 1) // 2, (p + 1) // 2)
                ctx.prove("C03.odd_increment_moves_to_adjacent_coarse_state", ok_adj, info=dict(info, p=p), replay=rp)
                if j is None:
                    continue
                P = V.term_of(su.thresholds[0])
                prob = P if go_right else 1 - P
                # local identity: P(x -> neighbour) * rate(x) = mass of the half cell on that neighbour's side
                if j == (p + 1) // 2:
                    half = cell_mass_term(nu, p, piv, fine_axis[p], hi)
                else:
                    half = cell_mass_term(nu, p, piv, lo, fine_axis[p])
                _prove_ratio(ctx, "C03.transfer_probability_times_rate_is_half_cell_mass", prob, V.term_of(q_f[p]), half, dict(info, p=p, to=j), rp)
                total[j] = total[j] + half
        for j in range(len(coarse_axis)):
            if j == cpiv:
                continue
            ctx.prove("C03.coarse_rate_preserved.1d", SymBool(z3.simplify(total[j]) == V.term_of(q_c[j])), info=dict(info, level=level, state=j), replay=rp)
        # drift and diffusion bookkeeping, observed on what the simulation produces (not on the object's private attributes)
        rpl = (replay_levels, lambda m: {"levels": levels})
        t = ctx.real("t", 0)
        dp = pms[-1].deterministic_path(np.array([t], dtype=object))
        x0 = model.x0_value()
        ctx.prove("C03.coarse_deterministic_path_is_previous_level", EQ(dp[1][0], x0 + drift_prev * t), info=info, replay=rpl)
        ctx.prove("C03.fine_deterministic_path_is_new_level", EQ(dp[0][0], x0 + cmc.fine_process.process_drift() * t), info=info, replay=rpl)
        # same Brownian variates for both components, scaled by the new level's / the previous level's diffusion coefficient
        w = np.array([ctx.real(f"w{k}") for k in range(2)], dtype=object)
        sq = np.array([ctx.real(f"sqdt{k}", 0) for k in range(2)], dtype=object)
        cmc.fine_process._path_simulation._brownian_increments = deque([w])
        dfine, dcoarse = sim.simulate_diffusion_with_coupling(sq)
        incr = sq[0] * w[0] + sq[1] * w[1]
        ctx.prove("C03.fine_diffusion_is_new_level", EQ(dfine[1], cmc.fine_process.equivalent_diffusion_coefficient * incr), info=info, replay=rpl)
        ctx.prove("C03.coarse_diffusion_is_previous_fine", EQ(dcoarse[1], sig_prev * incr), info=info, replay=rpl)
        ctx.prove("C03.same_brownian_increments_drive_both", len(cmc.fine_process._path_simulation._brownian_increments) == 0, info=info, replay=rpl)


# ---- assembly of the coupled jump values per product date (fixed-date mode), for list- and array-valued state increments


def replay_slices(sc):
    """real coupled chain (HEM), every sampling method the constructor accepts, fixed-date mode: simulate 200 coupled paths"""
    details = []
    model = concrete_models()["hem"]
    for method in (SamplingMethod.INVERSION, SamplingMethod.BINARYSEARCHTREE, SamplingMethod.TABLE, SamplingMethod.ALIAS, SamplingMethod.HUFFMANNTREE,
                   SamplingMethod.BINARYSEARCHTREEADAPTED1D):
        h = 0.1
        axis = np.array([-2 * h, -h, 0.0, h, 2 * h])
        grid = GS.CTMCGrid(h=h, origin_coordinate=2, axes=[axis.copy()])
        try:
            cmc = CMC.CouplingMarkovChain(model, method, grid)
        except Exception:
            continue  # not accepted by the constructor
        prod = StubProduct(times=TIMES)
        cmc.initialisation(prod)
        cmc.next_level(mc_paths=200, path_managers=[StubPathManager()], product=prod)
        st = np.random.get_state()
        np.random.seed(3)
        try:
            for _ in range(200):
                try:
                    cmc.simulate_one_path_with_coupling()
                except Exception as e:
                    details.append(f"{method.name}: simulate_one_path_with_coupling raises {type(e).__name__}: {str(e)[:90]}")
                    break
        finally:
            np.random.set_state(st)
        # scripted fine chain (jump counts 0, 1, 2, 3 on four dates; python lists and numpy arrays of increments): per date the coarse value
        # is the sum of coupled increments, each a state of the coarse grid adjacent to (odd) or equal to (even) the fine state
        sim = cmc._path_coupling_simulation
        fine_axis, piv = np.asarray(cmc.grid.axes[0], dtype=float), cmc.grid.origin_coordinate.value
        incs = [[], [1], [-1, 2], [-3, -1, 1]]
        for conv in (list, lambda x: np.array(x, dtype=int)):
            values = [np.cumsum([fine_axis[piv + i] for i in sl]) if sl else np.empty(0) for sl in incs]

            class _PS:
                def simulate_markov_chain(self_inner):
                    return MC.MarkovChain(np.array([1.0, 2.0, 3.0, 4.0]), values, [conv(sl) for sl in incs])

            saved_ps, saved_times = cmc.fine_process._path_simulation, None
            cmc.fine_process._path_simulation = _PS()
            try:
                cmc.next_level(mc_paths=0, path_managers=[StubPathManager()], product=StubProduct(times=np.array([0.0, 1.0, 2.0, 3.0, 4.0])))
                sim = cmc._path_coupling_simulation
                fine_axis, piv = np.asarray(cmc.grid.axes[0], dtype=float), cmc.grid.origin_coordinate.value
                values[:] = [np.cumsum([fine_axis[piv + i] for i in sl]) if sl else np.empty(0) for sl in incs]
                cmc.fine_process._path_simulation = _PS()
                fine, coarse = sim.simulate_jumps_with_coupling()
            except Exception as e:
                details.append(f"{method.name}: simulate_jumps_with_coupling raises {type(e).__name__}: {str(e)[:90]} on the scripted slices {incs}")
                break
            coarse_axis = fine_axis[piv % 2::2]
            for k, sl in enumerate(incs):
                lo = sum(max(c for c in coarse_axis if c <= fine_axis[piv + i] + 1e-12) for i in sl)
                hi = sum(min(c for c in coarse_axis if c >= fine_axis[piv + i] - 1e-12) for i in sl)
                cands = {round(sum(t), 10) for t in itertools.product(*[sorted({max(c for c in coarse_axis if c <= fine_axis[piv + i] + 1e-12),
                                                                                min(c for c in coarse_axis if c >= fine_axis[piv + i] - 1e-12)}) for i in sl])} if sl else {0.0}
                got = float(np.asarray(coarse[k]).ravel()[0]) if np.size(coarse[k]) else 0.0
                if round(got, 10) not in cands:
                    details.append(f"{method.name}: slice of fine increments {sl}: coarse value {got!r}, the sums of adjacent coarse states are {sorted(cands)}")
                want_f = float(values[k][-1]) if sl else 0.0
                gf = float(np.asarray(fine[k]).ravel()[0]) if np.size(fine[k]) else 0.0
                if abs(gf - want_f) > 1e-12:
                    details.append(f"{method.name}: slice {sl}: fine value {gf!r} vs last cumulated fine value {want_f!r}")
        if details:
            break
    return bool(details), "HEM, coarse grid of 5 states refined once, fixed-date mode: " + "; ".join(details[:3])


def h_slices(ctx, kind):
    """jump counts 0, 1, 2 on three product dates; the fine chain's state increments arrive as python lists (inversion sampler) or as
    numpy arrays (alias / table / tree samplers).  Per date: fine value = last cumulated fine value, coarse value = last cumulated
    coupled value (even increments copied, odd ones moved to an adjacent coarse state), 0 when there is no jump."""
    axis, h, pivot = sym_axis(ctx, 1, 1)
    grid = make_grid(h, pivot, [axis])
    model = A.abs_levy_model(ctx, "nu", sigma=0.0, a=0.0, finite_activity=True, finite_variation=True)
    try:
        cmc = CMC.CouplingMarkovChain(model, SamplingMethod.INVERSION, grid)
        cmc.initialisation(StubProduct(times=TIMES))
        cmc.next_level(mc_paths=0, path_managers=[StubPathManager()], product=StubProduct(times=np.array([0.0, 1.0, 2.0, 3.0])))
    except ZeroDivisionError:
        raise PathAbort()
    sim = cmc._path_coupling_simulation
    fine_axis, piv = grid.axes[0], grid.origin_coordinate.value
    incs = [[], [1], [-1, 2]]
    conv = (lambda x: list(x)) if kind == "list" else (lambda x: np.array(x, dtype=int))
    values = []
    for sl in incs:
        v = np.empty(len(sl), dtype=object)
        run = 0.0
        for k, i in enumerate(sl):
            run = run + fine_axis[piv + i]
            v[k] = run
        values.append(v)

    class _PS:
        def simulate_markov_chain(self_inner):
            return MC.MarkovChain(np.array([1.0, 2.0, 3.0]), values, [conv(sl) for sl in incs])

    cmc.fine_process._path_simulation = _PS()
    outcomes = [ctx.bool(f"right{k}") for k in range(3)]
    decided = [bool(o) for o in outcomes]
    cmc.uniform = type("U", (), {"sample": lambda self_inner, size=1: ScriptedUniform([decided.pop(0)])})()
    rp = (replay_slices, lambda m: {})
    info = {"increments": kind}
    try:
        fine, coarse = sim.simulate_jumps_with_coupling()
    except ZeroDivisionError:
        raise PathAbort()  # a fine cell of zero mass is never visited (the coupling divides by the cell mass)
    except (ValueError, TypeError) as e:
        ctx.prove("C03.coupled_dates_assembly_accepts_the_samplers_output", False, info=dict(info, raised=f"{type(e).__name__}: {str(e)[:100]}"), replay=rp)
        return
    ctx.prove("C03.coupled_dates_assembly_accepts_the_samplers_output", True)
    used = [bool(o) for o in outcomes]
    want_c = [0.0]
    # slice [1]: odd -> right or left neighbour
    c1 = fine_axis[piv + 2] if used[0] else fine_axis[piv]
    want_c.append(c1)
    # slice [-1, 2]: odd then even
    c2 = (fine_axis[piv] if used[1] else fine_axis[piv - 2]) + fine_axis[piv + 2]
    want_c.append(c2)
    want_f = [0.0, fine_axis[piv + 1], fine_axis[piv - 1] + fine_axis[piv + 2]]
    ctx.prove("C03.coupled_dates_fine_value_is_last_cumulated_value", AND(*[EQ(fine[k], want_f[k]) for k in range(3)]), info=info, replay=rp)
    ctx.prove("C03.coupled_dates_coarse_value_is_last_cumulated_coupled_value", AND(*[EQ(coarse[k], want_c[k]) for k in range(3)]), info=info, replay=rp)


def _prove_ratio(ctx, oid, prob, rate, target, info, rp, regions=None, timeout_ms=None):
    """prob * rate == target for a fine cell of positive mass, where prob is a ratio of masses: cross-multiplied so that no
    division reaches the solver (num * rate == target * den, den != 0)."""
    num, den = M.frac(prob)
    poly = z3.simplify(num * rate - target * den, som=True)
    ctx.prove(oid, IMPLIES(SymBool(rate > 0), AND(SymBool(den != 0), SymBool(poly == 0))), info=info, replay=rp, regions=regions, timeout_ms=timeout_ms)


# ---- copula coupling


def replay_copula(sc):
    """HEM x CGMY margins, Clayton copula, 3x3 -> 5x5: coupled coarse rates vs coarse chain rates"""
    import rpylib.model.levymodel.mixed.hem as HEM
    from rpylib.distribution.levycopula import ClaytonCopula

    ms = [HEM.HEMModel(HEM.HEMParameters(sigma=0.1, p=0.4, eta1=20.0, eta2=25.0, intensity=3.0)),
          HEM.HEMModel(HEM.HEMParameters(sigma=0.1, p=0.6, eta1=15.0, eta2=30.0, intensity=2.0))]
    lcm = LCM.LevyCopulaModel(models=ms, copula=ClaytonCopula(theta=2.0, eta=0.5))
    h = 0.1
    axis = np.array([-h, 0.0, h])
    grid = GS.CTMCGrid(h=h, origin_coordinate=1, axes=[axis.copy(), axis.copy()])
    cp = CLC.CouplingProcessLevyCopula(lcm, grid, SamplingMethod.INVERSION)
    coarse_axes = [ax.copy() for ax in grid.axes]
    coarse_rate = {}
    lam_c = cp.fine_process.intensity_of_jumps
    for st in itertools.product(range(3), repeat=2):
        if st == (1, 1):
            continue
        coarse_rate[st] = cp.fine_process.sampling.probability_to_jump_to_state((st[0] - 1, st[1] - 1)) * lam_c
    cp.next_level(mc_paths=0, path_managers=None, product=StubProduct(times=TIMES))
    sim = cp._path_coupling_simulation
    lam_f = cp.fine_process.intensity_of_jumps
    got = {k: 0.0 for k in coarse_rate}
    got[(1, 1)] = 0.0
    n = 400
    for st in itertools.product(range(5), repeat=2):
        if st == (2, 2):
            continue
        inc = (st[0] - 2, st[1] - 2)
        qf = cp.fine_process.sampling.probability_to_jump_to_state(inc) * lam_f
        if all(i % 2 == 0 for i in inc):
            got[(st[0] // 2, st[1] // 2)] += qf
            continue
        cnt = {}
        saved = cp._uniform.sample
        for k in range(n):
            cp._uniform.sample = lambda size=1, k=k: np.array([(k + 0.5) / n])
            val = sim._CouplingLevyCopulaSimulation__coupling_state(inc)
            key = tuple(int(np.argmin(np.abs(coarse_axes[i] - val[i]))) for i in range(2))
            cnt[key] = cnt.get(key, 0) + 1
        cp._uniform.sample = saved
        for key, c in cnt.items():
            got[key] += qf * c / n
    details = []
    for st, want in coarse_rate.items():
        if abs(got[st] - want) > 5e-3 * max(want, 1e-3) + 1e-4:
            details.append(f"coarse state {tuple(coarse_axes[i][st[i]] for i in range(2))}: coupled rate {got[st]:.5f} vs coarse chain rate {want:.5f}")
    return bool(details), "HEM x HEM, Clayton(2, 0.5), 3x3 -> 5x5: " + ("; ".join(details[:3]) if details else "rates agree")


def _Uc(models, i, x):
    nu = models[i].levy_triplet.nu
    if isinstance(x, float) and x in (INF, -INF):
        return z3.RealVal(0)
    if bool(x < 0):
        return -nu.neg_term(0, -INF, x)
    return nu.pos_term(0, x, INF)


# "after_*": the same simulation object has already coupled increments of another parity class (the coupling of an increment does not
# depend on what was coupled before)
def replay_copula_sequence(sc):
    """real copula coupling (HEM x HEM, Clayton) on a fresh simulation object: the fine increments `incs` are coupled one after the other
    (several uniforms each); every coupled value copies the even coordinates and sits on an adjacent coarse state in the odd ones"""
    import rpylib.model.levymodel.mixed.hem as HEM
    from rpylib.distribution.levycopula import ClaytonCopula

    ms = [HEM.HEMModel(HEM.HEMParameters(sigma=0.1, p=0.4, eta1=20.0, eta2=25.0, intensity=6.0)),
          HEM.HEMModel(HEM.HEMParameters(sigma=0.1, p=0.6, eta1=15.0, eta2=30.0, intensity=5.0))]
    lcm = LCM.LevyCopulaModel(models=ms, copula=ClaytonCopula(theta=2.0, eta=0.5))
    h = 0.1
    axis = np.array([-h, 0.0, h])
    grid = GS.CTMCGrid(h=h, origin_coordinate=1, axes=[axis.copy(), axis.copy()])
    cp = CLC.CouplingProcessLevyCopula(lcm, grid, SamplingMethod.INVERSION)
    coarse = [np.array(ax, dtype=float) for ax in grid.axes]
    cp.next_level(mc_paths=0, path_managers=None, product=StubProduct(times=TIMES))
    sim = cp._path_coupling_simulation
    fa, piv = grid.axes, grid.origin_coordinate
    bad = []
    saved = cp._uniform.sample
    try:
        for inc in [tuple(i) for i in sc["incs"]]:
            for u in (0.05, 0.35, 0.65, 0.95):
                cp._uniform.sample = lambda size=1, u=u: np.array([u])
                val = np.asarray(sim._CouplingLevyCopulaSimulation__coupling_state(tuple(inc)), dtype=float)
                for i in range(2):
                    x = float(fa[i][piv[i] + inc[i]])
                    if inc[i] % 2 == 0:
                        if abs(val[i] - x) > 1e-12:
                            bad.append(f"increment {inc} (u={u}): even coordinate {i} is {val[i]!r}, the fine state is {x!r}")
                    else:
                        near = sorted(coarse[i], key=lambda c: abs(c - x))[:2]
                        if min(abs(val[i] - c) for c in near) > 1e-12:
                            bad.append(f"increment {inc} (u={u}): odd coordinate {i} moved to {val[i]!r}, adjacent coarse states are {sorted(float(c) for c in near)}")
    finally:
        cp._uniform.sample = saved
    return bool(bad), f"HEM x HEM, Clayton(2, 0.5), 3x3 -> 5x5, increments coupled in the order {sc['incs']}: " + ("; ".join(bad[:3]) if bad else "copied / moved to adjacent coarse states")


INCS = {"after_eo": [(2, 1), (1, 1)], "after_oe": [(-1, 2), (-1, -1)], "after_ee": [(2, -2), (1, -1)],
        "oo": [(1, 1), (-1, 1), (1, -1), (-1, -1)], "oe": [(1, 2), (-1, 2), (1, -2), (-1, 0)], "eo": [(2, 1), (-2, -1), (0, 1)], "ee": [(2, 2), (-2, 2), (0, 2), (2, 0)]}


def h_copula(ctx, parity, which=None):
    """2-d, coarse 3x3 -> fine 5x5; one fine increment per parity class: 'oo' (both odd), 'oe', 'eo', 'ee'"""
    from .c01_rates import oracle_mass

    d, npts = 2, 1
    axis, h, pivot = sym_axis(ctx, npts, npts, name="x0")
    grid = make_grid(h, pivot, [axis, axis])
    models = [A.abs_levy_model(ctx, f"nu{i}", sigma=0.0, a=0.0, finite_activity=False, finite_variation=True) for i in range(d)]
    cop = A.AbsCopula(ctx, "F", d)
    lcm = LCM.LevyCopulaModel(models=models, copula=cop)
    try:
        cp = CLC.CouplingProcessLevyCopula(lcm, grid, SamplingMethod.INVERSION)
        coarse_axes = [list(ax) for ax in grid.axes]
        cp.next_level(mc_paths=0, path_managers=None, product=StubProduct(times=TIMES))
    except ZeroDivisionError:
        raise PathAbort()
    sim = cp._path_coupling_simulation
    piv = grid.origin_coordinate
    fa = grid.axes
    fcs = [cells(ax, piv[i]) for i, ax in enumerate(fa)]
    rp = (replay_copula, lambda m: {})
    incs = INCS[parity] if which is None else [INCS[parity][which]]
    rps = (replay_copula_sequence, lambda m: {"incs": [list(i) for i in incs]})
    for inc in incs:
        pos = tuple(piv[i] + inc[i] for i in range(d))
        if all(i % 2 == 0 for i in inc):
            val = sim._CouplingLevyCopulaSimulation__coupling_state(inc)
            ok = all(_key(val[i]) == _key(fa[i][pos[i]]) for i in range(d))
            ctx.prove("C03.copula.even_increment_copied_unchanged", ok, info={"inc": inc}, replay=rps)
            continue
        # rate of the fine state (real C01 code path is exercised in C01; here the oracle mass of its full cell)
        central = [(fa[i][piv[i] - 1] / 2, fa[i][piv[i] + 1] / 2) for i in range(d)]
        lo = [fcs[i][pos[i]][0] if pos[i] != piv[i] else central[i][0] for i in range(d)]
        hi = [fcs[i][pos[i]][1] if pos[i] != piv[i] else central[i][1] for i in range(d)]
        qf = oracle_mass(models, cop, lo, hi, None)
        mixed = any(i % 2 == 0 for i in inc)
        nodd = sum(1 for i in inc if i % 2)
        ncorner = 2**nodd
        saved = cp._uniform.sample
        for k in range(ncorner + 1):
            su = ScriptedUniform([False] * k + ([True] if k < ncorner else []))
            cp._uniform.sample = lambda size=1, su=su: su
            val = exc = None
            try:
                try:
                    val = sim._CouplingLevyCopulaSimulation__coupling_state(inc)
                except ZeroDivisionError:
                    continue
                except ValueError as e:
                    exc = e
            finally:
                cp._uniform.sample = saved
            th = [V.term_of(t) for t in su.thresholds]
            if exc is not None:
                # the 'numerical error' exit is taken when u exceeds the last cumulative probability: it must be exactly 1
                _prove_ratio(ctx, "C03.copula.corner_probabilities_sum_to_one", 1 - th[-1], qf, z3.RealVal(0), {"inc": inc}, rp,
                             regions={"increment_with_even_and_odd_coordinates": mixed})
                continue
            prob = th[k] - (th[k - 1] if k else z3.RealVal(0))
            js = [_match(val[i], coarse_axes[i]) for i in range(d)]
            adj = all(js[i] is not None and (js[i] == pos[i] // 2 if inc[i] % 2 == 0 else js[i] in ((pos[i] - 1) // 2, (pos[i] + 1) // 2)) for i in range(d))
            ctx.prove("C03.copula.odd_coordinates_move_to_adjacent_coarse_states", adj, info={"inc": inc}, replay=rps)
            if not adj:
                continue
            # sub-cell sent to this corner: odd coordinates -> the half cell on the corner's side, even coordinates -> the whole fine cell
            slo, shi = list(lo), list(hi)
            for i in range(d):
                if inc[i] % 2:
                    if js[i] == (pos[i] + 1) // 2:
                        slo[i] = fa[i][pos[i]]
                    else:
                        shi[i] = fa[i][pos[i]]
            sub = oracle_mass(models, cop, slo, shi, None)
            _prove_ratio(ctx, "C03.copula.transfer_probability_times_rate_is_subcell_mass", prob, qf, sub, {"inc": inc, "corner": js}, rp,
                         regions={"increment_with_even_and_odd_coordinates": mixed}, timeout_ms=5000 if mixed else None)


def replay_copula_slices(sc):
    """real copula coupling (HEM x HEM, Clayton), jump-time mode: every coarse value is the running sum of the coupled increments, each of
    which is the simultaneous fine jump copied (even) or moved to an adjacent coarse state (odd)"""
    import rpylib.model.levymodel.mixed.hem as HEM
    from rpylib.distribution.levycopula import ClaytonCopula

    ms = [HEM.HEMModel(HEM.HEMParameters(sigma=0.1, p=0.4, eta1=20.0, eta2=25.0, intensity=6.0)),
          HEM.HEMModel(HEM.HEMParameters(sigma=0.1, p=0.6, eta1=15.0, eta2=30.0, intensity=5.0))]
    lcm = LCM.LevyCopulaModel(models=ms, copula=ClaytonCopula(theta=2.0, eta=0.5))
    h = 0.1
    axis = np.array([-2 * h, -h, 0.0, h, 2 * h])
    grid = GS.CTMCGrid(h=h, origin_coordinate=2, axes=[axis.copy(), axis.copy()])
    cp = CLC.CouplingProcessLevyCopula(lcm, grid, SamplingMethod.INVERSION)
    coarse = set(np.round(axis, 12))
    cp.next_level(mc_paths=0, path_managers=None, product=StubProduct(times=TIMES))
    sim = cp._path_coupling_simulation
    fine_axis = grid.axes[0]
    piv = grid.origin_coordinate
    incs = [(2, -2), (-2, 4), (4, 2)]
    vals = sim._coupling_states_for_a_slice(list(incs))
    bad = []
    run = np.zeros(2)
    for k, inc in enumerate(incs):
        run = run + np.array([fine_axis[piv[0] + inc[0]], fine_axis[piv[1] + inc[1]]])
        if not np.allclose(np.asarray(vals[k], dtype=float), run, atol=1e-12):
            bad.append(f"after jump {k + 1} the coarse value is {np.asarray(vals[k]).tolist()}, the running sum of the (copied) increments is {run.tolist()}")
    return bool(bad), f"copula coupling, slice of even fine increments {incs} on the refined axis {np.round(fine_axis, 3).tolist()}: " + "; ".join(bad)


def replay_coupled_jumptimes(sc):
    """real coupled chain (HEM, inversion), jump-time mode, 300 paths: both components of the path end, at maturity, on the value they
    had after the last jump, and start at 0"""
    from rpylib.product.payoff import PayoffDates

    model = concrete_models()["hem"]
    h = 0.1
    axis = np.array([-2 * h, -h, 0.0, h, 2 * h])
    grid = GS.CTMCGrid(h=h, origin_coordinate=2, axes=[axis.copy()])
    cmc = CMC.CouplingMarkovChain(model, SamplingMethod.INVERSION, grid)
    prod = StubProduct(kind=PayoffDates.STOCHASTIC, times=TIMES)
    cmc.initialisation(prod)
    cmc.next_level(mc_paths=300, path_managers=[StubPathManager()], product=prod)
    st = np.random.get_state()
    np.random.seed(5)
    bad = []
    try:
        for _ in range(300):
            p = cmc.simulate_one_path_with_coupling()
            J = np.asarray(p.jump_path, dtype=float)
            if J.shape[1] >= 3 and (abs(J[0, -1] - J[0, -2]) > 1e-12 or abs(J[1, -1] - J[1, -2]) > 1e-12 or abs(J[0, 0]) + abs(J[1, 0]) > 0):
                bad.append(f"jump path (fine, coarse) = {J.round(4).tolist()}: the value at maturity differs from the value after the last jump")
                break
    finally:
        np.random.set_state(st)
    return bool(bad), "HEM, coarse grid of 5 states refined once, jump-time mode: " + "; ".join(bad)


def h_coupled_jumptimes(ctx, prefix="C03"):
    """assembly of the coupled path in jump-time mode from a scripted fine chain (three jumps in one interval): times = [0, jump times, T];
    each component starts at 0, follows its own cumulated values and repeats its own last value at maturity"""
    from rpylib.product.payoff import PayoffDates

    axis, h, pivot = sym_axis(ctx, 1, 1)
    grid = make_grid(h, pivot, [axis])
    model = A.abs_levy_model(ctx, "nu", sigma=0.0, a=0.0, finite_activity=True, finite_variation=True)
    T = ctx.real("T")
    try:
        cmc = CMC.CouplingMarkovChain(model, SamplingMethod.INVERSION, grid)
        prod = StubProduct(kind=PayoffDates.STOCHASTIC, maturity=T, times=np.array([0.0, T], dtype=object))
        cmc.initialisation(prod)
        cmc.next_level(mc_paths=0, path_managers=[StubPathManager()], product=prod)
    except ZeroDivisionError:
        raise PathAbort()
    sim = cmc._path_coupling_simulation
    fine_axis, piv = grid.axes[0], grid.origin_coordinate.value
    incs = [2, 1, -2]  # the odd increment is moved to a neighbouring coarse state: the two components differ from the second jump on
    right = ctx.bool("right")
    decided = [bool(right)]
    cmc.uniform = type("U", (), {"sample": lambda self_inner, size=1: ScriptedUniform([decided[0]])})()
    times = [ctx.real(f"tau{k}") for k in range(3)]
    ctx.assume(AND(times[0] > 0, times[1] > times[0], times[2] > times[1], T > times[2]))
    vals = np.empty(3, dtype=object)
    run = 0.0
    for k, i in enumerate(incs):
        run = run + fine_axis[piv + i]
        vals[k] = run

    class _PS:
        def simulate_markov_chain(self_inner):
            return MC.MarkovChain(np.array(times, dtype=object), [vals], [list(incs)])

    cmc.fine_process._path_simulation = _PS()
    shims.RNG.reset()
    rp = (replay_coupled_jumptimes, lambda m: {})
    try:
        path = sim.simulate_one_path_with_coupling()
    except ZeroDivisionError:
        raise PathAbort()
    tt, J = path.times(), path.jump_path
    ctx.prove(f"{prefix}.coupled_jumptimes.times_are_zero_jump_times_maturity", AND(len(tt) == 5, EQ(tt[0], 0), *[EQ(tt[k + 1], times[k]) for k in range(3)], EQ(tt[4], T)), replay=rp)
    ok = np.shape(J) == (2, 5)
    ctx.prove(f"{prefix}.coupled_jumptimes.components_aligned_with_times", ok, replay=rp)
    if ok:
        want = [0.0, vals[0], vals[1], vals[2], vals[2]]
        c1 = fine_axis[piv + 2]
        c2 = c1 + (fine_axis[piv + 2] if decided[0] else fine_axis[piv])
        c3 = c2 + fine_axis[piv - 2]
        want_c = [0.0, c1, c2, c3, c3]
        ctx.prove(f"{prefix}.coupled_jumptimes.fine_component_follows_its_values_and_repeats_the_last", AND(*[EQ(J[0, k], want[k]) for k in range(5)]), replay=rp)
        ctx.prove(f"{prefix}.coupled_jumptimes.coarse_component_follows_its_values_and_repeats_the_last", AND(*[EQ(J[1, k], want_c[k]) for k in range(5)]), replay=rp)


def h_copula_slices(ctx):
    """several fine jumps inside one interval (copula coupling): the coarse values handed back are the running sums, one per jump"""
    d, npts = 2, 1
    axis, h, pivot = sym_axis(ctx, npts, npts, name="x0")
    grid = make_grid(h, pivot, [axis, axis])
    models = [A.abs_levy_model(ctx, f"nu{i}", sigma=0.0, a=0.0, finite_activity=False, finite_variation=True) for i in range(d)]
    cop = A.AbsCopula(ctx, "F", d)
    lcm = LCM.LevyCopulaModel(models=models, copula=cop)
    try:
        cp = CLC.CouplingProcessLevyCopula(lcm, grid, SamplingMethod.INVERSION)
        cp.next_level(mc_paths=0, path_managers=None, product=StubProduct(times=TIMES))
    except ZeroDivisionError:
        raise PathAbort()
    sim = cp._path_coupling_simulation
    piv = grid.origin_coordinate
    fa = grid.axes
    incs = [(2, -2), (-2, 0), (0, 2)]
    rp = (replay_copula_slices, lambda m: {})
    vals = sim._coupling_states_for_a_slice(list(incs))
    ctx.prove("C03.copula.slice_has_one_coarse_value_per_fine_jump", len(vals) == len(incs), replay=rp)
    run = [0.0, 0.0]
    conds = []
    for k, inc in enumerate(incs):
        run = [run[i] + fa[i][piv[i] + inc[i]] for i in range(d)]
        conds += [EQ(vals[k][i], run[i]) for i in range(d)]
    ctx.prove("C03.copula.slice_coarse_values_are_running_sums_of_the_coupled_increments", AND(*conds), replay=rp)
    ctx.prove("C03.copula.empty_slice_has_no_values", len(sim._coupling_states_for_a_slice([])) == 0, replay=rp)


def h_twin(ctx):
    """sensitivity twin: a right-jump probability computed from the wrong half cell must be caught"""
    axis, h, pivot = sym_axis(ctx, 1, 1)
    grid = make_grid(h, pivot, [axis])
    model = A.abs_levy_model(ctx, "nu", sigma=0.0, a=0.0, finite_activity=True)
    nu = model.levy_triplet.nu
    try:
        cmc = CMC.CouplingMarkovChain(model, SamplingMethod.INVERSION, grid)
        cmc.initialisation(StubProduct(times=TIMES))
        cmc.next_level(mc_paths=0, path_managers=None, product=StubProduct(times=TIMES))
    except ZeroDivisionError:
        raise PathAbort()
    fine_axis, piv = grid.axes[0], grid.origin_coordinate.value
    q_f = SF.create_q_vector(cmc.fine_process.model.levy_triplet.nu, grid)
    p = piv + 1
    ctx.assume(q_f[p] > 0)
    pr = cmc._path_coupling_simulation.probability_to_right_jump(grid, cmc.fine_process.model.mass, 1)
    lo, hi = cells(fine_axis, piv)[p]
    wrong_half = cell_mass_term(nu, p, piv, lo, fine_axis[p])  # left half instead of right half
    ctx.prove("C03.twin.wrong_half_cell", EQ(pr * q_f[p], SymReal(wrong_half)))


def concrete_validation():
    ok, detail = replay_1d({"nl": 2, "nr": 2})
    return [("C03.concrete.1d", not ok, "shimmed modules on floats: " + detail)]


def harnesses(tier):
    q = tier == "quick"
    hs = [Harness("concrete", concrete_validation, concrete=True)]
    shapes = [(1, 1, 1), (2, 1, 1)] if q else [(1, 1, 1), (2, 1, 1), (1, 2, 1), (2, 2, 1), (3, 3, 1), (1, 1, 2), (2, 1, 2)]
    for nl, nr, lv in shapes:
        for fa, fv in (((False, True),) if q else ((True, True), (False, True), (False, False))):
            hs.append(Harness(f"1d.{nl}.{nr}.L{lv}.fa{int(fa)}.fv{int(fv)}", h_1d, {"nl": nl, "nr": nr, "levels": lv, "fa": fa, "fv": fv}, max_paths=6000, batch=4))
    if q:  # two successive refinements with an infinite-variation driver (the coarse diffusion coefficient changes with the level)
        hs.append(Harness("1d.1.1.L2.fa0.fv0", h_1d, {"nl": 1, "nr": 1, "levels": 2, "fa": False, "fv": False}, max_paths=6000, batch=4))
    for kind in ("list", "array"):
        hs.append(Harness(f"slices.{kind}", h_slices, {"kind": kind}, max_paths=200))
    hs.append(Harness("copula.slices", h_copula_slices, max_paths=200))
    hs.append(Harness("coupled.jumptimes", h_coupled_jumptimes, max_paths=400))
    for par in ("ee", "oo", "oe", "eo"):
        for w in range(len(INCS[par])):
            if q and par in ("oe", "eo") and w > 0:
                continue
            hs.append(Harness(f"copula.{par}.{w}", h_copula, {"parity": par, "which": w}, max_paths=6000, batch=2))
    # the refinement of a coupled pair to a maximum time step (same harness as C15's, obligations reported here): both components keep
    # their own values at the inserted times
    from .c15_paths import h_finer

    hs.append(Harness("finer.coupling.2", h_finer, {"which": "coupling", "njumps": 2, "prefix": "C03"}, max_paths=20000, batch=20))
    for par in ("after_ee", "after_eo", "after_oe"):
        hs.append(Harness(f"copula.{par}", h_copula, {"parity": par}, max_paths=6000, batch=2))
    hs.append(Harness("twin", h_twin, twin="must_fail"))
    return hs


EXPECT = ["C03.copula.slice_coarse_values_are_running_sums_of_the_coupled_increments", "C03.coupled_dates_assembly_accepts_the_samplers_output", "C03.coupled_dates_coarse_value_is_last_cumulated_coupled_value", "C03.coarse_rate_preserved.1d", "C03.even_increment_copied_unchanged", "C03.odd_increment_moves_to_adjacent_coarse_state",
          "C03.transfer_probability_times_rate_is_half_cell_mass", "C03.coarse_diffusion_is_previous_fine", "C03.coarse_deterministic_path_is_previous_level",
          "C03.same_brownian_increments_drive_both", "C03.copula.transfer_probability_times_rate_is_subcell_mass",
          "C03.copula.even_increment_copied_unchanged", "C03.copula.corner_probabilities_sum_to_one",
          "C03.copula.odd_coordinates_move_to_adjacent_coarse_states"]


# reference replays run when the symbolic run of a harness ends in an exception of the code under analysis (see runner.run_check)
ERROR_REPLAYS = {"1d.": (replay_1d, {"nl": 2, "nr": 2}), "slices.": (replay_slices, {}), "copula.slices": (replay_copula_slices, {}),
                 "copula.": (replay_copula_sequence, {"incs": [[2, 1], [1, 1], [-1, 2], [-1, -1], [2, -2], [1, -1]]}),
                 "coupled.jumptimes": (replay_coupled_jumptimes, {})}


def main(tier):
    bounds = {"histories_and_variants": 'copula coupling: odd-odd increment after an even-odd / odd-even / even-even one on the same simulation object (one predecessor)',
              "1d": "coarse grids up to 2+1 points, 1 level and 1+1 points, 2 levels, infinite variation (quick); up to 3+3 points, 2 levels (thorough); finite/infinite activity and variation",
              "copula": "2-d, coarse 3x3 -> fine 5x5, every parity class of the fine increment",
              "outside": "CouplingSDE (its jump coupling is the one checked here; its Euler recursion is C16); 3-d coupling; vector-returning samplers"}
    return run_check(PID, tier, harnesses(tier), expect=EXPECT, bounds=bounds, error_replays=ERROR_REPLAYS,
                     assumptions=COMMON_ASSUMPTIONS + ["abstract measure / copula as in C01; fine cells of zero mass are never visited (the coupling divides by the cell mass)",
                                                       "the global coarse-rate identity in n-d follows from the local sub-cell identities by the tiling (C01) and additivity (C12) obligations"])


if __name__ == "__main__":
    sys.exit(main(sys.argv[1] if len(sys.argv) > 1 else "quick"))
