"""C01 - CTMC jump rates are the Lévy-measure masses of the grid cells (1-d and copula).

The real chain constructors (MarkovChainProcess / MarkovChainLevyCopula), compute_intensity_of_jumps, create_q_vector, the
inversion-sampler probability function, the adapted binary search trees and the grid cell helpers run on a symbolic grid and an
abstract additive Lévy measure / abstract Lévy copula; the oracle (cells and their masses) is written from the definition.
"""
import copy
from fractions import Fraction
import itertools
import sys

import numpy as np

from .chain_common import *  # noqa
from .chain_common import (z3, V, shims, A, SF, GS, MC, MCLC, LCM, BSTA, P, SamplingMethod, LevyRepresentation, sym_axis, make_grid, cells,
                           cell_mass_term, concrete_models, quad_mass, SymReal, SymBool, AND, OR, NOT, EQ, IMPLIES, INF, Unsupported)
from .common import Harness, run_check, COMMON_ASSUMPTIONS, PathAbort
from symx import measure as M

PID = "C01"


# --------------------------------------------------------------------------------------
# replay on the library's own models


def _canon_axis(nl, nr, vals=None):
    if vals is not None:
        try:
            v = [float(x) for x in vals]
            if all(b > a for a, b in zip(v, v[1:])) and max(abs(x) for x in v) < 5 and min(abs(x) for x in v if x != 0) > 1e-3:
                return np.array(v)
        except Exception:
            pass
    h = 0.1
    left = [-h * (1.7**i) for i in range(nl)][::-1]
    right = [h * (1.6**i) for i in range(nr)]
    return np.array(left + [0.0] + right)


def replay_1d(sc):
    nl, nr, refine = sc["nl"], sc["nr"], sc.get("refine", 0)
    details = []
    for vals in (sc.get("axis"), None):
        axis = _canon_axis(nl, nr, vals)
        for name, model in concrete_models().items():
            grid = GS.CTMCGrid(h=float(-axis[nl - 1]) if False else float(axis[nl + 1]), origin_coordinate=nl, axes=[axis.copy()])
            for _ in range(refine):
                if sc.get("reuse"):
                    MC.MarkovChainProcess(model, SamplingMethod.INVERSION, grid)
                grid.refine()
            proc = MC.MarkovChainProcess(model, SamplingMethod.INVERSION, grid)
            nu_t = proc.model.levy_triplet.nu
            q = SF.create_q_vector(nu_t, grid)
            ax, piv = grid.axes[0], grid.origin_coordinate.value
            dens = model.levy_triplet.nu
            tot = 0.0
            for k, (lo, hi) in cells(ax, piv).items():
                want = quad_mass(dens, float(lo), float(hi))
                tot += want
                if abs(q[k] - want) > 1e-6 * max(1.0, abs(want)):
                    details.append(f"{name}: axis={ax.round(4).tolist()} state {k}: rate {q[k]!r} vs mass of its cell [{lo:.4f},{hi:.4f}] = {want!r}")
                p = proc.sampling.probability_to_jump_to_state(k - piv) * proc.intensity_of_jumps
                if abs(p - want) > 1e-6 * max(1.0, abs(want)):
                    details.append(f"{name}: inversion probability*intensity of state {k} = {p!r} vs cell mass {want!r}")
            if abs(tot - proc.intensity_of_jumps) > 1e-6 * max(1.0, tot):
                details.append(f"{name}: intensity {proc.intensity_of_jumps!r} vs sum of cell masses {tot!r}")
            if abs(tot - proc.intensity()) > 1e-6 * max(1.0, tot):
                details.append(f"{name}: process.intensity() (rate of the Poisson clock) {proc.intensity()!r} vs sum of cell masses {tot!r}")
            if abs(q[piv]) > 0:
                details.append(f"{name}: origin has rate {q[piv]}")
        if details:
            break
    return bool(details), "; ".join(details[:3]) if details else "rates equal cell masses on HEM/CGMY"


def scen_1d(ctx, nl, nr, refine, axis0, reuse=False):
    def b(m):
        return {"nl": nl, "nr": nr, "refine": refine, "reuse": reuse, "axis": [m.f(x) if V.is_sym(x) else float(x) for x in axis0]}

    return b


# --------------------------------------------------------------------------------------


def h_1d(ctx, nl, nr, refine=0, fa=False, fv=True, reuse=False):
    """reuse: the same grid object serves a chain at every level before it is refined again (what the couplings' next_level does)"""
    axis, h, pivot = sym_axis(ctx, nl, nr)
    axis0 = list(axis)
    grid = make_grid(h, pivot, [axis])
    sigma = ctx.real("sigma", 0)
    a = ctx.real("a")
    model = A.abs_levy_model(ctx, "nu", sigma=sigma, a=a, finite_activity=fa, finite_variation=fv)
    nu = model.levy_triplet.nu
    for _ in range(refine):
        if reuse:
            try:
                MC.MarkovChainProcess(model, SamplingMethod.INVERSION, grid)
            except ZeroDivisionError:
                raise PathAbort()
        grid.refine()
    try:
        proc = MC.MarkovChainProcess(model, SamplingMethod.INVERSION, grid)
    except ZeroDivisionError:
        raise PathAbort()  # measures with zero jump intensity on the grid are outside (the library divides by the intensity)
    lam = proc.intensity_of_jumps
    nu_t = proc.model.levy_triplet.nu
    q = SF.create_q_vector(nu_t, grid)
    ax, piv = grid.axes[0], grid.origin_coordinate.value
    rp = (replay_1d, scen_1d(ctx, nl, nr, refine, axis0, reuse))
    info = {"nl": nl, "nr": nr, "refine": refine, "reuse": reuse}
    cs = cells(ax, piv)
    total = z3.RealVal(0)
    for k, (lo, hi) in cs.items():
        want = cell_mass_term(nu, k, piv, lo, hi)
        total = total + want
        ctx.prove("C01.rate_is_cell_mass.1d", EQ(q[k], SymReal(want)), info=dict(info, state=k), replay=rp)
        ctx.prove("C01.rate_nonneg.1d", q[k] >= 0, info=dict(info, state=k), replay=rp)
    ctx.prove("C01.origin_has_no_rate.1d", EQ(q[piv], 0), replay=rp)
    ctx.prove("C01.sum_of_rates_is_intensity.1d", EQ(lam, SymReal(total)), info=info, replay=rp)
    # the rate of the Poisson clock the simulators use (LevyProcess.nb_jump_dt / jump times read process.intensity())
    ctx.prove("C01.poisson_clock_rate_is_sum_of_rates.1d", EQ(proc.intensity(), SymReal(total)), info=info, replay=rp)
    # tiling, from the grid's own cell helpers
    lows, highs = {}, {}
    for k in cs:
        lows[k] = grid.middle(grid.left_point(k), ax[k])
        highs[k] = grid.middle(ax[k], grid.right_point(k))
        ctx.prove("C01.state_inside_its_cell.1d", AND(lows[k] <= ax[k], ax[k] <= highs[k]), info=dict(info, state=k), replay=rp)
    ks = sorted(cs)
    for k1, k2 in zip(ks, ks[1:]):
        if k1 + 1 == k2:
            ctx.prove("C01.cells_tile_without_gap_or_overlap.1d", EQ(highs[k1], lows[k2]), info=dict(info, state=k1), replay=rp)
    ctx.prove("C01.cells_end_at_truncation.1d", AND(EQ(lows[ks[0]], ax[0]), EQ(highs[ks[-1]], ax[len(ax) - 1])), replay=rp)
    ctx.prove("C01.central_cell_is_the_gap.1d", AND(EQ(highs[piv - 1], ax[piv - 1] / 2), EQ(lows[piv + 1], ax[piv + 1] / 2)), replay=rp)
    # the inversion sampler's probability function
    ctx.assume(lam > 0)
    for k, (lo, hi) in cs.items():
        p = proc.sampling.probability_to_jump_to_state(k - piv)
        ctx.prove("C01.inversion_probability_times_intensity_is_cell_mass.1d", EQ(p * lam, SymReal(cell_mass_term(nu, k, piv, lo, hi))),
                  info=dict(info, state=k), replay=rp)


class WeightedMiddleGrid(GS.CTMCGrid):
    """a grid that defines its cell boundaries itself, like CTMCGridProbabilityStep does (there: the point that halves the jump probability of
    the gap): here the point x + w (y - x) with a weight w the solver chooses; next to the origin the boundary is -h/2 / h/2 as in the library"""

    def __init__(self, w, **kw):
        super().__init__(**kw)
        self._w = w

    def middle(self, xi, xip):
        if not V.is_sym(xi) and xi == 0:
            return self.h / 2
        if not V.is_sym(xip) and xip == 0:
            return -self.h / 2
        return xi + self._w * (xip - xi)


def replay_bsta1d_own_cells(sc):
    """real HEM model on the real probability-step grid (its middle() is the probability mid point of a gap): law of the adapted tree over a
    fine grid of uniforms against rate / intensity of the same chain's q-vector (which uses the grid's own cell boundaries)"""
    model = concrete_models()["hem"]
    grid = GS.CTMCGridProbabilityStep(h=0.05, model=model, minimum_probability_step=0.1)
    proc = MC.MarkovChainProcess(model, SamplingMethod.BINARYSEARCHTREEADAPTED1D, grid)
    q = np.asarray(SF.create_q_vector(proc.model.levy_triplet.nu, grid), dtype=float) / float(proc.intensity_of_jumps)
    piv, n = grid.origin_coordinate.value, 100000
    cnt = np.zeros(len(q))
    for j in range(n):
        cnt[int(proc.sampling.sample_with_u((j + 0.5) / n)) + piv] += 1
    diff = np.abs(cnt / n - q)
    k = int(np.argmax(diff))
    return bool(diff[k] > 2e-3), (f"HEM on CTMCGridProbabilityStep(h=0.05, minimum_probability_step=0.1), {len(q)} states: the adapted tree sends measure {cnt[k] / n:.4f} of the "
                                  f"uniforms to state {k - piv}, the chain's rate / intensity for that state is {q[k]:.4f} (largest difference {diff[k]:.4f})")


def h_bsta1d(ctx, nl, nr, fa=False, lam_value=1, history=False, prefix="C01", own_cells=False):
    """adapted binary search tree (1-d): the u-measure of every state equals rate/intensity (C02 at chain level).
    history: another chain (another model, same grid) was built and sampled from earlier in the same interpreter"""
    axis, h, pivot = sym_axis(ctx, nl, nr)
    axis0 = list(axis)
    grid = make_grid(h, pivot, [axis])
    if own_cells:
        # the grid defines its own cell boundaries (weight w instead of 1/2): rates and samplers must both use the grid's cells
        w = ctx.real("middle_weight", 0, 1, lo_strict=True, hi_strict=True)
        grid = WeightedMiddleGrid(w, h=h, origin_coordinate=pivot, axes=[axis])
    if history:
        earlier = A.abs_levy_model(ctx, "mu", sigma=0.0, a=0.0, finite_activity=fa, finite_variation=True)
        try:
            pe = MC.MarkovChainProcess(earlier, SamplingMethod.BINARYSEARCHTREEADAPTED1D, grid)
            ctx.assume(EQ(pe.intensity_of_jumps, 2))
            pe.sampling.sample_with_u(ctx.real("u_earlier", 0, 1, hi_strict=True))
        except ZeroDivisionError:
            raise PathAbort()
    model = A.abs_levy_model(ctx, "nu", sigma=0.0, a=0.0, finite_activity=fa, finite_variation=True)
    nu = model.levy_triplet.nu
    try:
        proc = MC.MarkovChainProcess(model, SamplingMethod.BINARYSEARCHTREEADAPTED1D, grid)
    except ZeroDivisionError:
        raise PathAbort()
    lam = proc.intensity_of_jumps
    # the sampler only uses ratios mass/intensity: the intensity is pinned to a concrete positive value (two different values are
    # explored) so that the u-measure obligations stay linear for the solver
    ctx.assume(EQ(lam, lam_value))
    smp = proc.sampling
    ax, piv = grid.axes[0], grid.origin_coordinate.value
    cs = cells(ax, piv)
    if own_cells:
        nn = len(ax)
        cs = {k: (ax[0] if k == 0 else grid.middle(ax[k - 1], ax[k]), ax[nn - 1] if k == nn - 1 else grid.middle(ax[k], ax[k + 1])) for k in range(nn) if k != piv}
    u = ctx.real("u", 0, 1, hi_strict=True)

    def one():
        s = copy.copy(smp)
        clear = getattr(BSTA.BinarySearchTreeAdapted1D._compute_probability, "cache_clear", None)
        if clear is not None:
            clear()
        return int(s.sample_with_u(u))

    leaves = ctx.enumerate(one)
    rp = (replay_bsta1d, scen_1d(ctx, nl, nr, 0, axis0)) if not own_cells else (replay_bsta1d_own_cells, lambda m: {})
    for cons, val, exc in leaves:
        if exc is not None:
            ctx.prove(f"{prefix}.adapted_tree_1d.sampling_does_not_raise", False, info={"raised": repr(exc)[:200]}, replay=rp)
            return
    meas = M.state_measures(leaves, V.to_term(u))
    for k, (lo, hi) in cs.items():
        want = cell_mass_term(nu, k, piv, lo, hi)
        got = meas.get(k - piv, z3.RealVal(0))
        ctx.prove(f"{prefix}.adapted_tree_1d.measure_times_intensity_is_cell_mass", SymBool(got * V.term_of(lam) == want), info={"state": k, "history": history}, replay=rp)
    other = [v for k, v in meas.items() if not (isinstance(k, int) and (k + piv) in cs)]
    ctx.prove(f"{prefix}.adapted_tree_1d.never_origin_or_outside", SymBool(z3.And(*[o == 0 for o in other])) if other else True, replay=rp)


def h_factory_vector(ctx, nl, nr, method, lam_value=1):
    """vector samplers built by the public factory on a 1-d chain: measure of every state increment x intensity == cell mass,
    the origin (increment 0) and states outside the grid are never returned (C02 at chain level)"""
    axis, h, pivot = sym_axis(ctx, nl, nr)
    axis0 = list(axis)
    grid = make_grid(h, pivot, [axis])
    model = A.abs_levy_model(ctx, "nu", sigma=0.0, a=0.0, finite_activity=False, finite_variation=True)
    nu = model.levy_triplet.nu
    try:
        proc = MC.MarkovChainProcess(model, SamplingMethod[method], grid)
    except ZeroDivisionError:
        raise PathAbort()
    lam = proc.intensity_of_jumps
    ctx.assume(EQ(lam, lam_value))
    smp = proc.sampling
    ax, piv = grid.axes[0], grid.origin_coordinate.value
    cs = cells(ax, piv)
    u = ctx.real("u", 0, 1, hi_strict=True)
    if method == "BINARYSEARCHTREE":
        draw = lambda: int(smp.sample_with_u(u))
    elif method == "ALIAS":
        # the batch entry point the simulators call, with its uniform generator handing out u
        class _U:
            def sample(self, size=1):
                out = np.empty(size, dtype=object)
                out.fill(u)
                return out

        smp.uniform = _U()
        draw = lambda: int(np.asarray(smp.sample(size=1)).reshape(-1)[0])
    else:
        raise ValueError(method)
    leaves = ctx.enumerate(draw)
    rp = (replay_factory_vector, lambda m: {"nl": nl, "nr": nr, "method": method})
    for cons, val, exc in leaves:
        if exc is not None:
            ctx.prove("C01.factory_vector.sampling_does_not_raise", False, info={"raised": repr(exc)[:200]}, replay=rp)
            return
    meas = M.state_measures(leaves, V.to_term(u))
    for k, (lo, hi) in cs.items():
        want = cell_mass_term(nu, k, piv, lo, hi)
        got = meas.get(k - piv, z3.RealVal(0))
        ctx.prove("C01.factory_vector.measure_times_intensity_is_cell_mass", SymBool(got * V.term_of(lam) == want), info={"state": k, "method": method}, replay=rp)
    other = [v for k, v in meas.items() if not (isinstance(k, int) and (k + piv) in cs)]
    ctx.prove("C01.factory_vector.never_origin_or_outside", SymBool(z3.And(*[o == 0 for o in other])) if other else True, info={"method": method}, replay=rp)


def replay_factory_vector(sc):
    nl, nr, method = sc["nl"], sc["nr"], sc["method"]
    details = []
    axis = _canon_axis(nl, nr)
    for name, model in concrete_models().items():
        grid = GS.CTMCGrid(h=float(axis[nl + 1]), origin_coordinate=nl, axes=[axis.copy()])
        proc = MC.MarkovChainProcess(model, SamplingMethod[method], grid)
        smp = proc.sampling
        ax, piv = grid.axes[0], grid.origin_coordinate.value
        n = 20000
        cnt = {}
        for j in range(n):
            uu = (j + 0.5) / n
            if method == "BINARYSEARCHTREE":
                k = int(smp.sample_with_u(uu))
            else:
                class _U:
                    def sample(self, size=1, uu=uu):
                        return np.full(size, uu)

                smp.uniform = _U()
                try:
                    k = int(np.asarray(smp.sample(size=1)).reshape(-1)[0])
                except Exception as e:
                    return True, f"{name}: {method} sampler built by the factory: sample(size=1) raises {type(e).__name__}: {e}"
            cnt[k] = cnt.get(k, 0) + 1
        for k, (lo, hi) in cells(ax, piv).items():
            want = quad_mass(model.levy_triplet.nu, float(lo), float(hi)) / proc.intensity_of_jumps
            got = cnt.get(k - piv, 0) / n
            if abs(got - want) > 2e-3:
                details.append(f"{name}: {method} via the factory sends measure {got:.4f} of uniforms to state {k}, target probability {want:.4f}")
        if cnt.get(0, 0):
            details.append(f"{name}: {method}: the origin is sampled")
    return bool(details), "; ".join(details[:3]) if details else "measures equal probabilities on HEM/CGMY"


def replay_bsta1d(sc):
    nl, nr = sc["nl"], sc["nr"]
    details = []
    for vals in (sc.get("axis"), None):
        axis = _canon_axis(nl, nr, vals)
        for name, model in concrete_models().items():
            grid = GS.CTMCGrid(h=float(axis[nl + 1]), origin_coordinate=nl, axes=[axis.copy()])
            # history: a chain of another model on the same grid was built and sampled from before
            for other_name, other in concrete_models().items():
                if other_name != name:
                    pe = MC.MarkovChainProcess(other, SamplingMethod.BINARYSEARCHTREEADAPTED1D, grid)
                    for j in range(64):
                        pe.sampling.sample_with_u((j + 0.5) / 64)
            proc = MC.MarkovChainProcess(model, SamplingMethod.BINARYSEARCHTREEADAPTED1D, grid)
            ax, piv = grid.axes[0], grid.origin_coordinate.value
            n = 20000
            cnt = {}
            for j in range(n):
                k = int(proc.sampling.sample_with_u((j + 0.5) / n))
                cnt[k] = cnt.get(k, 0) + 1
            for k, (lo, hi) in cells(ax, piv).items():
                want = quad_mass(model.levy_triplet.nu, float(lo), float(hi)) / proc.intensity_of_jumps
                got = cnt.get(k - piv, 0) / n
                if abs(got - want) > 2e-3:
                    details.append(f"{name}: BinarySearchTreeAdapted1D sends measure {got:.4f} of uniforms to state {k}, target probability {want:.4f}")
            if cnt.get(0, 0):
                details.append(f"{name}: origin sampled")
        if details:
            break
    return bool(details), "; ".join(details[:3]) if details else "measures equal probabilities on HEM/CGMY"


# ---- copula chains


def _copula_setup(ctx, d, npts, equal_axes=True):
    axes = []
    hs = None
    for i in range(d):
        if i == 0 or not equal_axes:
            axis, h, pivot = sym_axis(ctx, npts, npts, name=f"x{i}", h=hs)
            hs = h
        axes.append(axis if (i == 0 or not equal_axes) else axes[0])
    grid = make_grid(hs, npts, axes)
    models = [A.abs_levy_model(ctx, f"nu{i}", sigma=0.0, a=0.0, finite_activity=False, finite_variation=True) for i in range(d)]
    cop = A.AbsCopula(ctx, "F", d)
    lcm = LCM.LevyCopulaModel(models=models, copula=cop)
    return grid, lcm, models, cop


def _U(models, i, x):
    nu = models[i].levy_triplet.nu
    if isinstance(x, float) and x in (INF, -INF):
        return z3.RealVal(0)
    if bool(x < 0):
        return -nu.neg_term(0, -INF, x)
    return nu.pos_term(0, x, INF)


def oracle_mass(models, cop, lo, hi, trunc):
    """mass of the rectangle prod [lo_i, hi_i] under the truncated copula measure, written from the definition:
    same-side coordinates: signed F-volume of the tail integrals (of the truncated margins); a straddling coordinate
    (lo_i < 0 < hi_i) is removed by  mass = margin mass of the others - mass(right tail) - mass(left tail)."""
    d = len(lo)

    def Ut(i, x):
        # tail integral of margin i.  The joint measure restricted to the truncation box gives every rectangle inside the box the
        # mass the untruncated measure gives it, so the (untruncated) tail integrals are the right arguments of F.
        return _U(models, i, x)

    def rec(idx, lo, hi):
        for j, i in enumerate(idx):
            l, h = lo[j], hi[j]
            l_neg = (isinstance(l, float) and l == -INF) or bool(l < 0)
            h_pos = (isinstance(h, float) and h == INF) or bool(h > 0)
            if l_neg and h_pos:
                idx2 = idx[:j] + idx[j + 1:]
                lo2, hi2 = lo[:j] + lo[j + 1:], hi[:j] + hi[j + 1:]
                m_all = rec(idx2, lo2, hi2) if idx2 else None
                if m_all is None:
                    raise Unsupported("rectangle containing the origin")
                lo_r, hi_r = list(lo), list(hi)
                lo_r[j], hi_r[j] = h, INF
                lo_l, hi_l = list(lo), list(hi)
                lo_l[j], hi_l[j] = -INF, l
                return m_all - rec(idx, lo_r, hi_r) - rec(idx, lo_l, hi_l)
        # all coordinates on one side: signed volume of the I-margin of F at the tail integrals
        n = len(idx)
        others = [k for k in range(d) if k not in idx]
        vol = z3.RealVal(0)
        for p in itertools.product([0, 1], repeat=n):
            pts = [Ut(idx[j], lo[j] if pj == 0 else hi[j]) for j, pj in enumerate(p)]
            sgn = -1 if (n - sum(p)) % 2 else 1
            if n == 1:
                fi = pts[0]  # one-dimensional margins of a Lévy copula are the identity
            else:
                fi = z3.RealVal(0)
                for s in itertools.product([-INF, INF], repeat=len(others)):
                    args = [None] * d
                    for k, u in zip(idx, pts):
                        args[k] = u
                    sg2 = 1
                    for k, v in zip(others, s):
                        args[k] = v
                        if v < 0:
                            sg2 = -sg2
                    fi = fi + sg2 * cop.apply_terms(args)
            vol = vol + sgn * fi
        return (-1 if n % 2 else 1) * vol

    return z3.simplify(rec(list(range(d)), list(lo), list(hi)))


def _earlier_copula_chain(d, grid, method):
    """history for the replays: a chain of another copula model (other margins, other copula) built on the same grid beforehand"""
    import rpylib.model.levymodel.mixed.hem as HEM
    from rpylib.distribution.levycopula import ClaytonCopula

    ms = [HEM.HEMModel(HEM.HEMParameters(sigma=0.2, p=0.7 - 0.1 * i, eta1=9.0 + 2 * i, eta2=12.0 + i, intensity=1.0 + 0.7 * i)) for i in range(d)]
    MCLC.MarkovChainLevyCopula(LCM.LevyCopulaModel(models=ms, copula=ClaytonCopula(theta=0.7, eta=0.3)), grid, method)


def replay_copula(sc):
    """real HEM margins with a Clayton Lévy copula on a non-uniform grid: every state's rate (inversion probability x intensity)
    against the model's own mass of that state's cell, the cell being built here from the raw axes (midpoints, axis ends, central gap)"""
    import rpylib.model.levymodel.mixed.hem as HEM
    from rpylib.distribution.levycopula import ClaytonCopula

    d, npts = sc["d"], sc["npts"]
    ms = [HEM.HEMModel(HEM.HEMParameters(sigma=0.1, p=0.4 + 0.1 * i, eta1=20.0 - 3 * i, eta2=25.0 + 2 * i, intensity=3.0 - 0.5 * i)) for i in range(d)]
    lcm = LCM.LevyCopulaModel(models=ms, copula=ClaytonCopula(theta=2.0, eta=0.5))
    h = 0.1
    axis = np.array([-h * 1.7**k for k in range(npts)][::-1] + [0.0] + [h * 1.6**k for k in range(npts)])
    grid = GS.CTMCGrid(h=h, origin_coordinate=npts, axes=[axis.copy() for _ in range(d)])
    _earlier_copula_chain(d, grid, SamplingMethod.INVERSION)
    proc = MCLC.MarkovChainLevyCopula(lcm, grid, SamplingMethod.INVERSION)
    lam = proc.intensity_of_jumps
    model_t = proc.model
    n = len(axis)
    cs = cells(axis, npts)
    central = (axis[npts - 1] / 2, axis[npts + 1] / 2)
    bad, total = [], 0.0
    for state in itertools.product(range(n), repeat=d):
        if all(s == npts for s in state):
            continue
        lo = np.array([cs[s][0] if s != npts else central[0] for s in state], dtype=float)
        hi = np.array([cs[s][1] if s != npts else central[1] for s in state], dtype=float)
        want = max(float(model_t.mass(lo, hi)), 0.0)
        total += want
        got = float(proc.sampling.probability_to_jump_to_state(tuple(s - npts for s in state))) * lam
        if abs(got - want) > 1e-9 * max(1.0, want):
            bad.append(f"state {tuple(round(float(axis[s]), 4) for s in state)}: rate {got!r} vs mass of its cell {want!r}")
    if abs(total - lam) > 1e-9 * max(1.0, total):
        bad.append(f"intensity {lam!r} vs sum of the cell masses {total!r}")
    return bool(bad), f"HEM^{d} with Clayton(2, 0.5), axis {axis.round(4).tolist()}: " + "; ".join(bad[:3])


def h_copula(ctx, d, npts, method="INVERSION", history=False):
    grid, lcm, models, cop = _copula_setup(ctx, d, npts)
    rpc = (replay_copula, lambda m: {"d": d, "npts": max(npts, 2)})
    if history:
        # another copula model (other margins, other copula) had its chain built on the same grid earlier in the same interpreter: the
        # rates of the chain under test are masses of *its* model, whatever was computed before
        earlier = LCM.LevyCopulaModel(models=[A.abs_levy_model(ctx, f"mu{i}", sigma=0.0, a=0.0, finite_activity=False, finite_variation=True) for i in range(d)],
                                      copula=A.AbsCopula(ctx, "G", d))
        try:
            MCLC.MarkovChainLevyCopula(earlier, grid, SamplingMethod[method])
        except ZeroDivisionError:
            raise PathAbort()
    try:
        proc = MCLC.MarkovChainLevyCopula(lcm, grid, SamplingMethod[method])
    except ZeroDivisionError:
        raise PathAbort()
    except A.InfiniteIntegral as e:
        # the construction asked for the mass of a set that touches the origin of a margin (infinite for an infinite-activity
        # measure): its cells are not the cells of the grid
        ctx.prove(f"C01.cells_stay_away_from_the_origin.{d}d", False, info={"d": d, "npts": npts, "raised": str(e)}, replay=rpc)
        return
    ctx.prove(f"C01.cells_stay_away_from_the_origin.{d}d", True)
    lam = proc.intensity_of_jumps
    piv = grid.origin_coordinate
    trunc = [(ax[0], ax[len(ax) - 1]) for ax in grid.axes]
    model_t = proc.model
    total = z3.RealVal(0)
    n = len(grid.axes[0])
    cs = [cells(ax, piv[i]) for i, ax in enumerate(grid.axes)]
    central = [(ax[piv[i] - 1] / 2, ax[piv[i] + 1] / 2) for i, ax in enumerate(grid.axes)]
    info = {"d": d, "npts": npts}
    ctx.assume(lam > 0)
    for state in itertools.product(range(n), repeat=d):
        if all(s == piv[i] for i, s in enumerate(state)):
            continue
        lo = [cs[i][s][0] if s != piv[i] else central[i][0] for i, s in enumerate(state)]
        hi = [cs[i][s][1] if s != piv[i] else central[i][1] for i, s in enumerate(state)]
        want = oracle_mass(models, cop, lo, hi, trunc)
        total = total + want
        inc = tuple(s - piv[i] for i, s in enumerate(state))
        p = proc.sampling.probability_to_jump_to_state(inc) if method == "INVERSION" else None
        if p is not None:
            # the factory clips negative masses to 0: the rate is max(mass, 0)/intensity
            ctx.prove(f"C01.rate_is_cell_mass.{d}d", EQ(p, V.smax(SymReal(want), 0) / lam), info=dict(info, state=state), replay=rpc)
    ctx.prove(f"C01.sum_of_rates_is_intensity.{d}d", EQ(lam, SymReal(z3.simplify(total))), info=info, replay=rpc)


def replay_bsta_nd(sc):
    """real HEM margins + Clayton, the n-d adapted tree built by the public factory: law of sample_with_us over a fine grid of uniforms
    against the masses of the states' cells (built here from the raw axes)"""
    import rpylib.model.levymodel.mixed.hem as HEM
    from rpylib.distribution.levycopula import ClaytonCopula

    d, npts = sc["d"], sc["npts"]
    ms = [HEM.HEMModel(HEM.HEMParameters(sigma=0.1, p=0.4 + 0.1 * i, eta1=20.0 - 3 * i, eta2=25.0 + 2 * i, intensity=3.0 - 0.5 * i)) for i in range(d)]
    lcm = LCM.LevyCopulaModel(models=ms, copula=ClaytonCopula(theta=2.0, eta=0.5))
    h = 0.1
    axis = np.array([-h * 1.7**k for k in range(npts)][::-1] + [0.0] + [h * 1.6**k for k in range(npts)])
    grid = GS.CTMCGrid(h=h, origin_coordinate=npts, axes=[axis.copy() for _ in range(d)])
    _earlier_copula_chain(d, grid, SamplingMethod.BINARYSEARCHTREEADAPTED)
    proc = MCLC.MarkovChainLevyCopula(lcm, grid, SamplingMethod.BINARYSEARCHTREEADAPTED)
    smp = proc.sampling
    lam = proc.intensity_of_jumps
    model_t = proc.model
    n = len(axis)
    cs = cells(axis, npts)
    central = (axis[npts - 1] / 2, axis[npts + 1] / 2)
    N = 40000
    us = (np.arange(N) + 0.5) / N * float(np.sum(smp._buckets_probabilities))
    try:
        out = smp.sample_with_us(us.copy())
    except Exception as e:
        return True, f"BinarySearchTreeAdapted.sample_with_us raises {type(e).__name__}: {e}"
    cnt = {}
    for st in out:
        st = tuple(int(v) for v in st)
        cnt[st] = cnt.get(st, 0) + 1
    bad = []
    for state in itertools.product(range(n), repeat=d):
        if all(s == npts for s in state):
            continue
        lo = np.array([cs[s][0] if s != npts else central[0] for s in state], dtype=float)
        hi = np.array([cs[s][1] if s != npts else central[1] for s in state], dtype=float)
        want = max(float(model_t.mass(lo, hi)), 0.0) / lam
        got = cnt.pop(tuple(s - npts for s in state), 0) / N
        if abs(got - want) > 2e-3:
            bad.append(f"state {tuple(round(float(axis[s]), 3) for s in state)}: share of uniforms {got:.4f} vs rate/intensity {want:.4f}")
    for st, c in cnt.items():
        bad.append(f"increment {st} outside the grid or the origin returned for a share {c / N:.4f}")
    return bool(bad), f"HEM^{d} + Clayton(2, 0.5), axis {axis.round(3).tolist()}, adapted binary search tree: " + "; ".join(bad[:3])


def h_bsta_nd(ctx, d=2, npts=2, prefix="C01"):
    """the n-d adapted binary search tree built by the public factory on a copula chain: the set of uniforms sent to every state has
    length rate/intensity (intensity pinned to 1 so that the thresholds, sums of masses, stay linear)"""
    grid, lcm, models, cop = _copula_setup(ctx, d, npts)
    rp = (replay_bsta_nd, lambda m: {"d": d, "npts": npts})
    try:
        proc = MCLC.MarkovChainLevyCopula(lcm, grid, SamplingMethod.BINARYSEARCHTREEADAPTED)
    except ZeroDivisionError:
        raise PathAbort()
    smp = proc.sampling
    lam = proc.intensity_of_jumps
    ctx.assume(EQ(lam, 1))
    piv = grid.origin_coordinate
    trunc = [(ax[0], ax[len(ax) - 1]) for ax in grid.axes]
    n = len(grid.axes[0])
    cs = [cells(ax, piv[i]) for i, ax in enumerate(grid.axes)]
    central = [(ax[piv[i] - 1] / 2, ax[piv[i] + 1] / 2) for i, ax in enumerate(grid.axes)]
    u = ctx.real("u", 0, 1, hi_strict=True)

    def one():
        BSTA.BinarySearchTreeAdapted._compute_probability.cache_clear()
        arr = np.empty(1, dtype=object)
        arr[0] = u
        return tuple(int(v) for v in smp.sample_with_us(arr)[0])

    leaves = ctx.enumerate(one, max_leaves=4000)
    info = {"d": d, "npts": npts, "leaves": len(leaves)}
    for cons, val, exc in leaves:
        if exc is not None:
            ctx.prove(f"{prefix}.adapted_tree_nd.sampling_does_not_raise", False, info=dict(info, raised=repr(exc)[:200]), replay=rp)
            return
    meas = M.state_measures(leaves, V.to_term(u))
    wants = {}
    for state in itertools.product(range(n), repeat=d):
        if all(s == piv[i] for i, s in enumerate(state)):
            continue
        lo = [cs[i][s][0] if s != piv[i] else central[i][0] for i, s in enumerate(state)]
        hi = [cs[i][s][1] if s != piv[i] else central[i][1] for i, s in enumerate(state)]
        wants[state] = oracle_mass(models, cop, lo, hi, trunc)
        # a Lévy copula gives every rectangle a non-negative mass (d-increasing; C11/C12): assumed here for the cells of the grid
        ctx.assume(SymBool(wants[state] >= 0))
    for state, want in wants.items():
        inc = tuple(s - piv[i] for i, s in enumerate(state))
        got = meas.pop(inc, z3.RealVal(0))
        ctx.prove(f"{prefix}.adapted_tree_nd.measure_times_intensity_is_cell_mass", SymBool(got == want), info=dict(info, state=state), replay=rp)
    ctx.prove(f"{prefix}.adapted_tree_nd.never_origin_or_outside", SymBool(z3.And(*[o == 0 for o in meas.values()])) if meas else True, info=info, replay=rp)


def h_twin(ctx):
    """sensitivity twin: a cell boundary moved to the state itself (instead of the midpoint) must be caught"""
    axis, h, pivot = sym_axis(ctx, 2, 2)
    grid = make_grid(h, pivot, [axis])
    model = A.abs_levy_model(ctx, "nu", sigma=0.0, a=0.0, finite_activity=True)
    nu = model.levy_triplet.nu
    proc = MC.MarkovChainProcess(model, SamplingMethod.INVERSION, grid)
    q = SF.create_q_vector(proc.model.levy_triplet.nu, grid)
    ax = grid.axes[0]
    wrong = nu.pos_term(0, ax[3], (ax[3] + ax[4]) / 2)  # lower boundary at the state instead of the midpoint
    ctx.prove("C01.twin.moved_boundary", EQ(q[3], SymReal(wrong)))


def _copula_concrete():
    ok, d = replay_copula({"d": 2, "npts": 2})
    return ("C01.concrete.copula_rates", not ok, d)


def concrete_validation():
    ok, detail = replay_1d({"nl": 3, "nr": 2, "refine": 1})
    ok2, detail2 = replay_bsta1d({"nl": 2, "nr": 3})
    return [("C01.concrete.rates", not ok, "shimmed modules on HEM/CGMY floats: " + detail),
            ("C01.concrete.adapted_tree", not ok2, "shimmed modules on HEM/CGMY floats: " + detail2), _copula_concrete()]


def harnesses(tier):
    q = tier == "quick"
    hs = [Harness("concrete", concrete_validation, concrete=True)]
    shapes = [(2, 2, 0), (1, 2, 1), (2, 1, 0)] if q else [(2, 2, 0), (1, 2, 1), (2, 1, 1), (3, 3, 0), (2, 2, 1), (3, 2, 1), (2, 1, 2), (1, 1, 2)]
    for nl, nr, rf in shapes:
        for fa, fv in ((True, True), (False, True), (False, False)):
            hs.append(Harness(f"1d.{nl}.{nr}.r{rf}.fa{int(fa)}.fv{int(fv)}", h_1d, {"nl": nl, "nr": nr, "refine": rf, "fa": fa, "fv": fv}, max_paths=4000))
    for nl, nr, rf in ([(1, 1, 1), (1, 2, 1)] if q else [(1, 1, 1), (1, 2, 1), (1, 1, 2), (2, 2, 1)]):
        hs.append(Harness(f"1d.reuse.{nl}.{nr}.r{rf}", h_1d, {"nl": nl, "nr": nr, "refine": rf, "fa": False, "fv": True, "reuse": True}, max_paths=4000))
    for nl, nr in ([(1, 2), (2, 2)] if q else [(1, 2), (2, 1), (2, 2), (3, 2), (3, 3)]):
        for lv in (1, Fraction(3, 2)):
            hs.append(Harness(f"bsta1d.{nl}.{nr}.lam{lv}", h_bsta1d, {"nl": nl, "nr": nr, "lam_value": lv}, max_paths=4000))
    hs.append(Harness("bsta1d.2.2.after_another_chain", h_bsta1d, {"nl": 2, "nr": 2, "lam_value": 1, "history": True}, max_paths=4000))
    for nl, nr, method in ([(1, 1, "BINARYSEARCHTREE"), (2, 1, "BINARYSEARCHTREE"), (1, 1, "ALIAS")] if q else
                           [(1, 1, "BINARYSEARCHTREE"), (2, 1, "BINARYSEARCHTREE"), (2, 2, "BINARYSEARCHTREE"), (1, 1, "ALIAS"), (1, 2, "ALIAS")]):
        hs.append(Harness(f"factory.{method}.{nl}.{nr}", h_factory_vector, {"nl": nl, "nr": nr, "method": method}, max_paths=6000))
    hs.append(Harness("copula.2d.1", h_copula, {"d": 2, "npts": 1}, max_paths=4000))
    hs.append(Harness("copula.2d.1.after_another_model", h_copula, {"d": 2, "npts": 1, "history": True}, max_paths=4000))
    hs.append(Harness("bsta.2d.1", h_bsta_nd, {"d": 2, "npts": 1}, max_paths=4000, batch=1))
    hs.append(Harness("bsta.2d.2", h_bsta_nd, {"d": 2, "npts": 2}, max_paths=4000, batch=1))
    if not q:
        hs.append(Harness("bsta.3d.1", h_bsta_nd, {"d": 3, "npts": 1}, max_paths=4000, batch=1))
    hs.append(Harness("copula.3d.1", h_copula, {"d": 3, "npts": 1}, max_paths=20000))  # 3-d: the sub-margins over two of three coordinates
    if not q:
        hs.append(Harness("copula.2d.2", h_copula, {"d": 2, "npts": 2}, max_paths=20000))
    hs.append(Harness("twin", h_twin, twin="must_fail"))
    return hs


EXPECT = ["C01.poisson_clock_rate_is_sum_of_rates.1d", "C01.rate_is_cell_mass.1d", "C01.sum_of_rates_is_intensity.1d", "C01.cells_tile_without_gap_or_overlap.1d", "C01.state_inside_its_cell.1d",
          "C01.inversion_probability_times_intensity_is_cell_mass.1d", "C01.adapted_tree_1d.measure_times_intensity_is_cell_mass",
          "C01.rate_is_cell_mass.2d", "C01.sum_of_rates_is_intensity.2d", "C01.adapted_tree_nd.measure_times_intensity_is_cell_mass", "C01.factory_vector.measure_times_intensity_is_cell_mass"]


# reference replays run when the symbolic run of a harness ends in an exception of the code under analysis (see runner.run_check)
ERROR_REPLAYS = {"1d.": (replay_1d, {"nl": 2, "nr": 3, "refine": 1}), "bsta1d": (replay_bsta1d, {"nl": 2, "nr": 3}),
                 "factory.ALIAS": (replay_factory_vector, {"nl": 2, "nr": 2, "method": "ALIAS"}),
                 "factory.BINARYSEARCHTREE": (replay_factory_vector, {"nl": 2, "nr": 2, "method": "BINARYSEARCHTREE"}),
                 "copula.2d": (replay_copula, {"d": 2, "npts": 2}), "copula.3d": (replay_copula, {"d": 3, "npts": 1}),
                 "bsta.2d": (replay_bsta_nd, {"d": 2, "npts": 2}), "bsta.3d": (replay_bsta_nd, {"d": 3, "npts": 1})}


def main(tier):
    bounds = {"histories_and_variants": 'one history per stateful object: another chain (other model, other copula) built and, for the 1-d adapted tree, sampled on the same grid first (2-d copula chain 3x3; adapted tree 2+2 points); 3-d copula chain (3x3x3) also in the quick tier',
              "quick": "1-d grids up to 2+2 points and 1 refinement; 2-d copula chain 3x3; finite/infinite activity and variation flavours",
              "thorough": "1-d grids up to 3+3 points, up to 2 refinements; 2-d 5x5, 3-d 3x3x3",
              "grids": "any strictly increasing axis with 0 at the pivot and -h/+h as its neighbours (what every constructor returns, C13); "
                       "cell boundaries by CTMCGrid.middle (probability-step grids, whose middle() is a root search, are outside)",
              "outside": "float rounding; that each concrete model is an additive measure with these integrals (C09)"}
    return run_check(PID, tier, harnesses(tier), expect=EXPECT, bounds=bounds, error_replays=ERROR_REPLAYS,
                     assumptions=COMMON_ASSUMPTIONS + [
                         "abstract Lévy measure: additive cumulative functions L_k/T_k (UF), positivity/monotonicity on occurring points",
                         "abstract Lévy copula: UF per infinite-argument pattern, grounded; one-dimensional margins are the identity",
                     ])


if __name__ == "__main__":
    sys.exit(main(sys.argv[1] if len(sys.argv) > 1 else "quick"))
