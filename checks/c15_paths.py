"""C15 - simulated paths are running sums on the product dates within the time-step cap.

Real SimulationFixedTimes / SimulationWithJumpTimes / SimulationMaximumStep (direct simulation), the Markov-chain path helpers and both
build_finer_grid closures run on the RNG / Poisson models: symbolic uniforms (jump times through the real np.sort), symbolic normals,
symbolic jump increments, jump counts <= 2 per interval.
"""
import sys
from collections import deque
from fractions import Fraction

import numpy as np

from .common import *  # noqa
from .common import z3, V, shims, Harness, run_check, SymReal, SymInt, SymBool, AND, OR, NOT, EQ, IMPLIES, COMMON_ASSUMPTIONS, Unsupported, PathAbort

import rpylib.process.levyprocess as LP
import rpylib.process.process as PR
import rpylib.process.coupling.helper as CH
import rpylib.process.markovchain.markovchain as MC
import rpylib.montecarlo.path as PATH
import rpylib.distribution.univariate.poisson_impl.numpyimpl as PNP
import rpylib.distribution.univariate.uniform as UNI
from rpylib.process.process import ProcessRepresentation
from rpylib.product.payoff import PayoffDates

shims.install_np(LP, PR, CH, MC, PATH, PNP, UNI)
PID = "C15"


class StubModel:
    process_representation = ProcessRepresentation.IDENDITY

    def __init__(self, ctx, sigma, lam):
        self.ctx, self.sigma, self.lam = ctx, sigma, lam
        self.increments = []

    def dimension(self):
        return 1

    def intensity(self):
        return self.lam

    def diffusion_coefficient(self):
        return self.sigma

    def jump_increment(self, n):
        n = n.__index__() if isinstance(n, SymInt) else int(n)
        out = np.empty(n, dtype=object)
        for i in range(n):
            x = self.ctx.real(f"inc{len(self.increments)}")
            self.increments.append(x)
            out[i] = x
        return out

    def x0_value(self):
        return 0.0

    def process_drift(self):
        return 0.0

    def df(self, t):
        return 1.0


class StubProduct:
    def __init__(self, times, kind):
        self._t = times
        self.maturity = times[len(times) - 1]

        class P:
            payoff_dates_type = kind

        self.payoff = P()

    def times_grid(self):
        return self._t


def sym_dates(ctx, n):
    t = np.empty(n + 1, dtype=object)
    t[0] = 0.0
    prev = 0.0
    for i in range(1, n + 1):
        t[i] = ctx.real(f"T{i}")
        ctx.assume(t[i] > prev)
        prev = t[i]
    return t


def _vals(m, arr):
    return [m.f(x) if V.is_sym(x) else float(x) for x in arr]


def replay_fixed(sc):
    """real direct simulator on 3 dates with a deterministic model: jump component must be the running sum over the dates"""
    class M(StubModel):
        def __init__(self):
            self.k = 0

        def intensity(self):
            return 4.0

        def diffusion_coefficient(self):
            return 0.0

        def jump_increment(self, n):
            return np.ones(int(n))

    import numpy.random as npr

    npr.seed(3)
    proc = LP.LevyProcess(M())
    prod = StubProduct(np.array([0.0, 0.5, 1.0, 1.5]), PayoffDates.DETERMINISTIC)
    proc.initialisation(prod)
    proc.pre_computation(1, prod)
    counts = list(proc._path_simulation._poisson_rv[0])
    path = proc.simulate_one_path()
    want = np.concatenate(([0.0], np.cumsum(counts)))
    got = path.jump_path
    return not np.allclose(got, want), f"fixed dates [0,0.5,1,1.5], unit jumps, counts per interval {counts}: jump path {got.tolist()} vs running sum {want.tolist()}"


def path_value_obligations(ctx, path, info):
    """what a payoff reads: value() is jump component + diffusion component at every time, every time it is read, and reading it leaves the
    stored components alone (the multilevel path managers and the statistics read a path more than once)"""
    jp, dp = [x for x in path.jump_path], [x for x in path.diffusion_path]
    v1 = [x for x in path.value()]
    v2 = [x for x in path.value()]
    n = len(jp)
    ctx.prove("C15.path_value_is_jump_plus_diffusion_each_time_it_is_read", AND(len(v1) == n, len(v2) == n, *[EQ(v1[i], jp[i] + dp[i]) for i in range(n)], *[EQ(v2[i], jp[i] + dp[i]) for i in range(n)]), info=info)
    ctx.prove("C15.reading_the_path_value_leaves_its_components_unchanged", AND(*[EQ(path.diffusion_path[i], dp[i]) for i in range(n)], *[EQ(path.jump_path[i], jp[i]) for i in range(n)]), info=info)


def h_fixed(ctx, ndates):
    shims.RNG.reset()
    shims.POISSON_MAX[0] = 2
    sigma = ctx.real("sigma", 0)
    lam = ctx.real("lam")
    ctx.assume(lam > 0)
    model = StubModel(ctx, sigma, lam)
    proc = LP.LevyProcess(model)
    times = sym_dates(ctx, ndates)
    prod = StubProduct(times, PayoffDates.DETERMINISTIC)
    proc.initialisation(prod)
    proc.pre_computation(1, prod)
    counts = [c for c in proc._path_simulation._poisson_rv[0]]
    normals = [s for (kind, seed, pos, s) in shims.RNG.log if kind == "normal"]
    path = proc.simulate_one_path()
    info = {"dates": ndates, "counts": [int(c) for c in counts]}
    rp = (replay_fixed, lambda m: {})
    T = path.times()
    ctx.prove("C15.fixed.times_are_the_product_dates", AND(len(T) == ndates + 1, *[EQ(T[i], times[i]) for i in range(ndates + 1)]), info=info)
    ctx.prove("C15.fixed.starts_at_zero", AND(EQ(path.jump_path[0], 0), EQ(path.diffusion_path[0], 0)), info=info)
    # running sums
    k = 0
    run = 0
    multi = ndates > 1
    for i in range(ndates):
        for _ in range(int(counts[i])):
            run = run + model.increments[k]
            k += 1
        ctx.prove("C15.fixed.jump_component_is_running_sum_of_increments", EQ(path.jump_path[i + 1], run), info=dict(info, date=i + 1), replay=rp,
                  regions={"several_product_dates": multi})
    ctx.prove("C15.fixed.every_increment_used_once", k == len(model.increments), info=info)
    acc = 0
    for i in range(ndates):
        acc = acc + sigma * shims.NP.sqrt(times[i + 1] - times[i]) * normals[i]
        ctx.prove("C15.fixed.diffusion_component_is_running_sum_of_scaled_normals", EQ(path.diffusion_path[i + 1], acc), info=dict(info, date=i + 1))
    ctx.prove("C15.fixed.each_normal_used_once", len(normals) == ndates and len(proc._path_simulation._brownian_increments) == 0, info=info)
    path_value_obligations(ctx, path, info)


def h_jumptimes(ctx, ndates, pmax=2):
    shims.RNG.reset()
    shims.POISSON_MAX[0] = pmax
    sigma = ctx.real("sigma", 0)
    lam = ctx.real("lam")
    ctx.assume(lam > 0)
    model = StubModel(ctx, sigma, lam)
    proc = LP.LevyProcess(model)
    times = sym_dates(ctx, ndates)
    prod = StubProduct(times, PayoffDates.STOCHASTIC)
    proc.initialisation(prod)
    proc.pre_computation(1, prod)
    path = proc.simulate_one_path()
    T = path.times()
    n = len(T)
    info = {"dates": ndates, "points": n}
    ctx.prove("C15.jumptimes.starts_at_zero_ends_at_maturity", AND(EQ(T[0], 0), EQ(T[n - 1], times[ndates]), EQ(path.jump_path[0], 0), EQ(path.diffusion_path[0], 0)), info=info)
    ctx.prove("C15.jumptimes.times_non_decreasing", AND(*[T[i] <= T[i + 1] for i in range(n - 1)]), info=info)
    unif = [s for (kind, seed, pos, s) in shims.RNG.log if kind == "uniform"]
    distinct = AND(*[u > 0 for u in unif], *[unif[i] != unif[j] for i in range(len(unif)) for j in range(i)]) if unif else True
    ctx.prove("C15.jumptimes.times_strictly_increasing_for_distinct_positive_uniforms", IMPLIES(distinct, AND(*[T[i] < T[i + 1] for i in range(n - 1)])), info=info)
    # jump path: cumulative sum of the increments in simulation order, constant on the last step
    run = 0
    njumps = n - 2
    ctx.prove("C15.jumptimes.one_increment_per_jump_time", njumps == len(model.increments), info=info)
    for i in range(njumps):
        run = run + model.increments[i]
        ctx.prove("C15.jumptimes.jump_component_is_running_sum", EQ(path.jump_path[i + 1], run), info=dict(info, i=i))
    ctx.prove("C15.jumptimes.value_at_maturity_repeats_last_jump_value", EQ(path.jump_path[n - 1], run), info=info)
    normals = [s for (kind, seed, pos, s) in shims.RNG.log if kind == "normal"]
    acc = 0
    ok = len(normals) == n - 1
    ctx.prove("C15.jumptimes.one_normal_per_step", ok, info=info)
    if ok:
        for i in range(n - 1):
            acc = acc + sigma * shims.NP.sqrt(T[i + 1] - T[i]) * normals[i]
            ctx.prove("C15.jumptimes.diffusion_component_is_running_sum_of_scaled_normals", EQ(path.diffusion_path[i + 1], acc), info=dict(info, i=i))
    path_value_obligations(ctx, path, info)


# ---- Markov-chain simulator at jump times


class ChainProcessStub:
    """what MCSimulationWithJumpTimes reads of its process: grid, sampling.sample, nb_jump_dt, jump_times_from_nb_of_jumps"""

    def __init__(self, grid, counts, increments, times_of):
        self.grid = grid
        self._counts, self._incs, self._times_of = list(counts), list(increments), times_of
        self.served = 0

        class _S:
            def sample(_self, size=1):
                out = self._incs[self.served:self.served + int(size)]
                self.served += int(size)
                return np.array(out, dtype=int)

        self.sampling = _S()

    def nb_jump_dt(self, dt):
        return self._counts.pop(0)

    def jump_times_from_nb_of_jumps(self, dt, n):
        return self._times_of(dt, int(n))


def replay_chain_jumptimes(sc):
    """the real chain simulator at jump times, scripted jump counts per product-date interval and scripted state increments: the jump part
    of the path is the running sum of the states' values over the whole path"""
    import rpylib.grid.spatial as GS

    counts, incs = [int(c) for c in sc["counts"]], [int(i) for i in sc["incs"]]
    axis = np.array([-2.0, -1.0, 0.0, 1.0, 2.0]) * 0.1
    grid = GS.CTMCGrid(h=0.1, origin_coordinate=2, axes=[axis])
    nd = len(counts)
    times = np.linspace(0.0, float(nd), nd + 1)
    proc = ChainProcessStub(grid, counts, incs, lambda dt, n: dt * (np.arange(n) + 1.0) / (n + 1.0))
    sim = MC.MCSimulationWithJumpTimes(proc)
    sim.pre_computation(1, StubProduct(times, PayoffDates.STOCHASTIC))
    jt, jv = sim.simulate_jumps()
    want = np.cumsum([axis[2 + i] for i in incs]) if incs else np.array([])
    bad = len(jv) != len(want) or not np.allclose(np.asarray(jv, dtype=float), want, atol=1e-12)
    return bad, (f"MCSimulationWithJumpTimes, jump counts per product-date interval {counts}, state increments {incs} on the axis {axis.tolist()}: jump part "
                 f"{np.round(np.asarray(jv, dtype=float), 6).tolist()}, running sum of the increments {np.round(want, 6).tolist()}")


def h_chain_jumptimes(ctx, ndates):
    """Markov-chain simulator at jump times over `ndates` product-date intervals, symbolic jump counts (0..2 per interval): the jump part is
    the running sum of the visited states' values over the whole path, one sampled increment per jump"""
    import rpylib.grid.spatial as GS

    axis = np.array([-2.0, -1.0, 0.0, 1.0, 2.0]) * 0.1
    grid = GS.CTMCGrid(h=0.1, origin_coordinate=2, axes=[axis])
    counts = [ctx.int(f"count{k}", 0, 2).__index__() for k in range(ndates)]
    incs = [1, -2, 2, -1, 1, 2][: sum(counts)]
    times = np.linspace(0.0, float(ndates), ndates + 1)
    proc = ChainProcessStub(grid, counts, incs, lambda dt, n: dt * (np.arange(n) + 1.0) / (n + 1.0))
    sim = MC.MCSimulationWithJumpTimes(proc)
    sim.pre_computation(1, StubProduct(times, PayoffDates.STOCHASTIC))
    jt, jv = sim.simulate_jumps()
    want = np.cumsum([axis[2 + i] for i in incs]) if incs else np.array([])
    several = sum(1 for c in counts if c > 0) > 1
    ok = len(jv) == len(want) and bool(np.allclose(np.asarray(jv, dtype=float), want, atol=1e-12))
    ctx.prove("C15.chain.jumptimes.jump_component_is_running_sum_over_the_whole_path", ok, info={"counts": counts, "increments": incs},
              replay=(replay_chain_jumptimes, lambda m: {"counts": counts, "incs": incs}), regions={"jumps_in_more_than_one_product_date_interval": several})
    ctx.prove("C15.chain.jumptimes.one_sampled_increment_per_jump", proc.served == sum(counts) and len(jt) == sum(counts), info={"counts": counts})


# ---- copula chain at fixed product dates


def _copula_fixed_dates_path(counts, times):
    """real copula chain (HEM x HEM, Clayton, 5x5 grid, inversion sampler), fixed-date simulator, jump counts per interval given"""
    import rpylib.model.levymodel.mixed.hem as HEM
    import rpylib.model.levycopulamodel as LCM
    import rpylib.process.markovchain.markovchainlevycopula as MCLC
    import rpylib.grid.spatial as GS
    from rpylib.distribution.levycopula import ClaytonCopula
    from rpylib.distribution.sampling import SamplingMethod

    ms = [HEM.HEMModel(HEM.HEMParameters(sigma=0.1, p=0.4, eta1=20.0, eta2=25.0, intensity=3.0)) for _ in range(2)]
    lcm = LCM.LevyCopulaModel(models=ms, copula=ClaytonCopula(theta=0.7, eta=0.3))
    grid = GS.CTMCUniformGrid.create_from_fixed_nb_of_points(h=0.05, nb_of_points=5, dimension=2)
    proc = MCLC.MarkovChainLevyCopula(lcm, grid, SamplingMethod.INVERSION)
    prod = StubProduct(np.array(times, dtype=float), PayoffDates.DETERMINISTIC)
    proc.initialisation(prod)
    st = np.random.get_state()
    np.random.seed(5)
    try:
        proc.pre_computation(1, prod)
        sim = proc._path_simulation
        sim._poisson_rv = deque([np.array(counts, dtype=int)])
        return proc.simulate_one_path()
    finally:
        np.random.set_state(st)


def replay_copula_fixed_dates(sc):
    counts = [int(c) for c in sc["counts"]]
    times = [float(k) for k in range(len(counts) + 1)]
    try:
        path = _copula_fixed_dates_path(counts, times)
    except Exception as e:
        return True, f"copula chain (HEM x HEM, Clayton), fixed-date simulator, product dates {times}, jump counts {counts}: simulate_one_path raises {type(e).__name__}: {e}"
    v = np.asarray(path.value(), dtype=float)
    bad = v.shape != (2, len(times))
    return bad, f"product dates {times}, jump counts {counts}: path of shape {v.shape}"


def h_copula_fixed_dates(ctx, ndates):
    """copula chain at fixed product dates: a path with one column per date is produced whatever the (solver-chosen) jump counts are"""
    counts = [ctx.int(f"count{k}", 0, 2).__index__() for k in range(ndates)]
    times = [float(k) for k in range(ndates + 1)]
    rp = (replay_copula_fixed_dates, lambda m: {"counts": counts})
    V.set_context(None)  # everything but the jump counts is concrete here: the real chain runs on plain numbers (no stream model, no shims)
    try:
        try:
            path = _copula_fixed_dates_path(counts, times)
        finally:
            V.set_context(ctx)
    except (TypeError, ValueError) as e:
        ctx.prove("C15.copula.fixed.a_path_is_produced_for_every_number_of_product_dates", False, info={"dates": ndates, "counts": counts, "raised": f"{type(e).__name__}: {str(e)[:80]}"},
                  replay=rp, regions={"several_product_dates": ndates > 1})
        return
    v = np.asarray(path.value(), dtype=float)
    ctx.prove("C15.copula.fixed.a_path_is_produced_for_every_number_of_product_dates", v.shape == (2, ndates + 1) and bool(np.all(v[:, 0] == 0.0)), info={"dates": ndates, "counts": counts},
              replay=rp, regions={"several_product_dates": ndates > 1})


# ---- copula chain: Brownian part over steps of different length


def replay_copula_diffusion(sc):
    """the real helper on floats: two steps of different length"""
    import rpylib.process.markovchain.markovchainlevycopula as MCLC

    D = np.array([[0.3, 0.0], [0.1, 0.2]])
    sq = np.array([0.5, 1.2])
    Z = np.array([[1.0, -2.0], [0.5, 0.25]])
    obj = type("S", (), {"diffusion_matrix": D})()
    got = np.asarray(MCLC.MCLevyCopulaSimulation.helper_simulate_diffusion_part(obj, sq, Z), dtype=float)
    inc = (D @ Z) * sq
    want = np.cumsum(inc, axis=1)
    return not np.allclose(got, want, atol=1e-12), f"diffusion matrix {D.tolist()}, sqrt(dt) {sq.tolist()}, normals {Z.tolist()}: Brownian part {got.tolist()}, running sum of the scaled correlated increments {want.tolist()}"


def h_copula_diffusion(ctx, nsteps=2):
    """Brownian part of a copula-chain path: at step i the running sum of sqrt(dt_j) (D Z_j), j <= i, for steps of different length
    (the helper only reads the simulation object's diffusion matrix: a stand-in object carries it)"""
    import rpylib.process.markovchain.markovchainlevycopula as MCLC

    shims.install_np(MCLC)
    d = 2
    D = np.array([[ctx.real(f"D{i}{j}") for j in range(d)] for i in range(d)], dtype=object)
    sq = np.array([ctx.real(f"sqrt_dt{j}", 0) for j in range(nsteps)], dtype=object)
    Z = np.array([[ctx.real(f"Z{i}_{j}") for j in range(nsteps)] for i in range(d)], dtype=object)
    obj = type("S", (), {"diffusion_matrix": D})()
    got = MCLC.MCLevyCopulaSimulation.helper_simulate_diffusion_part(obj, sq, Z)
    ok = np.shape(got) == (d, nsteps)
    terms = []
    if ok:
        for i in range(d):
            run = 0
            for j in range(nsteps):
                run = run + sq[j] * sum(D[i, k] * Z[k, j] for k in range(d))
                terms.append(EQ(got[i][j], run))
    ctx.prove("C15.copula.chain.diffusion_component_is_running_sum_of_scaled_correlated_normals", ok and AND(*terms), info={"steps": nsteps}, replay=(replay_copula_diffusion, lambda m: {}))


# ---- copula coupling: the time-step cap of each level


def _copula_coupling_caps(caps, t1=0.8):
    """real copula coupling (HEM x HEM, Clayton, 3x3 grid), next_level called once per cap; returns the times of the refinement the coupling
    simulation of the last level applies to a path with a single jump at t1 (maturity 1)"""
    import rpylib.model.levymodel.mixed.hem as HEM
    import rpylib.model.levycopulamodel as LCM
    import rpylib.process.coupling.couplinglevycopula as CLC
    import rpylib.grid.spatial as GS
    from rpylib.distribution.levycopula import ClaytonCopula
    from rpylib.distribution.sampling import SamplingMethod

    ms = [HEM.HEMModel(HEM.HEMParameters(sigma=0.1, p=0.4, eta1=20.0, eta2=25.0, intensity=3.0)) for _ in range(2)]
    lcm = LCM.LevyCopulaModel(models=ms, copula=ClaytonCopula(theta=0.7, eta=0.3))
    grid = GS.CTMCUniformGrid.create_from_fixed_nb_of_points(h=0.1, nb_of_points=3, dimension=2)
    cp = CLC.CouplingProcessLevyCopula(lcm, grid, SamplingMethod.INVERSION)
    prod = StubProduct(np.array([0.0, 1.0]), PayoffDates.STOCHASTIC)
    for cap in caps:
        cp.next_level(mc_paths=1, path_managers=None, product=prod, max_step_epsilon=cap)
    sim = cp._path_coupling_simulation
    jt = np.array([t1])
    vals = np.array([[0.1], [0.0]])
    out = sim.build_finer_grid(jt, vals.copy(), vals.copy())
    return np.asarray(out[0], dtype=float)


def replay_copula_caps(sc):
    caps = [float(Fraction(c)) for c in sc["caps"]]
    times = _copula_coupling_caps(caps)
    steps = np.diff(np.concatenate(([0.0], times)))
    bad = bool(np.any(steps > caps[-1] + 1e-12))
    return bad, (f"copula coupling, next_level called with the caps {caps}: the last level refines a path with one jump at 0.8 to the times {np.round(times, 6).tolist()} "
                 f"(largest step {steps.max():.6f}, cap of that level {caps[-1]})")


def h_copula_caps(ctx):
    """the coupled copula simulator of level l refines with the cap handed to that level's next_level (the SDE coupling shrinks the cap at
    every level): caps 1/k1 then 1/k2 with solver-chosen k1 < k2"""
    k1 = ctx.int("k1", 1, 2).__index__()
    k2 = ctx.int("k2", 2, 4).__index__()
    if k2 <= k1:
        raise PathAbort()
    caps = [Fraction(1, k1), Fraction(1, k2)]
    rp = (replay_copula_caps, lambda m: {"caps": [str(c) for c in caps]})
    V.set_context(None)  # concrete models and paths: the real coupling runs on plain numbers
    try:
        times = _copula_coupling_caps([float(c) for c in caps])
    finally:
        V.set_context(ctx)
    steps = np.diff(np.concatenate(([0.0], times)))
    ctx.prove("C15.copula.coupled_maxstep.each_level_refines_with_its_own_cap", bool(np.all(steps <= float(caps[-1]) + 1e-12)), info={"caps": [str(c) for c in caps]}, replay=rp)


# ---- epsilon refinement


def replay_finer(sc):
    jt = np.array(sc["jt"], dtype=float)
    jv = np.array(sc["jv"], dtype=float)
    cv = np.array(sc.get("cv") or [10.0 + 3.0 * v + k for k, v in enumerate(sc["jv"])], dtype=float)
    eps, T = sc["eps"], sc["T"]
    c2 = None
    if sc["which"] == "levyprocess":
        f = LP.SimulationMaximumStep.create_build_finer_grid_fun(epsilon=eps, maturity=T)
        t2, v2 = f(None, jt.copy(), jv.copy())
    else:
        f = CH.create_build_finer_grid_fun(epsilon=eps, maturity=T)
        t2, v2, c2 = f(None, jt.copy(), jv.copy(), cv.copy())
    t2, v2 = np.asarray(t2, dtype=float), np.asarray(v2, dtype=float)
    steps = np.diff(np.concatenate(([0.0], t2)))
    bad = []
    if steps.max() > eps * (1 + 1e-12):
        bad.append(f"steps {steps.tolist()} exceed eps")
    if steps.min() <= 0:
        bad.append(f"times {t2.tolist()} not strictly increasing from 0")
    if len(v2) != len(t2) or (c2 is not None and len(c2) != len(t2)):
        bad.append("arrays not aligned")
    else:
        # piecewise-constant reference: value of the last original point at or before each time (0 before the first jump)
        for i, t in enumerate(t2):
            k = int(np.searchsorted(jt, t + 1e-12, side="right")) - 1
            want_v = jv[k] if k >= 0 else 0.0
            if abs(v2[i] - want_v) > 1e-12:
                bad.append(f"fine value at t={t!r} is {v2[i]!r}, the path there is {want_v!r}")
            if c2 is not None:
                want_c = cv[k] if k >= 0 else 0.0
                if abs(float(c2[i]) - want_c) > 1e-12:
                    bad.append(f"coarse value at t={t!r} is {float(c2[i])!r}, the path there is {want_c!r}")
        missing = [x for x in jt if np.min(np.abs(t2 - x)) > 1e-12]
        if missing:
            bad.append(f"original times {missing} dropped")
    return bool(bad), f"build_finer_grid(eps={eps}, T={T}) on times {jt.tolist()} values {jv.tolist()}" + (f" coarse {cv.tolist()}" if c2 is not None else "") + ": " + "; ".join(bad[:3])


def h_finer(ctx, which, njumps, prefix="C15"):
    eps = ctx.real("eps")
    ctx.assume(eps > 0)
    T = ctx.real("T")
    jt = np.empty(njumps, dtype=object)
    jv = np.empty(njumps, dtype=object)
    prev = 0.0
    for i in range(njumps):
        jt[i] = ctx.real(f"tau{i}")
        ctx.assume(AND(jt[i] > prev, jt[i] - prev < 3 * eps))  # bound: every gap is below 3 eps (at most 2 inserted points per gap)
        prev = jt[i]
        jv[i] = ctx.real(f"val{i}")
    ctx.assume(AND(T >= prev, eps < T))
    jt0, jv0 = list(jt), list(jv)
    if which == "levyprocess":
        f = LP.SimulationMaximumStep.create_build_finer_grid_fun(epsilon=eps, maturity=T)
        t2, v2 = f(None, jt, jv)
        c2 = None
    else:
        cv = np.array([ctx.real(f"cval{i}") for i in range(njumps)], dtype=object)
        cv0 = list(cv)
        f = CH.create_build_finer_grid_fun(epsilon=eps, maturity=T)
        t2, v2, c2 = f(None, jt, jv, cv)
    n = len(t2)
    info = {"which": which, "jumps": njumps, "points": n}
    rp = (replay_finer, lambda m: {"which": which, "jt": _vals(m, jt0), "jv": _vals(m, jv0), "cv": _vals(m, cv0) if which != "levyprocess" else None, "eps": m.f(eps), "T": m.f(T)})
    steps = [t2[0]] + [t2[i + 1] - t2[i] for i in range(n - 1)]
    ctx.prove(f"{prefix}.maxstep.every_step_at_most_epsilon", AND(*[s <= eps for s in steps]), info=info, replay=rp)
    ctx.prove(f"{prefix}.maxstep.times_strictly_increasing", AND(t2[0] > 0, *[t2[i] < t2[i + 1] for i in range(n - 1)]), info=info, replay=rp)
    ctx.prove(f"{prefix}.maxstep.arrays_aligned", len(v2) == n and (c2 is None or len(c2) == n), info=info, replay=rp)
    # original pairs kept in order; inserted points repeat the preceding value (0 before the first jump)
    j = 0
    prev_v, prev_c = 0.0, 0.0
    ok_terms = []
    for i in range(n):
        if j < njumps and bool(EQ(t2[i], jt0[j])):
            ok_terms.append(EQ(v2[i], jv0[j]))
            if c2 is not None:
                ok_terms.append(EQ(c2[i], cv0[j]))
            prev_v = jv0[j]
            prev_c = cv0[j] if c2 is not None else 0.0
            j += 1
        else:
            ok_terms.append(EQ(v2[i], prev_v))
            if c2 is not None:
                ok_terms.append(EQ(c2[i], prev_c))
    ctx.prove(f"{prefix}.maxstep.original_points_kept_in_order", j == njumps, info=info, replay=rp)
    ctx.prove(f"{prefix}.maxstep.values_kept_and_inserted_points_repeat_predecessor", AND(*ok_terms), info=info, replay=rp)


def replay_finer_nd(sc):
    jt = np.array(sc["jt"], dtype=float)
    jv = np.array(sc["jv"], dtype=float)  # shape (d, n)
    eps, T = sc["eps"], sc["T"]
    f = LP.SimulationMaximumStep.create_build_finer_grid_fun(epsilon=eps, maturity=T)
    t2, v2 = f(None, jt.copy(), jv.copy())
    t2, v2 = np.asarray(t2, dtype=float), np.asarray(v2, dtype=float)
    bad = []
    if v2.shape != (jv.shape[0], len(t2)):
        bad.append(f"values have shape {v2.shape} for {len(t2)} times")
    else:
        for i, t in enumerate(t2):
            k = int(np.searchsorted(jt, t + 1e-12, side="right")) - 1
            want = jv[:, k] if k >= 0 else np.zeros(jv.shape[0])
            if not np.allclose(v2[:, i], want, atol=1e-12):
                bad.append(f"at t={t!r} the components are {v2[:, i].tolist()}, the piecewise-constant path there is {want.tolist()}")
    return bool(bad), f"build_finer_grid(eps={eps}, T={T}) on times {jt.tolist()} and component values {jv.tolist()}: " + "; ".join(bad[:3])


def h_finer_nd(ctx, njumps, d=2):
    """jump values with d components (shape (d, n), what the copula chain hands to the refinement): every component of an inserted point
    repeats that component's preceding value"""
    eps = ctx.real("eps")
    ctx.assume(eps > 0)
    T = ctx.real("T")
    jt = np.empty(njumps, dtype=object)
    jv = np.empty((d, njumps), dtype=object)
    prev = 0.0
    for i in range(njumps):
        jt[i] = ctx.real(f"tau{i}")
        ctx.assume(AND(jt[i] > prev, jt[i] - prev < 3 * eps))
        prev = jt[i]
        for c in range(d):
            jv[c, i] = ctx.real(f"val{c}_{i}")
    ctx.assume(AND(T >= prev, eps < T))
    jt0 = list(jt)
    jv0 = [[jv[c, i] for i in range(njumps)] for c in range(d)]
    f = LP.SimulationMaximumStep.create_build_finer_grid_fun(epsilon=eps, maturity=T)
    t2, v2 = f(None, jt, jv)
    n = len(t2)
    info = {"jumps": njumps, "points": n, "components": d}
    rp = (replay_finer_nd, lambda m: {"jt": _vals(m, jt0), "jv": [_vals(m, row) for row in jv0], "eps": m.f(eps), "T": m.f(T)})
    ctx.prove("C15.maxstep.arrays_aligned", np.shape(v2) == (d, n), info=info, replay=rp)
    if np.shape(v2) != (d, n):
        return
    j = 0
    prev_v = [0.0] * d
    ok_terms = []
    for i in range(n):
        if j < njumps and bool(EQ(t2[i], jt0[j])):
            prev_v = [jv0[c][j] for c in range(d)]
            j += 1
        ok_terms += [EQ(v2[c, i], prev_v[c]) for c in range(d)]
    ctx.prove("C15.maxstep.every_component_of_an_inserted_point_repeats_its_own_predecessor", AND(*ok_terms), info=info, replay=rp)


def replay_lastgap(sc):
    class M(StubModel):
        def __init__(self):
            pass

        def intensity(self):
            return 1e-9

        def diffusion_coefficient(self):
            return 0.0

        def jump_increment(self, n):
            return np.ones(int(n))

    proc = LP.LevyProcess(M())
    prod = StubProduct(np.array([0.0, 1.0]), PayoffDates.STOCHASTIC)
    proc.initialisation(prod, max_step_epsilon=0.25)
    proc.pre_computation(1, prod)
    path = proc.simulate_one_path()
    steps = np.diff(path.times())
    return bool(steps.max() > 0.25 + 1e-12), f"LevyProcess with max_step_epsilon=0.25, maturity 1, no jump: times {path.times().tolist()}"


def h_maxstep_path(ctx):
    """end to end: the returned path (with 0 and the maturity added) respects the cap"""
    shims.RNG.reset()
    shims.POISSON_MAX[0] = 1
    sigma = ctx.real("sigma", 0)
    lam = ctx.real("lam")
    ctx.assume(lam > 0)
    model = StubModel(ctx, sigma, lam)
    proc = LP.LevyProcess(model)
    T = ctx.real("T1")
    ctx.assume(T > 0)
    eps = ctx.real("eps")
    ctx.assume(AND(eps > 0, eps < T, T < 2 * eps))
    times = np.array([0.0, T], dtype=object)
    prod = StubProduct(times, PayoffDates.STOCHASTIC)
    proc.initialisation(prod, max_step_epsilon=eps)
    proc.pre_computation(1, prod)
    path = proc.simulate_one_path()
    tt = path.times()
    steps = [tt[i + 1] - tt[i] for i in range(len(tt) - 1)]
    ctx.prove("C15.maxstep.returned_path_respects_the_cap", AND(*[s <= eps for s in steps]), info={"points": len(tt)}, replay=(replay_lastgap, lambda m: {}),
              regions={"gap_between_last_jump_or_origin_and_maturity": True})


def h_twin(ctx):
    eps = ctx.real("eps")
    ctx.assume(eps > 0)
    t0 = ctx.real("tau0")
    ctx.assume(AND(t0 > eps, t0 < 2 * eps))
    f = LP.SimulationMaximumStep.create_build_finer_grid_fun(epsilon=eps, maturity=3 * eps)
    t2, v2 = f(None, np.array([t0], dtype=object), np.array([ctx.real("v0")], dtype=object))
    ctx.prove("C15.twin.no_point_inserted", len(t2) == 1)


def concrete_validation():
    ok, d = replay_finer({"which": "levyprocess", "jt": [0.4, 0.5, 1.3], "jv": [1.0, 2.0, 3.0], "eps": 0.3, "T": 1.5})
    return [("C15.concrete.finer_grid", not ok, d)]


def harnesses(tier):
    q = tier == "quick"
    hs = [Harness("concrete", concrete_validation, concrete=True)]
    for nd in ((1, 2) if q else (1, 2, 3)):
        hs.append(Harness(f"fixed.{nd}", h_fixed, {"ndates": nd}, max_paths=4000, batch=20))
    hs.append(Harness("copula.chain.diffusion", h_copula_diffusion, max_paths=200))
    hs.append(Harness("copula.coupled.caps", h_copula_caps, max_paths=50, batch=2))
    for nd in (1, 2):
        hs.append(Harness(f"copula.fixed.{nd}", h_copula_fixed_dates, {"ndates": nd}, max_paths=200, batch=3))
    for nd in (1, 2) if q else (1, 2, 3):
        hs.append(Harness(f"chain.jumptimes.{nd}", h_chain_jumptimes, {"ndates": nd}, max_paths=2000, batch=20))
    for nd, pm in (((1, 2), (2, 2)) if q else ((1, 2), (2, 2), (1, 4), (3, 1))):
        hs.append(Harness(f"jumptimes.{nd}.p{pm}", h_jumptimes, {"ndates": nd, "pmax": pm}, max_paths=20000, batch=20))
    for which in ("levyprocess", "coupling"):
        for nj in ((1, 2) if q else (1, 2, 3)):
            hs.append(Harness(f"finer.{which}.{nj}", h_finer, {"which": which, "njumps": nj}, max_paths=20000, batch=20))
    for nj in ((1, 2) if q else (1, 2, 3)):
        hs.append(Harness(f"finer.2components.{nj}", h_finer_nd, {"njumps": nj}, max_paths=20000, batch=20))
    from .c03_coupling import h_coupled_jumptimes  # the coupled simulators' path assembly (same harness as C03's, reported here)

    hs.append(Harness("coupled.jumptimes", h_coupled_jumptimes, {"prefix": "C15"}, max_paths=400))
    hs.append(Harness("maxstep.path", h_maxstep_path, max_paths=2000))
    hs.append(Harness("twin", h_twin, twin="must_fail"))
    return hs


EXPECT = ["C15.maxstep.every_component_of_an_inserted_point_repeats_its_own_predecessor", "C15.fixed.jump_component_is_running_sum_of_increments", "C15.fixed.diffusion_component_is_running_sum_of_scaled_normals", "C15.jumptimes.times_non_decreasing",
          "C15.jumptimes.jump_component_is_running_sum", "C15.jumptimes.diffusion_component_is_running_sum_of_scaled_normals", "C15.maxstep.every_step_at_most_epsilon",
          "C15.maxstep.values_kept_and_inserted_points_repeat_predecessor", "C15.maxstep.returned_path_respects_the_cap",
          "C15.path_value_is_jump_plus_diffusion_each_time_it_is_read", "C15.reading_the_path_value_leaves_its_components_unchanged",
          "C15.chain.jumptimes.jump_component_is_running_sum_over_the_whole_path", "C15.chain.jumptimes.one_sampled_increment_per_jump",
          "C15.copula.fixed.a_path_is_produced_for_every_number_of_product_dates",
          "C15.copula.coupled_maxstep.each_level_refines_with_its_own_cap",
          "C15.copula.chain.diffusion_component_is_running_sum_of_scaled_correlated_normals"]


def main(tier):
    bounds = {"histories_and_variants": 'path.value() read twice; chain simulator at jump times: <= 2 (quick) / 3 product-date intervals, 0..2 jumps each, scripted increments; copula chain at 1-2 fixed dates (concrete models, solver-chosen jump counts); copula coupling through two next_level calls with caps 1/k1 > 1/k2; copula-chain Brownian part over 2 steps',
              "dates": "<= 2 (quick) / 3 (thorough) product dates, symbolic", "jumps": "jump-time mode: (dates, jumps per interval) <= (1,2), (2,2) quick; plus (1,4), (3,1) thorough; fixed-date mode <= 2 jumps per interval; "
              "<= 2/3 jump times for the refinement, every gap below 3 epsilon",
              "outside": "copula and coupled simulators' path assembly (same helpers; their jump values are C01/C03), float rounding of cumulative sums"}
    return run_check(PID, tier, harnesses(tier), expect=EXPECT, bounds=bounds,
                     assumptions=COMMON_ASSUMPTIONS + ["RNG model: every draw is a fresh symbol in its range; Poisson counts in [0,2]", "sqrt as UF with sqrt(t)^2 = t"])


if __name__ == "__main__":
    sys.exit(main(sys.argv[1] if len(sys.argv) > 1 else "quick"))
