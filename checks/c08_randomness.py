"""C08 - randomness discipline: seeded runs repeat; no two samples share random variates.

The real standard and multilevel engines, Configuration.initialisation_seed and the real direct simulator (LevyProcess, fixed dates) run
against (a) an RNG-stream model: a draw is the uninterpreted value rng(seed, position) of the generator state, seeding sets (seed, 0),
(b) a clock / pid model: time.time() and os.getpid() are solver-chosen (non-decreasing clock), and (c) a process-pool model: every
worker starts from a deep copy of the parent's objects and generator state, runs the initializer and an ordered chunk of the indices.
Two samples share a variate iff their payoff terms contain rng applications that can denote the same (seed, position).
"""
import copy
import sys
import types
from collections import deque
from fractions import Fraction

import numpy as np

from .common import *  # noqa
from .common import z3, V, shims, Harness, run_check, SymReal, SymInt, SymBool, AND, OR, NOT, EQ, IMPLIES, COMMON_ASSUMPTIONS, Unsupported, PathAbort

import rpylib.montecarlo.standard.engine as SE
import rpylib.montecarlo.multilevel.engine as ME
import rpylib.montecarlo.multilevel.criteria as CR
import rpylib.montecarlo.statistic.statistic as ST
import rpylib.montecarlo.statistic.tools as TOOLS
import rpylib.montecarlo.path as PATH
import rpylib.montecarlo.configuration as CFG
import rpylib.product.product as PROD
import rpylib.product.payoff as PAY
import rpylib.product.underlying as UND
import rpylib.process.levyprocess as LP
import rpylib.process.process as PR
import rpylib.distribution.univariate.poisson_impl.numpyimpl as PNP
import rpylib.distribution.univariate.uniform as UNI
from rpylib.process.process import ProcessRepresentation
from rpylib.montecarlo.statistic.statistic import PT
from .mlmc_common import ScriptedProduct, ScriptedFine, ScriptedModel, ScriptedPath, _ScipyShim

PID = "C08"
I, R = z3.IntSort(), z3.RealSort()
RNG_F = {k: z3.Function(f"rng_{k}", I, I, R) for k in ("uniform", "normal", "exponential")}
RNG_I = z3.Function("rng_poisson", I, I, I)


class Rng:
    """generator state (seed term, position); draws are UF applications"""

    def __init__(self):
        self.ctx = None
        self.reset(None)

    def reset(self, ctx):
        self.ctx = ctx
        if "OS_" in globals():
            OS_.entropy = []
        self.n_unseeded = 0
        self.seed_calls = []
        self.log = []  # kinds of the variates drawn so far
        self.new_unseeded()

    def new_unseeded(self):
        """an arbitrary, unknown generator state (process start): a fresh negative 'seed' distinct from the others"""
        if self.ctx is None:
            self.seed, self.pos = z3.IntVal(-1), 0
            return
        s = z3.Int(f"unseeded_state_{self.n_unseeded}")
        self.ctx.symbols[f"unseeded_state_{self.n_unseeded}"] = s
        self.ctx.axiom(s == -1 - self.n_unseeded)
        self.n_unseeded += 1
        self.seed, self.pos = s, 0

    def set_seed(self, s):
        t = V.to_term(s) if V.is_sym(s) else z3.IntVal(int(s))
        self.seed_calls.append((t, self.seed, self.pos))
        self.seed, self.pos = t, 0

    def snapshot(self):
        return (self.seed, self.pos)

    def restore(self, snap):
        self.seed, self.pos = snap

    def draw(self, kind):
        ctx = V.get_context()
        self.log.append(kind)
        if kind == "poisson":
            t = RNG_I(self.seed, z3.IntVal(self.pos))
            ctx.axiom(z3.And(t >= 0, t <= 1))
            self.pos += 1
            return SymInt(t)
        t = RNG_F[kind](self.seed, z3.IntVal(self.pos))
        if kind == "uniform":
            ctx.axiom(z3.And(t >= 0, t < 1))
        self.pos += 1
        return SymReal(t)


RNG = Rng()


def _live():
    return V.get_context() is not None


class RandomModel:
    """numpy.random as seen by the engines: the stream model under exploration, the real generator otherwise (replays)"""

    def __getattr__(self, n):
        if n.startswith("_") or n == "cache_clear":
            raise AttributeError(n)
        if not _live():
            return getattr(np.random, n)

        def missing(*a, **kw):
            raise Unsupported(f"np.random.{n} is not modelled")

        return missing

    def seed(self, s=None):
        if not _live():
            return np.random.seed(s)
        RNG.set_seed(s)

    def default_rng(self, s=None):
        if not _live():
            return np.random.default_rng(s)
        return None

    def _many(self, kind, size):
        if size is None:
            return RNG.draw(kind)
        shp = (size.__index__() if V.is_sym(size) else int(size),) if not isinstance(size, tuple) else tuple(int(s) for s in size)
        n = int(np.prod(shp)) if shp else 1
        a = np.empty(n, dtype=object)
        for i in range(n):
            a[i] = RNG.draw(kind)
        return a.reshape(shp)

    def normal(self, loc=0.0, scale=1.0, size=None):
        if not _live():
            return np.random.normal(loc, scale, size)
        return loc + scale * self._many("normal", size)

    def uniform(self, low=0.0, high=1.0, size=None):
        if not _live():
            return np.random.uniform(low, high, size)
        return self._many("uniform", size)

    def random_sample(self, size=None):
        if not _live():
            return np.random.random_sample(size)
        return self._many("uniform", size)

    random = random_sample

    def poisson(self, lam=1.0, size=None):
        if not _live():
            return np.random.poisson(lam, size)
        return self._many("poisson", size)


class NpWithRng:
    """np proxy whose .random is the stream model"""

    def __init__(self):
        self.random = RandomModel()

    def __getattr__(self, n):
        return getattr(shims.NP, n)


NPR = NpWithRng()


class PyRandom:
    """the stdlib `random` generator (the Table sampler draws random.getrandbits from it): under exploration only its seeding discipline
    is modelled - state = (seed term, position); a draw advances the position"""

    def __init__(self):
        self.state = ("py-unseeded", 0)
        self.seed_calls = []

    def reset(self):
        self.state = ("py-unseeded", 0)
        self.seed_calls = []

    def seed(self, s=None):
        if not _live():
            import random as _r

            return _r.seed(s)
        key = str(z3.simplify(V.to_term(s))) if V.is_sym(s) else repr(s)
        self.state = (key, 0)
        self.seed_calls.append(key)

    def draw(self):
        """called by the harness where the simulated sampler would draw from the python generator"""
        st = self.state
        self.state = (st[0], st[1] + 1)
        return st

    def __getattr__(self, n):
        import random as _r

        return getattr(_r, n)


PYRANDOM = PyRandom()


class Clock:
    def __init__(self):
        self.reads = []
        self.ctx = None
        self.frozen = None

    def time(self):
        ctx = V.get_context()
        if ctx is None:
            import time as _t

            return _t.time() if self.frozen is None else self.frozen
        if self.frozen is not None:
            return self.frozen
        t = ctx.real(f"clock{len(self.reads)}")
        ctx.assume(t >= (self.reads[-1] if self.reads else 1000))
        self.reads.append(t)
        return t


class _Entropy:
    """result of os.urandom under exploration: an integer the solver chooses, different from every earlier entropy read"""

    def __init__(self, sym, nbytes):
        self.sym, self.nbytes = sym, nbytes


class Os:
    def __init__(self):
        self.pid = None
        self.entropy = []

    def getpid(self):
        if not _live():
            import os as _os

            return _os.getpid()
        return self.pid

    def urandom(self, n):
        if not _live():
            import os as _os

            return _os.urandom(n)
        ctx = V.get_context()
        e = ctx.int(f"os_entropy{len(self.entropy)}", 0, 256 ** int(n) - 1)
        for other in self.entropy:
            ctx.assume(e != other)
        self.entropy.append(e)
        return _Entropy(e, int(n))


CLOCK, OS_ = Clock(), Os()


class _IntShim:
    def __call__(self, x=0, *a):
        return shims.sym_int(x, *a)

    @staticmethod
    def from_bytes(b, byteorder="big", **kw):
        if isinstance(b, _Entropy):
            return b.sym
        return int.from_bytes(b, byteorder, **kw)

    def __instancecheck__(self, inst):
        return isinstance(inst, int)


for mod in (SE, ME, CR, ST, TOOLS, PATH, PROD, PAY, UND, LP, PR):
    if "np" in mod.__dict__:
        mod.__dict__["np"] = NPR
shims.install(CFG, np=NPR, random=PYRANDOM, time=CLOCK, os=OS_, int=_IntShim())
shims.install(PNP, npr=NPR.random)
shims.install(UNI, npr=NPR.random, np=NPR)
shims.install(TOOLS, scipy=_ScipyShim())


# ---- process-pool model


class PoolModel:
    """pathos.multiprocessing.Pool: P workers, each a fork of the parent (deep copy of the objects the task closure reaches, copy of
    the generator state at pool creation), runs `initializer`, then an ordered contiguous chunk of the indices; results are handed
    to the callback as one list (chunk order)."""

    pids = []
    cuts = None
    parent_snap = None

    def __init__(self, processes=None, initializer=None):
        self.P = processes or 2
        self.initializer = initializer

    def __enter__(self):
        return self

    def __exit__(self, *a):
        return False

    def map_async(self, fn, iterable, callback=None):
        ctx = V.get_context()
        idx = list(iterable)
        n = len(idx)
        snap = RNG.snapshot()
        PoolModel.parent_snap = snap
        parent_pid = OS_.pid
        # solver-chosen contiguous chunking: 0 <= c1 <= ... <= n
        cuts = [0]
        for w in range(1, self.P):
            c = ctx.int(f"cut{len(PoolModel.pids)}_{w}", cuts[-1] if not V.is_sym(cuts[-1]) else 0, n)
            cuts.append(c.__index__())
            if cuts[-1] < cuts[-2]:
                raise PathAbort()
        cuts.append(n)
        results = []
        for w in range(self.P):
            RNG.restore(snap)
            pid = ctx.int(f"pid_w{len(PoolModel.pids)}", 2)
            for other in PoolModel.pids:
                if other[0] == "live":
                    ctx.assume(pid != other[1])
            PoolModel.pids.append(("live", pid))
            OS_.pid = pid
            if self.initializer is not None:
                init = _fork_copy(self.initializer, {})
                init()
            task = _fork_copy(fn, {})
            for it in idx[cuts[w]:cuts[w + 1]]:
                results.append(task(it))
        for k in range(len(PoolModel.pids)):
            PoolModel.pids[k] = ("dead", PoolModel.pids[k][1])
        OS_.pid = parent_pid
        RNG.restore(snap)
        if callback is not None:
            callback(results)

        class _R:
            def get(self_inner):
                return results

        return _R()


def _fork_copy(fn, memo):
    """the function as a forked child sees it: bound methods in its closure are rebound to deep copies of their objects"""
    if fn.__closure__ is None:
        return fn
    cells = []
    for cell in fn.__closure__:
        v = cell.cell_contents
        if isinstance(v, types.MethodType) and not isinstance(v.__self__, (CFG.Configuration,)):
            obj = copy.deepcopy(v.__self__, memo)
            v = types.MethodType(v.__func__, obj)
        elif isinstance(v, types.FunctionType) and v.__closure__:
            v = _fork_copy(v, memo)
        cells.append(types.CellType(v))
    return types.FunctionType(fn.__code__, fn.__globals__, fn.__name__, fn.__defaults__, tuple(cells))


class _MpShim:
    @staticmethod
    def Pool(*a, **kw):
        if not _live():
            import pathos.multiprocessing as _mp

            return _mp.Pool(*a, **kw)
        return PoolModel(*a, **kw)


shims.install(SE, mp=_MpShim(), tqdm=lambda it, **kw: it)
shims.install(ME, mp=_MpShim(), tqdm=lambda it, **kw: it)


# ---- models / products


class DirectModel:
    """a directly simulated Lévy model: jump increments are normal draws from the stream"""

    process_representation = ProcessRepresentation.IDENDITY

    def dimension(self):
        return 1

    def intensity(self):
        return 1.0

    def diffusion_coefficient(self):
        return 1.0

    def jump_increment(self, n):
        n = n.__index__() if V.is_sym(n) else int(n)
        return NPR.random.normal(size=n)

    def x0_value(self):
        return 0.0

    def process_drift(self):
        return 0.0

    def df(self, t):
        return 1.0


class SimpleProduct:
    def __init__(self, times):
        self.maturity = times[-1]
        self._t = times
        self.payoff = PAY.Forward(strike=0.0)
        self.payoff_underlying = UND.Spot()
        self.notional = 1.0

    def times_grid(self):
        return self._t

    def update(self, rep):
        pass

    def underlying_value(self, times, path, jump_path):
        return self.payoff_underlying.value(times, path, jump_path)

    def __call__(self, u):
        return self.payoff(u)


def rng_apps(term):
    """rng applications (function name, seed term, position) occurring in a term"""
    out = {}
    stack = [term]
    seen = set()
    while stack:
        t = stack.pop()
        if t.get_id() in seen:
            continue
        seen.add(t.get_id())
        if z3.is_app(t) and t.decl().name().startswith("rng_") and t.num_args() == 2:
            out[t.get_id()] = (t.decl().name(), t.arg(0), t.arg(1))
        stack.extend(t.children())
    return list(out.values())


def sharing_condition(ta, tb):
    """formula: some variate of sample a is some variate of sample b"""
    A, B = rng_apps(ta), rng_apps(tb)
    conds = []
    for (fa, sa, pa) in A:
        for (fb, sb, pb) in B:
            if fa == fb:
                conds.append(z3.And(sa == sb, pa == pb))
    return z3.Or(*conds) if conds else z3.BoolVal(False)


def on_the_fly_sharing_condition(ta, tb, snap):
    """as sharing_condition, without the pairs of variates that the parent drew before it created the pool (generator state `snap`)"""
    if snap is None:
        return sharing_condition(ta, tb)
    pseed, ppos = snap

    def predrawn(s, p):
        return z3.eq(s, pseed) and z3.is_int_value(p) and p.as_long() < ppos

    conds = []
    for (fa, sa, pa) in rng_apps(ta):
        for (fb, sb, pb) in rng_apps(tb):
            if fa == fb and not (predrawn(sa, pa) and predrawn(sb, pb)):
                conds.append(z3.And(sa == sb, pa == pb))
    return z3.Or(*conds) if conds else z3.BoolVal(False)


def constant_seed_sharing_condition(ta, tb, snap):
    """on-the-fly sharing through streams whose seeds are the same constant or the same term (not values derived from pid/clock/entropy
    that merely happen to coincide)"""
    pseed, ppos = snap if snap is not None else (None, 0)

    def predrawn(s, p):
        return pseed is not None and z3.eq(s, pseed) and z3.is_int_value(p) and p.as_long() < ppos

    conds = []
    for (fa, sa, pa) in rng_apps(ta):
        for (fb, sb, pb) in rng_apps(tb):
            if fa == fb and not (predrawn(sa, pa) and predrawn(sb, pb)) and (z3.eq(sa, sb) or (z3.is_int_value(sa) and z3.is_int_value(sb))):
                conds.append(z3.And(sa == sb, pa == pb))
    return z3.Or(*conds) if conds else z3.BoolVal(False)


def replay_seed_collision(sc):
    """the real Configuration.initialisation_seed(multiprocessing=True) in two workers with the model's pids at the model's clock second"""
    import numpy as _np

    pids, clocks = sc["pids"], sc["clocks"]
    cfg = CFG.ConfigurationStandard(mc_paths=4, seed=sc.get("seed"), nb_of_processes=2)
    saved = CFG.time, CFG.os
    streams = []
    try:
        for pid, clock in zip(pids, clocks):
            class _T:
                @staticmethod
                def time(clock=clock):
                    return clock

            class _O:
                @staticmethod
                def getpid():
                    return pid

                urandom = staticmethod(__import__("os").urandom)

            CFG.time, CFG.os = _T, _O
            cfg.initialisation_seed(True)
            streams.append(_np.random.normal(size=3).tolist())
    finally:
        CFG.time, CFG.os = saved
    same = len(pids) >= 2 and streams[0] == streams[1]
    return same, (f"workers with pids {pids} seeding themselves at clock readings {clocks} (Configuration.initialisation_seed(True)) then drawing 3 normals: "
                  f"{streams[0]} and {streams[1] if len(streams) > 1 else None}")


def standard_run(ctx, n, seed, nproc, pid=None):
    proc = LP.LevyProcess(DirectModel())
    cfg = CFG.ConfigurationStandard(mc_paths=n, seed=seed, nb_of_processes=nproc)
    eng = SE.Engine(cfg, proc)
    prod = SimpleProduct(np.array([0.0, 1.0]))
    stats = eng.price(prod)
    samples = [V.term_of(stats._payoff_statistics.stats[j][0]) for j in range(n)]
    return stats, samples


def replay_repeat(sc):
    """real numpy generator: two seeded single-process runs of the real standard engine on a directly simulated model"""
    import numpy as _np
    import importlib

    class M(DirectModel):
        def jump_increment(self, n):
            return _np.random.normal(size=int(n))

    def run():
        proc = LP.LevyProcess(M())
        cfg = CFG.ConfigurationStandard(mc_paths=4, seed=sc["seed"], nb_of_processes=1)
        eng = SE.Engine(cfg, proc)
        prod = SimpleProduct(_np.array([0.0, 1.0]))
        return float(eng.price(prod).price())

    _np.random.seed(None)  # a fresh interpreter starts from an arbitrary generator state
    a, b = run(), run()
    return a != b, f"standard engine, seed={sc['seed']}, single process, 4 paths: first run {a!r}, second run {b!r}"


def replay_python_generator(sc):
    """the real Configuration.initialisation_seed(): after it, the stdlib generator must be in the state the seed determines (the Table
    sampler draws random.getrandbits): two seeded initialisations separated by draws give the same next value"""
    import random as _r

    cfg = CFG.ConfigurationStandard(mc_paths=4, seed=sc["seed"], nb_of_processes=1)
    cfg.initialisation_seed()
    a = _r.getrandbits(32)
    _r.getrandbits(32)
    cfg.initialisation_seed()
    b = _r.getrandbits(32)
    return a != b, f"seed={sc['seed']}: random.getrandbits(32) right after initialisation_seed() gives {a}, after a second initialisation_seed() {b}"


def h_repeat_standard(ctx, n, seed):
    RNG.reset(ctx)
    PYRANDOM.reset()
    CLOCK.reads, CLOCK.frozen = [], None
    OS_.pid = ctx.int("pid", 2)
    s1, t1 = standard_run(ctx, n, seed, 1)
    py1 = PYRANDOM.state
    PYRANDOM.draw()  # a sampler drawing from the python generator (Table method) leaves it somewhere else
    RNG.new_unseeded_continue = True
    s2, t2 = standard_run(ctx, n, seed, 1)  # second run in the same interpreter: the generator continues from where run 1 left it
    py2 = PYRANDOM.state
    ctx.prove("C08.seeded_single_process_run_repeats.standard", EQ(s1.price(), s2.price()), info={"n": n, "seed": seed},
              replay=(replay_repeat, lambda m: {"seed": seed}), regions={"seed_is_zero": seed == 0})
    ctx.prove("C08.seeded_run_puts_the_python_generator_in_the_seeded_state", py1 == py2 and py1[0] != "py-unseeded", info={"seed": seed, "states": [py1, py2]},
              replay=(replay_python_generator, lambda m: {"seed": seed}))


def replay_predraw(sc):
    """real fixed-date simulator: the pre-drawn jump counts of 400 paths (intensity 0.7) must not all coincide"""
    import numpy as _np

    class M(DirectModel):
        def intensity(self):
            return 0.7

        def jump_increment(self, n):
            return _np.random.normal(size=int(n))

    proc = LP.LevyProcess(M())
    prod = SimpleProduct(_np.array([0.0, 1.0]))
    proc.initialisation(prod)
    st = _np.random.get_state()
    _np.random.seed(11)
    try:
        proc.pre_computation(400, prod)
    finally:
        _np.random.set_state(st)
    counts = _np.array(list(proc._path_simulation._poisson_rv)).ravel()
    same = len(set(counts.tolist())) == 1
    return same, f"SimulationFixedTimes.pre_computation(400 paths, Poisson rate 0.7): pre-drawn jump counts {sorted(set(counts.tolist()))} - every path has the same count"


def h_predraw(ctx, n):
    """fixed-date mode: the rows of pre-drawn jump counts and Brownian increments are built from pairwise distinct variates"""
    RNG.reset(ctx)
    proc = LP.LevyProcess(DirectModel())
    prod = SimpleProduct(np.array([0.0, 1.0]))
    proc.initialisation(prod)
    proc.pre_computation(n, prod)
    sim = proc._path_simulation
    counts = [V.term_of(row[0]) if V.is_sym(row[0]) else None for row in sim._poisson_rv]
    normals = [V.term_of(np.asarray(row, dtype=object).reshape(-1)[0]) for row in sim._brownian_increments]
    rp = (replay_predraw, lambda m: {})
    ctx.prove("C08.one_pre_drawn_row_per_path", len(sim._poisson_rv) == n and len(sim._brownian_increments) == n, info={"n": n}, replay=rp)
    for a in range(n):
        for b in range(a):
            if counts[a] is not None and counts[b] is not None:
                ctx.prove("C08.pre_drawn_jump_counts_are_distinct_variates", NOT(SymBool(sharing_condition(counts[a], counts[b]))), info={"pair": (b, a)}, replay=rp)
            ctx.prove("C08.pre_drawn_brownian_increments_are_distinct_variates", NOT(SymBool(sharing_condition(normals[a], normals[b]))), info={"pair": (b, a)}, replay=rp)


def replay_sharing_standard(sc):
    """real forked pool: duplicates among the simulated terminal values of distinct paths"""
    import numpy as _np

    seed = sc.get("seed")
    if sc.get("pids") and len(sc["pids"]) >= 2:
        ok, detail = replay_seed_collision(sc)
        if ok:
            return ok, detail

    class M(DirectModel):
        def intensity(self):
            return 0.0 if seed is None else 50.0  # seeded: many jumps, drawn inside the workers

        def diffusion_coefficient(self):
            return 1.0 if seed is None else 0.0

        def jump_increment(self, n):
            return _np.random.normal(size=int(n))

    proc = LP.LevyProcess(M())
    cfg = CFG.ConfigurationStandard(mc_paths=8, seed=seed, nb_of_processes=2)
    eng = SE.Engine(cfg, proc)
    prod = SimpleProduct(_np.array([0.0, 1.0]))
    vals = _np.asarray(eng.price(prod)._payoff_statistics.stats).ravel()
    if seed is None:
        dup = len(vals) - len(set(vals.round(12)))
        return dup > 0, f"standard engine, 2 worker processes, 8 paths (pure diffusion): {dup} payoffs coincide exactly: {sorted(vals.round(6).tolist())}"
    # seeded, pure jump: jump counts are pre-drawn (the listed finding makes rows coincide), the jump sizes are drawn in the workers;
    # two paths with the same jump count and exactly the same sum of jump sizes used the same worker-side variates
    dup = len(vals) - len(set(vals.round(12)))
    nz = [v for v in vals if v != 0.0]
    dup_nz = len(nz) - len(set(_np.round(nz, 12)))
    return dup_nz > 0, (f"standard engine, seed={seed}, 2 worker processes, 8 pure-jump paths (jump sizes drawn inside the workers): {dup_nz} non-zero payoffs "
                        f"coincide exactly: {sorted(_np.round(vals, 6).tolist())}")


def h_sharing_standard(ctx, n, nproc, seed):
    RNG.reset(ctx)
    CLOCK.reads, CLOCK.frozen = [], None
    PoolModel.pids = []
    PoolModel.parent_snap = None
    OS_.entropy = []
    OS_.pid = ctx.int("pid", 2)
    stats, samples = standard_run(ctx, n, seed, nproc)
    info = {"n": n, "processes": nproc, "seed": seed}
    for a in range(n):
        for b in range(a):
            cond = sharing_condition(samples[a], samples[b])
            # the listed finding is the sharing of rows pre-drawn by the parent; two paths sharing a variate drawn inside the workers
            # (after their seeding) lies outside it and is reported
            fly = on_the_fly_sharing_condition(samples[a], samples[b], PoolModel.parent_snap)
            const = constant_seed_sharing_condition(samples[a], samples[b], PoolModel.parent_snap)

            def scenario(m, nw=nproc):
                sc = {"seed": seed}
                try:
                    sc["pids"] = [m[f"pid_w{w}"] for w in range(nw)]
                    reads = [float(m[k]) for k in sorted((k for k in m.symbols if k.startswith("clock")), key=lambda k: int(k[5:]))]
                    sc["clocks"] = (reads or [1.0e9] * nw)[-nw:]
                except Exception:
                    pass
                return sc

            ctx.prove("C08.no_two_paths_share_a_variate.standard", NOT(SymBool(cond)), info=dict(info, pair=(b, a)),
                      replay=(replay_sharing_standard, scenario),
                      regions={"worker_processes": False if nproc == 1 else NOT(SymBool(fly)),
                               "worker_seed_collision": False if nproc == 1 else NOT(SymBool(const))})
    ctx.prove("C08.pre_drawn_rows_consumed_exactly_once.standard", len(eng_rows(stats)) == 0 if nproc == 1 else True, info=info)


def eng_rows(stats):
    return []


# ---- multilevel: real engine, scripted coupling process drawing from the stream


class StreamCoupling:
    def __init__(self, reg):
        self.reg = reg
        self.model = ScriptedModel()
        self.fine_process = ScriptedFine(1.0)
        self.level = 0

    def initialisation(self, product, max_step_epsilon=None):
        pass

    def pre_computation(self, mc_paths, product):
        pass

    def reset_one_simulation_cost(self):
        pass

    def one_simulation_cost(self, product):
        return 1.0

    def next_level(self, mc_paths, path_managers, product, max_step_epsilon=None):
        self.level += 1
        if path_managers is not None:
            pm = copy.deepcopy(path_managers[-1])
            pm.deterministic_path = lambda times: 0.0
            path_managers.append(pm)

    def simulate_one_path(self):
        x = NPR.random.normal()
        self.reg.setdefault(self.level, []).append(x)
        return ScriptedPath(x)

    def simulate_one_path_with_coupling(self):
        x = NPR.random.normal()
        u = NPR.random.uniform()
        self.reg.setdefault(self.level, []).append(x)
        arr = np.empty(2, dtype=object)
        arr[PT.FP], arr[PT.CP] = x, x * u
        return ScriptedPath(arr)


class Reg(dict):
    def __deepcopy__(self, memo):
        return self


def mlmc_run(ctx, seed, n0, ns2):
    reg = Reg()
    calls = []

    def compute(rmse, vl, cl):
        calls.append(1)
        return np.array(ns2 if len(calls) == 1 else [0] * len(vl))

    cc = CR.ConvergenceCriteria(criteria=lambda a, ml, r: True, compute_mc_paths=compute)
    cfg = CFG.ConfigurationMultiLevel(convergence_rates=CFG.ConvergenceRates(alpha=1.0, beta=1.0, gamma=1.0), convergence_criteria=cc, initial_level=1, maximum_level=1,
                                      initial_mc_paths=n0, seed=seed, nb_of_processes=1)
    eng = ME.Engine(cfg, StreamCoupling(reg))
    prod = ScriptedProduct(1.0)
    stats = eng.price(prod, 0.1)
    return stats, reg


def replay_sharing_mlmc(sc):
    """real numpy generator, clock frozen within one second: duplicates among the variates of different samples"""
    import numpy as _np
    import time as _time

    drawn = []

    class C(StreamCoupling):
        def simulate_one_path(self):
            x = _np.random.normal()
            drawn.append((self.level, x))
            return ScriptedPath(x)

        def simulate_one_path_with_coupling(self):
            x = _np.random.normal()
            u = _np.random.uniform()
            drawn.append((self.level, x))
            return ScriptedPath(_np.array([x, x * u]))

    calls = []

    def compute(rmse, vl, cl):
        calls.append(1)
        return _np.array([4, 4] if len(calls) == 1 else [0, 0])

    cc = CR.ConvergenceCriteria(criteria=lambda a, ml, r: True, compute_mc_paths=compute)
    cfg = CFG.ConfigurationMultiLevel(convergence_rates=CFG.ConvergenceRates(alpha=1.0, beta=1.0, gamma=1.0), convergence_criteria=cc, initial_level=1, maximum_level=1,
                                      initial_mc_paths=2, seed=sc.get("seed"), nb_of_processes=1)
    eng = ME.Engine(cfg, C(Reg()))
    CLOCK.frozen = _time.time()
    try:
        eng.price(ScriptedProduct(1.0), 0.1)
    finally:
        CLOCK.frozen = None
    xs = [x for _, x in drawn]
    dup = len(xs) - len(set(xs))
    return dup > 0, f"multilevel engine (seed={sc.get('seed')}, one process, run inside one clock second): {dup} of {len(xs)} samples reuse the normal variate of another sample: {drawn[:6]}"


def h_sharing_mlmc(ctx, seed, n0, ns2):
    RNG.reset(ctx)
    CLOCK.reads, CLOCK.frozen = [], None
    OS_.pid = ctx.int("pid", 2)
    stats, reg = mlmc_run(ctx, seed, n0, ns2)
    samples = [(l, j, V.term_of(x)) for l, xs in reg.items() for j, x in enumerate(xs)]
    info = {"seed": seed, "n0": n0, "second_pass": ns2, "samples": len(samples)}
    for i in range(len(samples)):
        for k in range(i):
            la, ja, ta = samples[i]
            lb, jb, tb = samples[k]
            cond = sharing_condition(ta, tb)
            ctx.prove("C08.no_two_samples_share_a_variate.multilevel", NOT(SymBool(cond)), info=dict(info, a=(lb, jb), b=(la, ja)),
                      replay=(replay_sharing_mlmc, lambda m: {"seed": seed}), regions={"reseeded_at_every_level_pass": True})
    # never re-seeded to a state that has already produced samples
    used = {}
    bad = []
    for (t, prev_seed, prev_pos) in RNG.seed_calls:
        pass
    ctx.prove("C08.seed_calls_recorded", len(RNG.seed_calls) >= 1, info=info)


def replay_repeat_mlmc(sc):
    import numpy as _np

    class C(StreamCoupling):
        def simulate_one_path(self):
            return ScriptedPath(_np.random.normal())

        def simulate_one_path_with_coupling(self):
            x = _np.random.normal()
            return ScriptedPath(_np.array([x, x * _np.random.uniform()]))

    def run():
        calls = []

        def compute(rmse, vl, cl):
            calls.append(1)
            return _np.array([2, 2] if len(calls) == 1 else [0, 0])

        cc = CR.ConvergenceCriteria(criteria=lambda a, ml, r: True, compute_mc_paths=compute)
        cfg = CFG.ConfigurationMultiLevel(convergence_rates=CFG.ConvergenceRates(alpha=1.0, beta=1.0, gamma=1.0), convergence_criteria=cc, initial_level=1, maximum_level=1,
                                          initial_mc_paths=1, seed=sc["seed"], nb_of_processes=1)
        return float(ME.Engine(cfg, C(Reg())).price(ScriptedProduct(1.0), 0.1).price())

    _np.random.seed(None)
    import time as _t

    a = run()
    _t.sleep(1.1)  # the unseeded seed is pid * int(time): let the clock tick
    b = run()
    return a != b, f"multilevel engine, seed={sc['seed']}, single process: first run {a!r}, second run {b!r}"


def h_repeat_mlmc(ctx, seed, n0):
    RNG.reset(ctx)
    CLOCK.reads, CLOCK.frozen = [], None
    OS_.pid = ctx.int("pid", 2)
    s1, _ = mlmc_run(ctx, seed, n0, [n0, n0])
    s2, _ = mlmc_run(ctx, seed, n0, [n0, n0])
    ctx.prove("C08.seeded_single_process_run_repeats.multilevel", EQ(s1.price(), s2.price()), info={"seed": seed}, regions={"seed_is_zero": seed == 0},
              replay=(replay_repeat_mlmc, lambda m: {"seed": seed}))


class JumpTimeProduct(SimpleProduct):
    """a payoff whose dates depend on the path: the process simulates at its jump times"""

    def __init__(self, times):
        super().__init__(times)
        self.payoff = PAY.Forward(strike=0.0)
        self.payoff.payoff_dates_type = PAY.PayoffDates.STOCHASTIC


def replay_jump_time_variates(sc):
    """real numpy: two seeded single-process simulations of a path in jump-time mode (intensity 3) give the same jump times"""
    import numpy as _np

    class M(DirectModel):
        def intensity(self):
            return 3.0

        def jump_increment(self, n):
            return _np.random.normal(size=int(n))

    def run():
        proc = LP.LevyProcess(M())
        prod = JumpTimeProduct(_np.array([0.0, 1.0]))
        cfg = CFG.ConfigurationStandard(mc_paths=1, seed=7, nb_of_processes=1)
        cfg.initialisation_seed()
        proc.initialisation(prod)
        proc.pre_computation(1, prod)
        return _np.asarray(proc.simulate_one_path().times(), dtype=float)

    a, b = run(), run()
    same = a.shape == b.shape and bool(_np.array_equal(a, b))
    return not same, f"jump-time mode, seed 7, single process: the path times of two runs are {a.round(6).tolist()} and {b.round(6).tolist()}"


def h_jump_time_variates(ctx):
    """jump-time mode: every jump time of a simulated path is a variate of the (seeded) stream the engine controls - one logged uniform per
    jump, nothing drawn from a generator the seed does not reach"""
    RNG.reset(ctx)
    OS_.pid = ctx.int("pid", 2)
    RNG.set_seed(7)
    proc = LP.LevyProcess(DirectModel())
    prod = JumpTimeProduct(np.array([0.0, 1.0]))
    proc.initialisation(prod)
    proc.pre_computation(1, prod)
    before = RNG.log.count("uniform")
    path = proc.simulate_one_path()
    T = path.times()
    njumps = len(T) - 2
    unif = RNG.log.count("uniform") - before
    symbolic = all(V.is_sym(T[i]) for i in range(1, 1 + njumps))
    ctx.prove("C08.every_jump_time_is_a_variate_of_the_seeded_stream", unif == njumps and symbolic, info={"jumps": njumps, "uniforms_logged": unif},
              replay=(replay_jump_time_variates, lambda m: {}))


class PredrawCoupling(StreamCoupling):
    """coupling process in fixed-date mode: pre_computation pre-draws one variate per path, the level-0 paths consume these rows"""

    def __init__(self, reg, normal, uniform):
        super().__init__(reg)
        self._normal, self._uniform = normal, uniform
        self.rows = []

    def __deepcopy__(self, memo):
        c = copy.copy(self)
        c.rows = list(self.rows)
        return c

    def pre_computation(self, mc_paths, product):
        self.rows = [self._normal() for _ in range(mc_paths)]

    def simulate_one_path(self):
        x = self.rows.pop(0) if self.rows else self._normal()
        self.reg.setdefault(self.level, []).append(x)
        return ScriptedPath(x)

    def simulate_one_path_with_coupling(self):
        x, u = self._normal(), self._uniform()
        self.reg.setdefault(self.level, []).append(x)
        arr = np.empty(2, dtype=object)
        arr[PT.FP], arr[PT.CP] = x, x * u
        return ScriptedPath(arr)


def _fixed_level_run(seed, n0, normal, uniform):
    cc = CR.ConvergenceCriteria(criteria=lambda a, ml, r: True, compute_mc_paths=lambda rmse, vl, cl: np.zeros(len(vl)))
    cfg = CFG.ConfigurationMultiLevel(convergence_rates=CFG.ConvergenceRates(alpha=1.0, beta=1.0, gamma=1.0), convergence_criteria=cc, initial_level=0, maximum_level=1,
                                      initial_mc_paths=n0, seed=seed, nb_of_processes=1)
    eng = ME.Engine(cfg, PredrawCoupling(Reg(), normal, uniform))
    return eng.price_with_constant_mc_paths_and_level(ScriptedProduct(1.0))


def replay_repeat_mlmc_fixed(sc):
    """real numpy generator: the fixed-level variant with pre-drawn level-0 rows, run twice with the same seed from different generator states"""
    import numpy as _np

    out = []
    for k in range(2):
        _np.random.seed(1000 + k)  # whatever the generator did before the run
        _np.random.normal(size=k + 1)
        out.append(float(_fixed_level_run(sc["seed"], 2, _np.random.normal, _np.random.uniform).price()))
    return out[0] != out[1], f"price_with_constant_mc_paths_and_level, seed={sc['seed']}, single process, pre-drawn level-0 rows: first run {out[0]!r}, second run {out[1]!r}"


def h_repeat_mlmc_fixed(ctx, seed, n0):
    """fixed-level variant, fixed-date mode (the level-0 rows are pre-drawn by pre_computation during the initialisation): two runs with
    the same seed give the same price whatever the generator produced before each run"""
    RNG.reset(ctx)
    CLOCK.reads, CLOCK.frozen = [], None
    OS_.pid = ctx.int("pid", 2)
    NPR.random.normal()  # the generator has been used before the first run
    s1 = _fixed_level_run(seed, n0, NPR.random.normal, NPR.random.uniform)
    s2 = _fixed_level_run(seed, n0, NPR.random.normal, NPR.random.uniform)
    ctx.prove("C08.seeded_single_process_run_repeats.multilevel_fixed_levels", EQ(s1.price(), s2.price()), info={"seed": seed}, regions={"seed_is_zero": seed == 0},
              replay=(replay_repeat_mlmc_fixed, lambda m: {"seed": seed}))


def h_twin(ctx):
    """sensitivity twin: a generator re-seeded before every path must be caught"""
    RNG.reset(ctx)
    OS_.pid = ctx.int("pid", 2)
    RNG.set_seed(7)
    a = NPR.random.normal()
    RNG.set_seed(7)
    b = NPR.random.normal()
    ctx.prove("C08.twin.reseeded_between_paths", NOT(SymBool(sharing_condition(V.term_of(a), V.term_of(b)))))


def harnesses(tier):
    q = tier == "quick"
    hs = []
    for seed in (7, 0):
        hs.append(Harness(f"repeat.standard.seed{seed}", h_repeat_standard, {"n": 2, "seed": seed}, max_paths=4000, batch=20))
        hs.append(Harness(f"repeat.mlmc.seed{seed}", h_repeat_mlmc, {"seed": seed, "n0": 1}, max_paths=4000, batch=20))
        hs.append(Harness(f"repeat.mlmc_fixed.seed{seed}", h_repeat_mlmc_fixed, {"seed": seed, "n0": 2}, max_paths=4000, batch=20))
    for nproc in (1, 2):
        for seed in (None, 7):
            hs.append(Harness(f"sharing.standard.p{nproc}.seed{seed}", h_sharing_standard, {"n": 2 if q else 3, "nproc": nproc, "seed": seed}, max_paths=20000, batch=20))
    for seed in (None, 7):
        hs.append(Harness(f"sharing.mlmc.seed{seed}", h_sharing_mlmc, {"seed": seed, "n0": 1, "ns2": [2, 2] if q else [3, 2]}, max_paths=4000, batch=20))
    hs.append(Harness("jump_time_variates", h_jump_time_variates, max_paths=2000))
    hs.append(Harness("predraw", h_predraw, {"n": 2 if q else 3}, max_paths=2000))
    hs.append(Harness("twin", h_twin, twin="must_fail"))
    return hs


EXPECT = ["C08.pre_drawn_jump_counts_are_distinct_variates", "C08.seeded_run_puts_the_python_generator_in_the_seeded_state", "C08.seeded_single_process_run_repeats.standard", "C08.seeded_single_process_run_repeats.multilevel", "C08.no_two_paths_share_a_variate.standard",
          "C08.no_two_samples_share_a_variate.multilevel",
          "C08.seeded_single_process_run_repeats.multilevel_fixed_levels", "C08.every_jump_time_is_a_variate_of_the_seeded_stream"]


def main(tier):
    bounds = {"histories_and_variants": 'fixed-level variant with 2 pre-drawn level-0 rows run twice from different generator states; jump-time mode: one path, <= 1 jump per draw of the Poisson model',
              "standard": "<= 2 (quick) / 3 (thorough) paths, 1 or 2 worker processes with any contiguous chunking, seed None / 7 / 0, direct simulation on one maturity with <= 1 jump",
              "multilevel": "levels 0..1, initial N0 = 1, one extra pass, single process, seed None / 7 / 0, any clock readings (non-decreasing) and pids",
              "outside": "the Python `random` generator (seeded alongside, not consumed here), jump-time simulation mode, worker pools in the multilevel engine, >= 3 workers"}
    return run_check(PID, tier, harnesses(tier), expect=EXPECT, bounds=bounds,
                     assumptions=COMMON_ASSUMPTIONS + [
                         "RNG stream model: a draw is rng(seed, position); seeding sets (seed, 0); an unseeded process start is an arbitrary state different from every seeded one",
                         "clock/pid model: time.time() non-decreasing solver-chosen reals, os.getpid() solver-chosen, distinct among live workers",
                         "pool model: fork = deep copy of the objects reached by the task closure and of the generator state at pool creation (what multiprocess does on Linux); contiguous ordered chunks"])


if __name__ == "__main__":
    sys.exit(main(sys.argv[1] if len(sys.argv) > 1 else "quick"))
