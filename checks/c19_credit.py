"""C19 - credit closed forms equal the default-region jump rate of the benchmarked chain.

Real CTMCCredit grid (truncation stub), real chain rates (C01 code) on it, real CFLevyModel / CFLevyCopulaModel._theta and spread maps
(brentq as a contract stub), real CDS payoff, on abstract measures / copula.
"""
import itertools
import sys
from fractions import Fraction

import numpy as np

from .chain_common import *  # noqa
from .chain_common import (z3, V, shims, A, SF, GS, MC, MCLC, LCM, SamplingMethod, cells, SymReal, SymInt, SymBool, AND, OR, NOT, EQ, IMPLIES, INF, Unsupported)
from .common import Harness, run_check, COMMON_ASSUMPTIONS, PathAbort, EQ_RATIONAL
from . import c13_grids as C13

import rpylib.numerical.closedform.cflevymodel as CFM
import rpylib.numerical.closedform.cflevycopula as CFC
import rpylib.product.payoff as PAY

shims.install_np(CFM, CFC, PAY)

PID = "C19"


class BrentStub:
    """scipy.optimize.brentq contract: returns some x in [a, b] with f(x) = 0, ValueError when f(a) f(b) > 0"""

    def __init__(self):
        self.calls = []

    def brentq(self, f, a, b, **kw):
        ctx = V.get_context()
        if ctx is None:
            import scipy.optimize

            return scipy.optimize.brentq(f, a, b, **kw)
        fa, fb = self._scalar(f(a)), self._scalar(f(b))
        if bool(fa * fb > 0):
            raise ValueError("f(a) and f(b) must have different signs")
        x = ctx.real("root")
        ctx.assume(AND(x >= a, x <= b))
        fx = self._scalar(f(x))
        ctx.assume(EQ(fx, 0))
        self.calls.append((a, b, x))
        return x

    @staticmethod
    def _scalar(v):
        """brentq converts the objective's value with float(): numpy >= 2 (2.5.3 here) refuses arrays of dimension > 0, also 1-element ones"""
        if isinstance(v, np.ndarray) and v.ndim > 0:
            raise TypeError("only 0-dimensional arrays can be converted to Python scalars")
        return v[()] if isinstance(v, np.ndarray) else v


class _OptShim:
    def __init__(self, stub):
        self.optimize = stub


BRENT = BrentStub()
shims.install(CFM, scipy=_OptShim(BRENT))
shims.install(CFC, scipy=_OptShim(BRENT))


def credit_grid(ctx, d, symmetric, thresholds, h, l, r):
    C13._TRUNC["lr"] = (l, r)
    try:
        return GS.CTMCCredit(h=h, level_a=thresholds[0] if d == 1 else list(thresholds), model=C13.StubModel(d), symmetric_grid=symmetric)
    finally:
        C13._TRUNC["lr"] = None


def replay_theta(sc):
    """HEM margins (Clayton copula in 2-d): sum of the rates of the default states vs closed-form theta of the truncated model copy"""
    import rpylib.model.levymodel.mixed.hem as HEM
    from rpylib.distribution.levycopula import ClaytonCopula

    d = sc["d"]
    h, a = 0.01, -0.12
    out = []
    if d == 1:
        model = HEM.HEMModel(HEM.HEMParameters(sigma=0.1, p=0.4, eta1=20.0, eta2=25.0, intensity=3.0))
        grid = GS.CTMCCredit(h=h, level_a=a, model=model)
        CFM.CFLevyModel(model)._theta(a)  # history: the closed form was evaluated at the same level on the untruncated model first
        proc = MC.MarkovChainProcess(model, SamplingMethod.INVERSION, grid)
        q = SF.create_q_vector(proc.model.levy_triplet.nu, grid)
        tot = sum(q[k] for k, x in enumerate(grid.axes[0]) if x < a)
        theta = CFM.CFLevyModel(proc.model)._theta(a)
        if abs(tot - theta) > 1e-9 * max(1, theta):
            out.append(f"1-d: default-state rates {tot!r} vs closed-form theta {theta!r}")
    else:
        ms = [HEM.HEMModel(HEM.HEMParameters(sigma=0.1, p=0.4, eta1=20.0, eta2=25.0, intensity=3.0)) for _ in range(2)]
        lcm = LCM.LevyCopulaModel(models=ms, copula=ClaytonCopula(theta=0.7, eta=0.3))
        grid = GS.CTMCCredit(h=h, level_a=[a, a], model=lcm)
        proc = MCLC.MarkovChainLevyCopula(lcm, grid, SamplingMethod.INVERSION)
        lam = proc.intensity_of_jumps
        piv = grid.origin_coordinate
        tot = 0.0
        n = len(grid.axes[0])
        for st in itertools.product(range(n), repeat=2):
            if st == (piv[0], piv[1]):
                continue
            if any(grid.axes[i][st[i]] < a for i in range(2)):
                tot += proc.sampling.probability_to_jump_to_state((st[0] - piv[0], st[1] - piv[1])) * lam
        theta = CFC.CFLevyCopulaModel(proc.model)._theta([a, a])
        if abs(tot - theta) > 1e-9 * max(1, theta):
            out.append(f"2-d (HEM x HEM, Clayton(0.7, 0.3), credit grid h = {h}, thresholds {a}): default-state rates {tot!r} vs closed-form theta of the chain's truncated model {theta!r}")
    return bool(out), "; ".join(out) if out else "default-state rates equal theta on HEM"


def h_theta_1d(ctx):
    h = ctx.real("h")
    ctx.assume(h > 0)
    l, r = ctx.real("l"), ctx.real("r")
    a = ctx.real("a")
    ctx.assume(AND(l < a, a < -h, r > h))
    grid = credit_grid(ctx, 1, True, [a], h, l, r)
    model = A.abs_levy_model(ctx, "nu", sigma=0.0, a=0.0, finite_activity=False, finite_variation=True)
    model.r = ctx.real("rate", 0)
    try:
        proc = MC.MarkovChainProcess(model, SamplingMethod.INVERSION, grid)
    except ZeroDivisionError:
        raise PathAbort()
    q = SF.create_q_vector(proc.model.levy_triplet.nu, grid)
    ax = grid.axes[0]
    tot = 0
    for k in range(len(ax)):
        if bool(ax[k] < a):
            tot = tot + q[k]
    theta = CFM.CFLevyModel(proc.model)._theta(a)
    rp = (replay_theta, lambda m: {"d": 1})
    ctx.prove("C19.default_state_rates_sum_to_theta.1d", EQ(tot, theta), replay=rp)
    nu = model.levy_triplet.nu
    ctx.prove("C19.theta_is_mass_below_threshold.1d", EQ(theta, SymReal(nu.neg_term(0, l, a))), replay=rp)
    # monotone in the threshold
    a2 = ctx.real("a2")
    ctx.assume(AND(a2 > a, a2 < 0))
    ctx.prove("C19.theta_increasing_in_threshold.1d", CFM.CFLevyModel(model)._theta(a2) >= CFM.CFLevyModel(model)._theta(a))


def h_theta_2d(ctx, symmetric):
    d = 2
    h = ctx.real("h")
    ctx.assume(h > 0)
    l, r = ctx.real("l"), ctx.real("r")
    ths = [ctx.real(f"a{i}") for i in range(d)]
    for a in ths:
        ctx.assume(AND(l < a, a < -h))
    ctx.assume(r > h)
    if symmetric:
        for a in ths:
            ctx.assume(-a + V.smin(abs(l - a), abs(a + h)) / 2 < r)
    grid = credit_grid(ctx, d, symmetric, ths, h, l, r)
    models = [A.abs_levy_model(ctx, f"nu{i}", sigma=0.0, a=0.0, finite_activity=False, finite_variation=True) for i in range(d)]
    cop = A.AbsCopula(ctx, "F", d)
    lcm = LCM.LevyCopulaModel(models=models, copula=cop)
    # "the model restricted to the grid's truncation": the chain truncates its copy of the model itself (LevyCopulaModel.truncate_levy_measure).
    # Whether the margins charge anything outside [l, r] is left to the solver; the listed known finding is exactly the case where they do.
    outside_mass = OR(*[OR(SymBool(mdl.levy_triplet.nu._Lk(0, l) != 0), SymBool(mdl.levy_triplet.nu._Tk(0, r) != 0)) for mdl in models])
    try:
        proc = MCLC.MarkovChainLevyCopula(lcm, grid, SamplingMethod.INVERSION)
    except ZeroDivisionError:
        raise PathAbort()
    piv = grid.origin_coordinate
    n = [len(ax) for ax in grid.axes]
    tot = 0
    from rpylib.grid.grid import Coordinates

    for st in itertools.product(*[range(k) for k in n]):
        if all(st[i] == piv[i] for i in range(d)):
            continue
        if any(bool(grid.axes[i][st[i]] < ths[i]) for i in range(d)):
            # rate of the state = mass of its cell, by the real mass code and the grid's own cell helpers (the clipping max(mass, 0)
            # of the sampler is C01's subject; masses are non-negative for a d-increasing copula)
            pos = Coordinates(st)
            val = grid[pos]
            lo = grid.middle(grid.left_point(pos), val)
            hi = grid.middle(val, grid.right_point(pos))
            tot = tot + proc.model.mass(lo, hi)
    theta = CFC.CFLevyCopulaModel(proc.model)._theta(ths)
    rp = (replay_theta, lambda m: {"d": 2})
    # masses are clipped at 0 by the sampler; under the d-increasing axiom they are non-negative: instantiate it on every cell image
    ctx.prove("C19.default_state_rates_sum_to_theta.2d", EQ(tot, theta), info={"symmetric": symmetric}, replay=rp, timeout_ms=60000,
              regions={"margins_charge_the_outside_of_the_truncation_box": outside_mass})


def replay_inclusion_exclusion(sc):
    """distinct HEM margins + Clayton, distinct thresholds: closed-form theta against the inclusion-exclusion of the half-space masses"""
    import rpylib.model.levymodel.mixed.hem as HEM
    from rpylib.distribution.levycopula import ClaytonCopula

    d = sc["d"]
    ms = [HEM.HEMModel(HEM.HEMParameters(sigma=0.1, p=0.4 + 0.1 * i, eta1=20.0 + i, eta2=25.0 - 3 * i, intensity=3.0 - 0.4 * i)) for i in range(d)]
    lcm = LCM.LevyCopulaModel(models=ms, copula=ClaytonCopula(theta=0.7, eta=0.3))
    ths = [-0.05, -0.12, -0.2][:d]
    theta = float(CFC.CFLevyCopulaModel(lcm)._theta(ths))
    tot = 0.0
    for k in range(1, d + 1):
        for idx in itertools.combinations(range(d), k):
            if k == 1:
                m = float(ms[idx[0]].mass(-INF, ths[idx[0]]))
            else:
                m = float(lcm._mass_nd([-INF] * k, [ths[i] for i in idx], list(idx)))
            tot += m if k % 2 == 1 else -m
    return abs(theta - tot) > 1e-9 * max(1.0, abs(tot)), f"HEM margins + Clayton(0.7, 0.3), thresholds {ths}: closed-form theta {theta!r}, inclusion-exclusion of the half-space masses {tot!r}"


def h_inclusion_exclusion(ctx, d):
    """theta == mass of the union of the default half-spaces by inclusion-exclusion, each intersection measured by the real rectangle-mass code"""
    models = [A.abs_levy_model(ctx, f"nu{i}", sigma=0.0, a=0.0, finite_activity=False, finite_variation=True) for i in range(d)]
    cop = A.AbsCopula(ctx, "F", d)
    lcm = LCM.LevyCopulaModel(models=models, copula=cop)
    ths = [ctx.real(f"a{i}") for i in range(d)]
    for a in ths:
        ctx.assume(a < 0)
    theta = CFC.CFLevyCopulaModel(lcm)._theta(ths)
    tot = 0
    for k in range(1, d + 1):
        for idx in itertools.combinations(range(d), k):
            lo = [-INF] * k
            hi = [ths[i] for i in idx]
            if k == 1:
                m = models[idx[0]].mass(-INF, ths[idx[0]])
            else:
                m = lcm._mass_nd(lo, hi, list(idx))
            tot = tot + (m if k % 2 == 1 else -m)
    ctx.prove(f"C19.theta_is_inclusion_exclusion_of_half_space_masses.{d}d", EQ(theta, tot), info={"d": d}, replay=(replay_inclusion_exclusion, lambda m: {"d": d}))
    if d == 2:
        # increasing in each threshold: theta(a1', a2) - theta(a1, a2) = nu((a1, a1'] x [a2, inf)) >= 0 (d-increasing axiom on that rectangle)
        b = ctx.real("a0_up")
        ctx.assume(AND(b > ths[0], b < 0))
        theta2 = CFC.CFLevyCopulaModel(lcm)._theta([b, ths[1]])
        from .c01_rates import _U

        lo = [_U(models, 0, b), z3.RealVal(0)]
        hi = [_U(models, 0, ths[0]), z3.RealVal(0)]
        # image of (a1, b] x [a2, +inf): U_1 in [U1(b), U1(a1)], U_2 in (U2(a2), 0-] and [0+, ...): use the margin identity instead
        u_lo, u_hi = _U(models, 0, b), _U(models, 0, ths[0])
        v = _U(models, 1, ths[1])
        # nu((a1,b] x (-inf,a2)) = F(u_hi, v) - F(u_lo, v) must not exceed nu_1((a1,b]) = u_hi - u_lo: this is d-increasingness + margins
        cop.axiom_increasing([u_lo, v], [u_hi, 0.0])  # rectangle [u_lo,u_hi] x [v, 0]: F(u_hi,0)-F(u_hi,v)-F(u_lo,0)+F(u_lo,v) >= 0
        cop.axiom_increasing([u_lo, -INF], [u_hi, v])  # rectangle [u_lo,u_hi] x (-inf, v]
        cop.axiom_margin(0, u_lo)
        cop.axiom_margin(0, u_hi)
        cop.axiom_increasing([u_lo, 0.0], [u_hi, INF])
        ctx.prove("C19.theta_increasing_in_threshold.2d", theta2 >= theta, info={"d": d})


def h_spread_maps(ctx, d):
    rate = ctx.real("rate")
    ctx.assume(rate > 0)
    R = ctx.real("recovery", 0, 1)
    T = ctx.real("maturity")
    ctx.assume(T > 0)
    if d == 1:
        model = A.abs_levy_model(ctx, "nu", sigma=0.0, a=0.0, finite_activity=False, finite_variation=True)
        model.r = rate
        cf = CFM.CFLevyModel(model)
        a = ctx.real("a")
        ctx.assume(a < 0)
        theta = cf._theta(a)
        ctx.prove("C19.survival_probability_is_exp_minus_t_theta", EQ(cf.survival_probability(a, T), shims.sym_exp(-T * theta)))
        ctx.prove("C19.par_spread_is_one_minus_recovery_times_theta", EQ(cf.cds_spread(a, R), (1 - R) * theta))
        level = a
    else:
        models = [A.abs_levy_model(ctx, f"nu{i}", sigma=0.0, a=0.0, finite_activity=False, finite_variation=True) for i in range(d)]
        for m in models:
            m.r = rate
        cop = A.AbsCopula(ctx, "F", d)
        lcm = LCM.LevyCopulaModel(models=models, copula=cop)
        cf = CFC.CFLevyCopulaModel(lcm)
        level = [ctx.real(f"a{i}") for i in range(d)]
        for a in level:
            ctx.assume(a < 0)
        theta = cf._theta(level)
        ctx.prove("C19.survival_probability_is_exp_minus_t_theta", EQ(cf.survival_probability(level, T), shims.sym_exp(-T * theta)))
        ctx.prove("C19.par_spread_is_one_minus_recovery_times_theta", EQ(cf.first_to_default_par_spread(level, R), (1 - R) * theta))
    ctx.assume(theta >= 0)
    # implied spread: pv built from a spread s0 maps back to s0
    s0 = ctx.real("s0")
    ctx.assume(AND(s0 > -5, s0 < 10))
    E = shims.sym_exp(-(rate + theta) * T)
    ctx.assume(E < 1)  # (r + theta) T > 0
    default_leg = (1 - R) * (1 - E) * theta / (rate + theta)
    fixed_leg = (1 - E) / (rate + theta)
    pv = default_leg - s0 * fixed_leg
    try:
        s = cf.implied_cds_spread(pv, level, R, T)
    except ValueError:
        ctx.prove("C19.implied_spread_found_when_it_is_in_the_bracket", False)
        return
    ctx.prove("C19.implied_spread_inverts_the_present_value", EQ(s, s0), info={"d": d})
    if d == 1:
        h0 = ctx.real("h0")
        ctx.assume(h0 > 0)
        target = ctx.real("target_spread")
        try:
            thr = cf.implied_cds_threshold(target, R, h0)
        except ValueError:
            return
        ctx.prove("C19.implied_threshold_reprices_the_spread", AND(EQ(cf.cds_spread(thr, R), target), thr >= -10, thr <= -h0), info={"d": d},
                  replay=(replay_implied_threshold, lambda m: {}))


def replay_implied_threshold(sc):
    """real HEM model, real Brent: the threshold implied from a par spread reprices that spread, for several recovery rates"""
    import rpylib.model.levymodel.mixed.hem as HEM

    model = HEM.HEMModel(HEM.HEMParameters(sigma=0.1, p=0.4, eta1=20.0, eta2=25.0, intensity=3.0))
    cf = CFM.CFLevyModel(model)
    out = []
    for R in (0.4, 0.25, 0.7):
        target = float(cf.cds_spread(-0.1, R))
        try:
            thr = float(cf.implied_cds_threshold(target, R, 0.01))
        except Exception as e:
            out.append(f"recovery {R}: implied_cds_threshold({target!r}, {R}, 0.01) raises {type(e).__name__}: {e}")
            continue
        back = float(cf.cds_spread(thr, R))
        if abs(back - target) > 1e-8 * max(1.0, abs(target)) or not (-10 <= thr <= -0.01):
            out.append(f"recovery {R}: threshold implied from the spread {target!r} is {thr!r}, whose spread is {back!r}")
    return bool(out), "HEM: " + ("; ".join(out[:2]) if out else "implied thresholds reprice their spreads")


def h_cds_payoff(ctx):
    rate = ctx.real("rate")
    ctx.assume(rate > 0)
    R = ctx.real("recovery", 0, 1)
    T = ctx.real("maturity")
    ctx.assume(T > 0)
    s1, s2 = ctx.real("spread1"), ctx.real("spread2")
    tau = ctx.real("tau", 0)
    df = lambda t: shims.sym_exp(-rate * t)
    shims.sym_exp(-rate * 1)
    c1 = PAY.CDS(recovery_rate=R, spread=s1, maturity=T, discounting=df)
    c2 = PAY.CDS(recovery_rate=R, spread=s2, maturity=T, discounting=df)
    for tt in (tau, float("inf")):
        v1, v2 = c1.evaluate(tt), c2.evaluate(tt)
        tmin = tt if (not isinstance(tt, float) and bool(tt <= T)) else T
        annuity = (1 - df(tmin)) / c1._r / df(T)
        ctx.prove("C19.cds_value_is_affine_in_the_spread", EQ_RATIONAL(v1 - v2, -(s1 - s2) * annuity), info={"default": "finite" if tt is tau else "never"})
    never = c1.evaluate(float("inf"))
    ctx.prove("C19.cds_without_default_pays_only_the_fixed_leg", EQ_RATIONAL(never, -s1 * (1 - df(T)) / c1._r / df(T)))


def h_twin(ctx):
    models = [A.abs_levy_model(ctx, f"nu{i}", sigma=0.0, a=0.0) for i in range(2)]
    cop = A.AbsCopula(ctx, "F", 2)
    lcm = LCM.LevyCopulaModel(models=models, copula=cop)
    ths = [ctx.real("a0"), ctx.real("a1")]
    for a in ths:
        ctx.assume(a < 0)
    theta = CFC.CFLevyCopulaModel(lcm)._theta(ths)
    wrong = models[0].mass(-INF, ths[0]) + models[1].mass(-INF, ths[1])  # forgets the intersection
    ctx.prove("C19.twin.no_intersection_term", EQ(theta, wrong))


def concrete_validation():
    ok1, d1 = replay_theta({"d": 1})
    # the 2-d reference scenario (real HEM margins charge the outside of every box) is the listed known finding of theta2d: not run here
    return [("C19.concrete.theta1d", not ok1, d1)]


def harnesses(tier):
    q = tier == "quick"
    hs = [Harness("concrete", concrete_validation, concrete=True)]
    hs.append(Harness("theta1d", h_theta_1d, max_paths=4000, batch=20))
    hs.append(Harness("theta2d.asym", h_theta_2d, {"symmetric": False}, max_paths=20000, batch=10, timeout_ms=120000))
    if not q:
        hs.append(Harness("theta2d.sym", h_theta_2d, {"symmetric": True}, max_paths=40000, batch=10, timeout_ms=120000))
    for d in (2, 3):
        hs.append(Harness(f"inclexcl.{d}", h_inclusion_exclusion, {"d": d}, max_paths=4000, batch=20))
    for d in (1, 2):
        hs.append(Harness(f"spreads.{d}", h_spread_maps, {"d": d}, max_paths=4000, batch=20))
    hs.append(Harness("cds", h_cds_payoff, max_paths=2000))
    # which states count as "in default" for the products that consume the chain: the default-time underlyings, one path after the other
    from .c17_payoffs import h_default_history

    hs.append(Harness("default.history", h_default_history, {"n": 2, "prefix": "C19"}, max_paths=4000, batch=20))
    hs.append(Harness("twin", h_twin, twin="must_fail"))
    return hs


EXPECT = ["C19.default_state_rates_sum_to_theta.1d", "C19.theta_is_mass_below_threshold.1d", "C19.default_state_rates_sum_to_theta.2d",
          "C19.theta_is_inclusion_exclusion_of_half_space_masses.2d", "C19.theta_is_inclusion_exclusion_of_half_space_masses.3d", "C19.theta_increasing_in_threshold.2d",
          "C19.survival_probability_is_exp_minus_t_theta", "C19.par_spread_is_one_minus_recovery_times_theta", "C19.implied_spread_inverts_the_present_value",
          "C19.cds_value_is_affine_in_the_spread",
          "C19.default_times_of_a_path_do_not_depend_on_the_paths_valued_before",
          "C19.implied_threshold_reprices_the_spread"]


# reference replays run when the symbolic run of a harness ends in an exception (see runner.run_check)
ERROR_REPLAYS = {"theta1d": (replay_theta, {"d": 1}), "spreads.": (replay_implied_threshold, {}), "inclexcl.": (replay_inclusion_exclusion, {"d": 2})}


def main(tier):
    bounds = {"histories_and_variants": 'marginal mass outside the truncation box solver-chosen (2-d); default-time underlyings over two successive paths; implied threshold: replay on HEM with recoveries 0.25, 0.4, 0.7',
              "grids": "credit grids in 1-d (7 points) and 2-d (7x7 asymmetric; 9x9 symmetric in thorough), thresholds/steps/bounds arbitrary reals with a < -h",
              "closed forms": "dimensions 1..3 for theta, 1..2 for the spread maps",
              "outside": "3-d chain sum (9^3 cells), Brent's method itself (contract stub), Monte-Carlo estimation of default times"}
    return run_check(PID, tier, harnesses(tier), error_replays=ERROR_REPLAYS, expect=EXPECT, bounds=bounds,
                     assumptions=COMMON_ASSUMPTIONS + ["abstract measure/copula; for the chain comparison the marginal measures carry no mass outside the grid's truncation "
                                                       "('the model restricted to the grid's truncation')", "scipy.optimize.brentq: returns some root in the bracket, ValueError when the end values have the same sign",
                                                       "exp as UF (positive, monotone, exp(0) = 1)"])


if __name__ == "__main__":
    sys.exit(main(sys.argv[1] if len(sys.argv) > 1 else "quick"))
