"""C02 - every state sampler realises exactly the target law, independent of call history.

The real sampler constructors and sample-with-uniform entry points run on a symbolic probability vector p and a symbolic uniform
u.  For one construction path the executions of the sampling entry point partition [0,1) into leaves whose path conditions are
affine in u; the length of each leaf is a z3 term in p, and the obligation `sum of the lengths of the leaves returning k == p_k`
is discharged by the solver for all p on that construction path (symx/measure.py).
"""
import copy
import sys
from fractions import Fraction

import numpy as np

from .common import *  # noqa
from .common import z3, V, shims, Harness, run_check, SymInt, SymReal, SymBool, AND, OR, NOT, EQ, IMPLIES, COMMON_ASSUMPTIONS, Unsupported
from symx import measure as M

import rpylib.distribution.variate.alias as ALIAS
import rpylib.distribution.variate.table as TABLE
import rpylib.distribution.variate.binarysearchtree as BST
import rpylib.distribution.variate.huffmantree as HUFF
import rpylib.distribution.variate.inversion as INV
import rpylib.distribution.univariate.uniform as UNI
import rpylib.distribution.pairing as P
import rpylib.grid.spatial as GS
import rpylib.grid.grid as GG

PID = "C02"


class _IntShim:
    def __call__(self, x=0, *a):
        return shims.sym_int(x, *a)

    def __instancecheck__(self, inst):
        return isinstance(inst, int)


class Bits32:
    """random.getrandbits(32) as seen by table.py: low byte -> slot (chosen by the harness), i * 2^-32 -> a uniform in [0,1).
    Modelling assumption: the low byte and i*2^-32 are independent (true up to 2^-24)."""

    def __init__(self, slot, u):
        self.slot, self.u = slot, u

    def __and__(self, mask):
        assert mask == 255
        return self.slot

    def __mul__(self, cst):
        assert abs(cst * 2**32 - 1) < 1e-9
        return self.u

    def __rshift__(self, k):
        # the top byte of the word is floor(256 u) (not independent of u at all): decided by bisection on u, 256 outcomes
        if k != 24:
            raise Unsupported(f"32-bit word >> {k}")
        lo, hi = 0, 256
        while hi - lo > 1:
            mid = (lo + hi) // 2
            if self.u < Fraction(mid, 256):
                hi = mid
            else:
                lo = mid
        return lo

    __rmul__ = __mul__


class _RandomShim:
    def __init__(self):
        self.next = None

    def getrandbits(self, n):
        if self.next is None:
            import random

            return random.getrandbits(n)
        return self.next


RANDOM = _RandomShim()
shims.install_np(ALIAS, TABLE, BST, HUFF, UNI, P, GS, GG)
shims.install(TABLE, int=_IntShim(), random=RANDOM)


def ident(k):
    return k


# --------------------------------------------------------------------------------------
# construction + single-uniform entry point per method


def build(method, p):
    arr = np.array(list(p), dtype=object)
    if method == "alias":
        s = ALIAS.AliasMethod(arr, ident)
        return s, (lambda smp, u: int(smp._draw_with_u(u)))
    if method == "bst":
        s = BST.BinarySearchTree(arr, ident)
        return s, (lambda smp, u: int(smp.sample_with_u(u)))
    if method == "huffman":
        s = HUFF.HuffmanTree(arr, ident)
        return s, (lambda smp, u: int(HUFF.sample_with_u(u, smp.head)[0]))
    raise ValueError(method)


def build_concrete(method, p):
    arr = np.array([float(x) for x in p])
    if method == "alias":
        s = ALIAS.AliasMethod(arr, ident)
        return lambda u: int(s._draw_with_u(u))
    if method == "bst":
        s = BST.BinarySearchTree(arr, ident)
        return lambda u: int(s.sample_with_u(u))
    if method == "huffman":
        s = HUFF.HuffmanTree(arr, ident)
        return lambda u: int(HUFF.sample_with_u(u, s.head)[0])
    if method == "table":
        s = TABLE.TableMethod(arr, ident)

        def draw(u):  # u in [0,1): i = floor(u 2^32)
            i = int(u * 2**32)
            ji = s.J[i & 255]
            if ji >= 0:
                return int(ji)
            return int(s.alias_method._draw_with_u(i * s._cst))

        return draw
    raise ValueError(method)


def empirical_measure(draw, n, grid=20000):
    """measure of each state on a fine deterministic grid of uniforms (replay oracle, not the deciding step)"""
    cnt = {}
    for j in range(grid):
        k = draw((j + 0.5) / grid)
        cnt[k] = cnt.get(k, 0) + 1
    return {k: v / grid for k, v in cnt.items()}


def table_measure(p):
    """law of the real TableMethod on p, stratified exactly over the low byte of the 32-bit draw (each byte value has probability
    1/256); the residual alias sampler is measured on a fine grid of its own uniform"""
    s = TABLE.TableMethod(np.array([float(x) for x in p]), ident)
    J = [int(j) for j in s.J]
    # the real _sample_one on a lattice of 32-bit words: every low byte x 1024 equally spaced values of the upper 24 bits (the residual
    # sampler, reached from at most 255 of the low bytes, sees 1024 equally spaced uniforms: resolution 1/(1024*256) of the total mass)
    H = 1024
    cnt = {}
    try:
        for hi in range(H):
            top = int((hi + 0.5) / H * 2**24)
            for lo in range(256):
                RANDOM.next = (top << 8) | lo
                k = int(TABLE._sample_one(s.J, s.alias_method, s._cst, ident))
                cnt[k] = cnt.get(k, 0) + 1
    finally:
        RANDOM.next = None
    meas = {k: c / (256 * H) for k, c in cnt.items()}
    return meas, len(J)


def replay_vector(sc):
    p = [float(Fraction(x)) for x in sc["p"]]
    method = sc["method"]
    try:
        draw = build_concrete(method, p)
    except Exception as e:
        return True, f"{method} constructor raises {type(e).__name__}: {e} on p={p}"
    if method == "table":
        meas, slots = table_measure(p)
        bad = {k: (meas.get(k, 0.0), p[k]) for k in range(len(p)) if abs(meas.get(k, 0.0) - p[k]) > 1e-4}
        bad.update({k: (v, None) for k, v in meas.items() if not (0 <= k < len(p))})
        if slots != 256:
            bad["slots"] = slots
        return bool(bad), f"table on p={p}: law stratified over the 256 slots vs p (state: (measured, target)) {bad}"
    if "u" in sc and sc["u"] is not None:
        k = draw(float(Fraction(sc["u"])))
        if not (0 <= k < len(p)) or p[k] == 0:
            return True, f"{method} on p={p}: u={float(Fraction(sc['u']))} -> state {k} with probability {p[k] if 0 <= k < len(p) else 'outside'}"
    emp = empirical_measure(draw, len(p))
    bad = {k: (emp.get(k, 0.0), p[k]) for k in range(len(p)) if abs(emp.get(k, 0.0) - p[k]) > 2e-3}
    bad.update({k: (v, None) for k, v in emp.items() if not (0 <= k < len(p))})
    return bool(bad), f"{method} on p={p}: measure of u-sets vs p (state: (measured, target)) {bad}"


def _p_vector(ctx, n, positive=False):
    p = [ctx.real(f"p{i}", 0) for i in range(n)]
    if positive:
        for x in p:
            ctx.assume(x > 0)
    tot = p[0]
    for x in p[1:]:
        tot = tot + x
    ctx.assume(EQ(tot, 1))
    return p


def _scenario(method, n, with_u=False):
    def b(m):
        sc = {"method": method, "p": [str(m.frac(f"p{i}")) for i in range(n)]}
        if with_u:
            sc["u"] = str(m.frac("u"))
        return sc

    return b


def h_vector(ctx, method, n):
    p = _p_vector(ctx, n)
    rp = (replay_vector, _scenario(method, n))
    try:
        sampler, draw = build(method, p)
    except Exception as e:
        ctx.prove(f"C02.{method}.constructor_accepts_every_probability_vector", False, info={"raised": repr(e)[:200]}, replay=rp)
        return
    u = ctx.real("u", 0, 1, hi_strict=True)
    leaves = ctx.enumerate(lambda: draw(copy.deepcopy(sampler), u))
    for cons, val, exc in leaves:
        if exc is not None:
            ctx.prove(f"C02.{method}.sampling_does_not_raise", False, info={"raised": repr(exc)[:200]}, replay=rp)
            return
    meas = M.state_measures(leaves, V.to_term(u))
    ctx.prove(f"C02.{method}.sampling_does_not_raise", True)
    for k in range(n):
        mk = meas.get(k, z3.RealVal(0))
        ctx.prove(f"C02.{method}.measure_equals_p", SymBool(mk == V.term_of(p[k])), info={"n": n, "state": k, "leaves": len(leaves)}, replay=rp)
    outside = [v for k, v in meas.items() if not (isinstance(k, int) and 0 <= k < n)]
    ctx.prove(f"C02.{method}.no_state_outside", SymBool(z3.And(*[o == 0 for o in outside])) if outside else True, replay=rp)
    # pointwise: no uniform is sent to a state of probability zero
    rpu = (replay_vector, _scenario(method, n, with_u=True))
    for cons, val, exc in leaves:
        if isinstance(val, int) and 0 <= val < n:
            r, m = ctx.check_sat(SymBool(z3.And(*cons)), EQ(p[val], 0))
            if r == z3.sat:
                ctx.prove(f"C02.{method}.never_returns_zero_probability_state", NOT(AND(SymBool(z3.And(*cons)), EQ(p[val], 0))), replay=rpu,
                          regions={"u_equals_0": EQ(u, 0)})
            elif r == z3.unsat:
                ctx.report(f"C02.{method}.never_returns_zero_probability_state", "unsat", info={"state": val})
            else:
                ctx.report(f"C02.{method}.never_returns_zero_probability_state", "unknown", reason="solver unknown")


def h_history(ctx, method, n):
    """history twin: sample(u1); sample(u2) on one object returns for u2 what a fresh object returns"""
    p = _p_vector(ctx, n)
    sampler, draw = build(method, p)
    fresh = copy.deepcopy(sampler)
    u1 = ctx.real("u1", 0, 1, hi_strict=True)
    u2 = ctx.real("u2", 0, 1, hi_strict=True)
    draw(sampler, u1)
    a = draw(sampler, u2)
    b = draw(fresh, u2)
    ctx.prove(f"C02.{method}.history_independent", a == b, info={"n": n})


def h_batch(ctx, method, n):
    """batch entry sample(size) == single-uniform entry point applied to the uniforms the generator produced"""
    p = _p_vector(ctx, n)
    sampler, draw = build(method, p)
    fresh = copy.deepcopy(sampler)
    shims.RNG.reset()
    out = sampler.sample(size=2)
    us = [s for (kind, seed, pos, s) in shims.RNG.log]
    ctx.prove(f"C02.{method}.batch_consumes_one_uniform_per_draw", len(us) == 2)
    for j in range(2):
        ctx.prove(f"C02.{method}.batch_equals_single", int(out[j]) == draw(fresh, us[j]), info={"n": n})


# ---- table method


def replay_table(sc):
    sc = dict(sc)
    sc["method"] = "table"
    return replay_vector(sc)


def h_table(ctx, n, slots):
    """slots: tuple of concrete k_i = floor(256 p_i); fractional parts symbolic"""
    p = [ctx.real(f"p{i}", 0) for i in range(n)]
    for x, k in zip(p, slots):
        ctx.assume(AND(256 * x >= k, 256 * x < k + 1))
    tot = p[0]
    for x in p[1:]:
        tot = tot + x
    ctx.assume(EQ(tot, 1))
    rp = (replay_table, _scenario("table", n))
    all_integer = AND(*[EQ(256 * x, k) for x, k in zip(p, slots)])
    try:
        tm = TABLE.TableMethod(np.array(p, dtype=object).view(shims.SymArray), ident)
    except Exception as e:
        ctx.prove("C02.table.constructor_accepts_every_probability_vector", False, info={"raised": repr(e)[:200], "slots": slots}, replay=rp,
                  regions={"all_256p_integers": all_integer})
        return
    ctx.prove("C02.table.constructor_accepts_every_probability_vector", True)
    J = [int(j) for j in tm.J]
    ctx.prove("C02.table.has_256_slots", len(J) == 256, info={"slots": slots}, replay=rp)
    total = {k: z3.RealVal(0) for k in range(n)}
    u = ctx.real("u", 0, 1, hi_strict=True)
    for c in sorted(set(J)):
        weight = Fraction(J.count(c), 256)
        rep = J.index(c)

        def one():
            RANDOM.next = Bits32(rep, u)
            try:
                return int(TABLE._sample_one(tm.J, copy.deepcopy(tm.alias_method), tm._cst, ident))
            finally:
                RANDOM.next = None

        leaves = ctx.enumerate(one)
        meas = M.state_measures(leaves, V.to_term(u))
        for k, v in meas.items():
            if not (isinstance(k, int) and 0 <= k < n):
                ctx.prove("C02.table.no_state_outside", SymBool(v == 0), replay=rp)
                continue
            total[k] = total[k] + z3.RealVal(weight) * v
    for k in range(n):
        ctx.prove("C02.table.measure_equals_p", SymBool(total[k] == V.term_of(p[k])), info={"slots": slots, "state": k}, replay=rp)


# ---- inversion on a 1-d grid with a symbolic probability per state


def _inv_setup(L, R, pfun):
    axis = np.array([float(k) for k in range(-L, R + 1)])
    grid = GS.CTMCGrid(h=1.0, origin_coordinate=L, axes=[axis])
    pairing = P.PairingToZ1d((-L, R), omit_zero=True)
    domain = P.Domain(boundary=P.Boundary(), grid=grid, pairing=pairing)
    sm = P.StatesManager(pairing=pairing, domain=domain, grid=grid)
    return INV.InversionMethod(probability_to_jump_to_state=pfun, state_manager=sm)


def replay_inversion(sc):
    L, R = sc["L"], sc["R"]
    states = [k for k in range(-L, R + 1) if k != 0]
    p = {k: float(Fraction(x)) for k, x in zip(states, sc["p"])}
    P.PairingToZ1d.project.cache_clear()

    def fresh():
        P.PairingToZ1d.project.cache_clear()
        return _inv_setup(L, R, lambda inc: p[int(inc)])

    if sc.get("u") is not None:
        inv = fresh()
        uu = float(Fraction(sc["u"]))
        k = int(inv.sample_with_u(uu))
        if p.get(k, 0) == 0:
            return True, f"InversionMethod on states {p}: u={uu} -> state {k} of probability {p.get(k)}"
    if sc.get("u1") is not None:
        inv = fresh()
        inv.sample_with_u(float(Fraction(sc["u1"])))
        a = inv.sample_with_u(float(Fraction(sc["u2"])))
        b = fresh().sample_with_u(float(Fraction(sc["u2"])))
        if a != b:
            return True, f"InversionMethod: after u1={sc['u1']} the draw for u2={sc['u2']} is {a}, a fresh sampler gives {b}"
    inv = fresh()
    emp = empirical_measure(lambda u: int(fresh().sample_with_u(u)), len(states), grid=4000)
    bad = {k: (emp.get(k, 0.0), p[k]) for k in states if abs(emp.get(k, 0.0) - p[k]) > 5e-3}
    return bool(bad), f"InversionMethod on states {p}: measured vs target {bad}"


def h_inversion(ctx, L, R):
    states = [k for k in range(-L, R + 1) if k != 0]
    ps = _p_vector(ctx, len(states))
    p = dict(zip(states, ps))

    def scen(with_u=False, hist=False):
        def b(m):
            sc = {"L": L, "R": R, "p": [str(m.frac(f"p{i}")) for i in range(len(states))]}
            if with_u:
                sc["u"] = str(m.frac("u"))
            if hist:
                sc["u1"], sc["u2"] = str(m.frac("u1")), str(m.frac("u2"))
            return sc

        return b

    rp = (replay_inversion, scen())
    inv = _inv_setup(L, R, lambda inc: p[int(inc)])
    u = ctx.real("u", 0, 1, hi_strict=True)

    def one():
        P.PairingToZ1d.project.cache_clear()
        s = copy.deepcopy(inv)
        return int(s.sample_with_u(u))

    leaves = ctx.enumerate(one)
    for cons, val, exc in leaves:
        if exc is not None:
            ctx.prove("C02.inversion.sampling_does_not_raise", False, info={"raised": repr(exc)[:200]}, replay=rp)
            return
    meas = M.state_measures(leaves, V.to_term(u))
    for k in states:
        ctx.prove("C02.inversion.measure_equals_p", SymBool(meas.get(k, z3.RealVal(0)) == V.term_of(p[k])), info={"L": L, "R": R, "state": k}, replay=rp)
    outside = [v for k, v in meas.items() if k not in p]
    ctx.prove("C02.inversion.no_state_outside_or_origin", SymBool(z3.And(*[o == 0 for o in outside])) if outside else True, replay=rp)
    for cons, val, exc in leaves:
        if val in p:
            ctx.prove("C02.inversion.never_returns_zero_probability_state", NOT(AND(SymBool(z3.And(*cons)), EQ(p[val], 0))),
                      replay=(replay_inversion, scen(with_u=True)), regions={"u_equals_0": EQ(u, 0)})
    # history twin (the sampler memoises cumulative sums and the state manager keeps a cursor)
    u1 = ctx.real("u1", 0, 1, hi_strict=True)
    u2 = ctx.real("u2", 0, 1, hi_strict=True)

    def hist():
        P.PairingToZ1d.project.cache_clear()
        s = copy.deepcopy(inv)
        s.sample_with_u(u1)
        a = int(s.sample_with_u(u2))
        P.PairingToZ1d.project.cache_clear()
        f = copy.deepcopy(inv)
        b = int(f.sample_with_u(u2))
        return a, b

    for cons, val, exc in ctx.enumerate(hist):
        if exc is not None:
            ctx.prove("C02.inversion.history_independent", False, info={"raised": repr(exc)[:200]}, replay=(replay_inversion, scen(hist=True)))
            continue
        a, b = val
        if a != b:
            ctx.prove("C02.inversion.history_independent", NOT(SymBool(z3.And(*cons))), info={"after": a, "fresh": b},
                      replay=(replay_inversion, scen(hist=True)))
        else:
            ctx.report("C02.inversion.history_independent", "unsat", info={"leaf": "equal results"})


# ---- twins


def h_twin_alias(ctx, n):
    """sensitivity twin: the alias threshold compared with <= K*u instead of the fractional part must break the measure"""
    p = _p_vector(ctx, n)
    sampler, _ = build("alias", p)
    u = ctx.real("u", 0, 1, hi_strict=True)

    def bad(u):
        ku = sampler.K * u
        x = np.uint(ku) if False else shims.NP.uint(ku)
        if ku < sampler.q[x]:  # wrong: should be ku - x
            return int(x)
        return int(sampler.J[x])

    leaves = ctx.enumerate(lambda: bad(u))
    meas = M.state_measures(leaves, V.to_term(u))
    for k in range(n):
        ctx.prove("C02.twin.alias_wrong_threshold", SymBool(meas.get(k, z3.RealVal(0)) == V.term_of(p[k])))


def concrete_validation():
    out = []
    rng = np.random.default_rng(int(__import__("os").environ.get("VERIF_SEED", "0") or 0))
    for method in ("alias", "bst", "huffman", "table"):
        for n in (2, 3, 5):
            p = rng.dirichlet(np.ones(n))
            draw = build_concrete(method, p)
            emp = empirical_measure(draw, n)
            ok = all(abs(emp.get(k, 0) - p[k]) < 2e-3 for k in range(n))
            out.append((f"C02.concrete.{method}", ok, f"shimmed module on concrete p={p.round(4).tolist()}: measured {emp}"))
    return out


def harnesses(tier):
    q = tier == "quick"
    hs = [Harness("concrete", concrete_validation, concrete=True)]
    for method, nq, nt in (("alias", 3, 4), ("bst", 3, 5), ("huffman", 3, 4)):
        for n in range(1 if method != "huffman" else 2, (nq if q else nt) + 1):
            hs.append(Harness(f"{method}.{n}", h_vector, {"method": method, "n": n}, max_paths=6000, batch=4))
        hs.append(Harness(f"{method}.history", h_history, {"method": method, "n": 2 if q else 3}, max_paths=6000))
        hs.append(Harness(f"{method}.batch", h_batch, {"method": method, "n": 2 if q else 3}, max_paths=6000))
    import itertools

    if q:
        slot_sets = [(128, 127), (0, 255), (255, 0), (1, 254), (128, 128), (256, 0), (85, 85, 85), (0, 128, 127), (64, 64, 128)]
    else:
        slot_sets = [(k, 255 - k) for k in range(0, 256)] + [(128, 128), (256, 0), (0, 256), (64, 192)]
        vals = (0, 1, 127, 128, 254)
        slot_sets += [s for s in itertools.product(vals, repeat=3) if 254 <= sum(s) <= 256]
        slot_sets += [(64, 64, 128), (85, 85, 85), (85, 85, 86), (256, 0, 0)]
    for s in slot_sets:
        hs.append(Harness(f"table.{'-'.join(map(str, s))}", h_table, {"n": len(s), "slots": tuple(s)}, max_paths=2000))
    for L, R in ([(1, 1), (1, 2), (2, 1)] if q else [(1, 1), (1, 2), (2, 1), (2, 2), (1, 3), (3, 1), (2, 3)]):
        hs.append(Harness(f"inversion.{L}.{R}", h_inversion, {"L": L, "R": R}, max_paths=2000))
    # the adapted binary search tree in several dimensions lives on a copula chain: same harness as C01's, obligations reported here
    from .c01_rates import h_bsta_nd, h_bsta1d

    for nl, nr in ((1, 1),) if q else ((1, 1), (2, 1), (2, 2)):
        hs.append(Harness(f"bsta1d.{nl}.{nr}", h_bsta1d, {"nl": nl, "nr": nr, "lam_value": 1, "prefix": "C02"}, max_paths=4000))
    hs.append(Harness("bsta1d.2.2.after_another_chain", h_bsta1d, {"nl": 2, "nr": 2, "lam_value": 1, "history": True, "prefix": "C02"}, max_paths=4000))
    hs.append(Harness("bsta1d.2.2.grid_with_its_own_cell_boundaries", h_bsta1d, {"nl": 2, "nr": 2, "lam_value": 1, "own_cells": True, "prefix": "C02"}, max_paths=4000))
    if not q:
        hs.append(Harness("bsta1d.3.2.grid_with_its_own_cell_boundaries", h_bsta1d, {"nl": 3, "nr": 2, "lam_value": 1, "own_cells": True, "prefix": "C02"}, max_paths=4000))
        hs.append(Harness("bsta1d.2.3.grid_with_its_own_cell_boundaries.fa", h_bsta1d, {"nl": 2, "nr": 3, "lam_value": 1, "own_cells": True, "fa": True, "prefix": "C02"}, max_paths=4000))
    hs.append(Harness("bsta.2d.1", h_bsta_nd, {"d": 2, "npts": 1, "prefix": "C02"}, max_paths=4000, batch=1))
    hs.append(Harness("bsta.2d.2", h_bsta_nd, {"d": 2, "npts": 2, "prefix": "C02"}, max_paths=4000, batch=1))
    if not q:
        hs.append(Harness("bsta.3d.1", h_bsta_nd, {"d": 3, "npts": 1, "prefix": "C02"}, max_paths=4000, batch=1))
    hs.append(Harness("twin.alias", h_twin_alias, {"n": 2}, twin="must_fail"))
    return hs


EXPECT = ["C02.adapted_tree_nd.measure_times_intensity_is_cell_mass", "C02.alias.measure_equals_p", "C02.bst.measure_equals_p", "C02.huffman.measure_equals_p", "C02.table.measure_equals_p",
          "C02.inversion.measure_equals_p", "C02.alias.history_independent", "C02.alias.batch_equals_single",
          "C02.alias.never_returns_zero_probability_state", "C02.inversion.history_independent",
          "C02.adapted_tree_1d.measure_times_intensity_is_cell_mass"]


def main(tier):
    bounds = {"histories_and_variants": '1-d adapted tree on 1+1 (quick) / up to 2+2 points, and after another chain built and sampled on the same grid; Table: top byte of the 32-bit word modelled as floor(256u), other bit operations outside; 1-d adapted tree on a grid that cuts its cells at a solver-chosen weighted point (2+2 points)',
              "quick": "probability vectors of length <= 3 (alias, BST, Huffman), Table: 9 slot-count patterns (n <= 3) with symbolic fractional parts, "
                       "inversion on 1-d grids up to 2+1 states; all real-valued p, u",
              "thorough": "length <= 4 (alias, Huffman) / 5 (BST); Table: every slot count for n=2 and the boundary family for n=3; inversion up to 2+3 states",
              "outside": "the 32-bit discretisation of the Table method (its low byte and i*2^-32 are modelled as independent uniforms); float rounding of "
                         "cumulative sums; vector lengths beyond the bounds"}
    return run_check(PID, tier, harnesses(tier), expect=EXPECT, bounds=bounds,
                     assumptions=COMMON_ASSUMPTIONS + [
                         "u-measure: every leaf constraint is affine in the uniform with a concrete coefficient (checked per constraint; otherwise the path is inconclusive)",
                         "Table method: random.getrandbits(32) modelled by (slot = low byte chosen per distinct table entry, u = i*2^-32 in [0,1) independent)",
                     ])


if __name__ == "__main__":
    sys.exit(main(sys.argv[1] if len(sys.argv) > 1 else "quick"))
