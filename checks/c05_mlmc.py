"""C05 - multilevel estimator = sum of per-level means over exactly the simulated samples.

The real multilevel Engine.price / price_with_constant_mc_paths_and_level, MLMCPath, Statistic/MCStatistics/MLMCStatistics/MLMCResults
and statistic.tools run against a scripted coupling process whose samples are symbolic reals and a convergence-criteria object
whose answers are chosen by the solver (bounded); see mlmc_common.py.
"""
import sys
from fractions import Fraction

import numpy as np

from .mlmc_common import *  # noqa
from .mlmc_common import (z3, V, shims, SymReal, SymInt, SymBool, AND, OR, NOT, EQ, IMPLIES, Unsupported, PathAbort, make_engine, ME, CR, CFG, ST,
                          ScriptedCoupling, ScriptedProduct, Registry, ScriptedCriteria, PT)
from .common import EQ_RATIONAL, Harness, run_check, COMMON_ASSUMPTIONS

PID = "C05"
MAX_PASSES = 4


class ConcreteCtx:
    """replays a scenario with python floats"""

    def __init__(self, ns, conv):
        self.ns, self.conv = ns, conv
        self.k = 0

    def real(self, name, lo=None, hi=None):
        self.k += 1
        base = {"df": 0.9, "notional": 2.0}.get(name)
        if base is not None:
            return base
        if name.startswith("cost"):
            return 1.0 + int(name[4:])
        return float(np.sin(1.7 * self.k) + 0.3 * self.k % 1.3)  # arbitrary distinct payoffs

    def int(self, name, lo=None, hi=None):
        return self.ns.get(name, 0)

    def bool(self, name):
        return self.conv.get(name, False)


def run_scenario(sc, keep_on_abort=False):
    """the real engine on the scenario's sample-size / convergence answers and concrete payoffs; returns (stats, registry, criteria);
    with keep_on_abort a run cut off by the pass limit returns (None, registry, criteria) instead of raising"""
    ctxc = ConcreteCtx({k: int(v) for k, v in sc["ns"].items()}, {k: bool(v) for k, v in sc["conv"].items()})
    reg = Registry(ctxc)
    crit = ScriptedCriteria(ctxc, sc["bound"], offset=sc.get("offset", 0))
    crit.max_calls = MAX_PASSES + 2
    cc = CR.ConvergenceCriteria(criteria=crit.criteria, compute_mc_paths=_limited(crit))
    cfg = CFG.ConfigurationMultiLevel(convergence_rates=CFG.ConvergenceRates(alpha=1.0, beta=1.0, gamma=1.0), convergence_criteria=cc,
                                      initial_level=sc["initial_level"], maximum_level=sc["level_max"], initial_mc_paths=sc["n0"], nb_of_processes=1)
    cfg.initialisation_seed = lambda multiprocessing=False: None
    eng = ME.Engine(cfg, ScriptedCoupling(reg, 0.9))
    prod = ScriptedProduct(2.0)
    try:
        if sc.get("fixed"):
            stats = eng.price_with_constant_mc_paths_and_level(prod)
        else:
            stats = eng.price(prod, 0.1)
    except PathAbort:
        if not keep_on_abort:
            raise
        stats = None
    return stats, reg, crit


class InProcessMp:
    """multiprocessing as the engine uses it: Pool(processes, initializer) as a context manager, map_async(f, iterable, callback).get():
    f is applied to every item, the list of results (in the order of the items) is handed to the callback once.  Run in-process."""

    class Pool:
        def __init__(self, processes=None, initializer=None, initargs=()):
            if initializer is not None:
                initializer(*initargs)

        def __enter__(self):
            return self

        def __exit__(self, *a):
            return False

        def map_async(self, fn, iterable, callback=None, **kw):
            res = [fn(x) for x in iterable]
            if callback is not None:
                callback(res)

            class _R:
                def get(self_inner, timeout=None):
                    return res

            return _R()


def replay_run(sc):
    """run the real engine with the scenario's sample-size / convergence answers and concrete payoffs; compare with the definition"""
    ctxc = ConcreteCtx({k: int(v) for k, v in sc["ns"].items()}, {k: bool(v) for k, v in sc["conv"].items()})
    reg = Registry(ctxc)
    crit = ScriptedCriteria(ctxc, sc["bound"], offset=sc.get("offset", 0))
    crit.max_calls = MAX_PASSES + 2
    cc = CR.ConvergenceCriteria(criteria=crit.criteria, compute_mc_paths=_limited(crit))
    cfg = CFG.ConfigurationMultiLevel(convergence_rates=CFG.ConvergenceRates(alpha=1.0, beta=1.0, gamma=1.0), convergence_criteria=cc,
                                      initial_level=sc["initial_level"], maximum_level=sc["level_max"], initial_mc_paths=sc["n0"], nb_of_processes=2 if sc.get("pool") else 1)
    cfg.initialisation_seed = lambda multiprocessing=False: None
    eng = ME.Engine(cfg, ScriptedCoupling(reg, 0.9))
    prod = ScriptedProduct(2.0)
    undo = shims.install(ME, mp=InProcessMp) if sc.get("pool") else (lambda: None)
    try:
        if sc.get("fixed"):
            stats = eng.price_with_constant_mc_paths_and_level(prod)
        else:
            stats = eng.price(prod, 0.1)
    except PathAbort:
        return False, "bounded number of passes exceeded in the replay"
    finally:
        undo()
    want = 0.0
    details = []
    res = stats.mlmc_results
    for l in range(len(stats.mc_statistics)):
        S = reg.samples.get(l, [])
        if S:
            m = sum(0.9 * 2.0 * (f - c) for f, c in S) / len(S)
            want += m
        n_rep = int(res.Nl[l]) if l < len(res.Nl) else None
        if n_rep is not None and n_rep != len(S):
            details.append(f"level {l}: reported N_l = {n_rep} but {len(S)} samples were simulated")
        if S and l < len(res.Nl):
            ys = np.array([0.9 * 2.0 * (f - c) for f, c in S])
            m4 = float(np.mean((ys - ys.mean()) ** 4))
            kur = float(res.kurtosis[l]) * max(1.0, float(ys.var())) ** 2
            kur_textbook = float(res.kurtosis[l]) * float(ys.var()) ** 2
            if abs(kur - m4) > 1e-9 * max(1.0, abs(m4)) and abs(kur_textbook - m4) > 1e-9 * max(1.0, abs(m4)):
                details.append(f"level {l}: kurtosis x max(1, variance)^2 = {kur!r} but the fourth central moment of the {len(S)} simulated samples is {m4!r}")
        if S and l in reg.costs and l < len(res.cl) and abs(float(res.cl[l]) - float(reg.costs[l])) > 1e-9 * max(1.0, float(reg.costs[l])):
            details.append(f"level {l}: reported cost per sample cl = {float(res.cl[l])!r} but every sample of that level cost {float(reg.costs[l])!r}")
    got = float(stats.price())
    if abs(got - want) > 1e-9 * max(1.0, abs(want)):
        details.append(f"price {got!r} vs sum of per-level sample means over the simulated samples {want!r}")
    return bool(details), f"initial_level={sc['initial_level']} N0={sc['n0']} level_max={sc['level_max']} answers={sc['ns']} {sc['conv']}: " + "; ".join(details)


def _limited(crit):
    def f(rmse, vl, cl):
        if len(crit.ns_calls) >= getattr(crit, "max_calls", MAX_PASSES):
            raise PathAbort()
        return crit.compute_mc_paths(rmse, vl, cl)

    return f


def _scenario(ctx, crit, il, n0, lm, bound, fixed=False, offset=0, pool=False):
    def b(m):
        ns = {k: m[k] for k in ctx.symbols if k.startswith("Ns[")}
        conv = {k: m.b(k) for k in ctx.symbols if k.startswith("converged[")}
        return {"initial_level": il, "n0": n0, "level_max": lm, "bound": bound, "ns": ns, "conv": conv, "fixed": fixed, "offset": offset, "pool": pool}

    return b


def _level_terms(reg, l, df, notional):
    S = reg.samples.get(l, [])
    ys = [df * notional * (f - c) for f, c in S]
    fs = [df * notional * f for f, c in S]
    return S, ys, fs


def _check_results(ctx, stats, reg, df, notional, rp, info, region_new_level, kurtosis=False):
    res = stats.mlmc_results
    nlev = len(stats.mc_statistics)
    total = 0
    for l in range(nlev):
        S, ys, fs = _level_terms(reg, l, df, notional)
        if S:
            total = total + sum(ys) / len(S)
    late = {"placeholder_row_of_a_level_added_during_the_run": region_new_level}
    ctx.prove("C05.price_is_sum_of_level_means_over_simulated_samples", EQ(stats.price(), total), info=info, replay=rp, regions=late)
    ctx.prove("C05.reported_levels_cover_simulated_levels", len(res.Nl) >= reg.max_level_simulated + 1, info=info, replay=rp)
    empty_level = any(not reg.samples.get(l) for l in range(len(res.Nl)))
    for l in range(len(res.Nl)):
        S, ys, fs = _level_terms(reg, l, df, notional)
        ctx.prove("C05.reported_Nl_is_number_of_simulated_samples", EQ(res.Nl[l], len(S)), info=dict(info, level=l), replay=rp, regions=late)
        if not S or empty_level:
            continue  # the moments of a level without samples are nan in float arithmetic (mean of an empty array)
        n = len(S)
        mean_y = sum(ys) / n
        ctx.prove("C05.level_mean_ml", EQ(res.ml[l], abs(mean_y)), info=dict(info, level=l), replay=rp, regions=late)
        var_y = sum((y - mean_y) * (y - mean_y) for y in ys) / n
        ctx.prove("C05.level_variance_vl", EQ(res.vl[l], V.smax(0.0, var_y)), info=dict(info, level=l), replay=rp, regions=late)
        mean_f = sum(fs) / n
        ctx.prove("C05.mean_level_l", EQ(res.mean_level_l[l], mean_f), info=dict(info, level=l), replay=rp, regions=late)
        var_f = sum((y - mean_f) * (y - mean_f) for y in fs) / n
        ctx.prove("C05.var_level_l", EQ(res.var_level_l[l], var_f), info=dict(info, level=l), replay=rp, regions=late)
        if l in reg.costs:
            ctx.prove("C05.cost_per_sample_cl", EQ(res.cl[l], reg.costs[l]), info=dict(info, level=l), replay=rp, regions=late)
        if kurtosis and n <= 2:
            # kurtosis of the correction terms: fourth central sample moment over (variance floored at 1)^2 - the floor is the library's
            m4 = sum((y - mean_y) ** 4 for y in ys) / n
            kur = res.kurtosis[l]
            # either normalisation is a function of the simulated samples only: the library's (variance floored at 1) or the textbook one
            ctx.prove("C05.level_kurtosis_from_the_simulated_samples",
                      OR(EQ_RATIONAL(kur * V.smax(1.0, var_y) * V.smax(1.0, var_y), m4), AND(var_y > 0, EQ_RATIONAL(kur * var_y * var_y, m4))),
                      info=dict(info, level=l), replay=rp, regions=late)
    for l, S in reg.samples.items():
        if l == 0:
            ctx.prove("C05.coarse_payoff_is_zero_at_level_0", all((not V.is_sym(c)) and c == 0.0 for f, c in S), info=info, replay=rp)


def h_adaptive(ctx, il, n0, lm, bound, passes=MAX_PASSES, pool=False):
    """pool: the engine's worker-pool branch (nb_of_processes != 1), the pool being run in-process (InProcessMp)"""
    eng, prod, reg, crit, df, notional = make_engine(ctx, il, n0, lm, bound, nb_of_processes=2 if pool else 1)
    crit.max_calls = passes
    eng.configuration.convergence_criteria.compute_mc_paths = _limited(crit)
    rmse = ctx.real("rmse")
    ctx.assume(rmse > 0)
    undo = shims.install(ME, mp=InProcessMp) if pool else (lambda: None)
    try:
        stats = eng.price(prod, rmse)
    except ZeroDivisionError:
        # a run that ends with a level holding zero samples divides sum_cost by N_l = 0 (nan in float arithmetic): such runs leave through
        # the fall-through exit of the loop, which is C06's subject
        raise PathAbort()
    finally:
        undo()
    rp = (replay_run, _scenario(ctx, crit, il, n0, lm, bound, pool=pool))
    added = len(stats.mc_statistics) > il + 1 or any(n > il + 1 for n, _ in crit.ns_calls)
    _check_results(ctx, stats, reg, df, notional, rp, {"il": il, "n0": n0, "lm": lm, "passes": len(crit.ns_calls)}, added, kurtosis=(bound <= 1 or n0 + bound <= 2))


def _scripted_controls(kx, nx, px):
    import rpylib.product.payoff as PAY
    from .mlmc_common import ScriptedControlUnderlying, PROD

    control = PROD.Product(payoff_underlying=ScriptedControlUnderlying(), payoff=PAY.Forward(strike=kx), maturity=1.0, notional=nx)
    return PROD.ControlVariates(products=[control], prices=[px])


def replay_run_with_controls(sc):
    """the real multilevel engine with one control variate (a forward on the product's own underlying) on the scenario's sample-size answers:
    the raw view (no_control_variates=True) of price and level means must be the plain level means of the simulated samples"""
    ctxc = ConcreteCtx({k: int(v) for k, v in sc["ns"].items()}, {k: bool(v) for k, v in sc["conv"].items()})
    reg = Registry(ctxc)
    crit = ScriptedCriteria(ctxc, sc["bound"], offset=sc.get("offset", 0))
    crit.max_calls = MAX_PASSES + 2
    cc = CR.ConvergenceCriteria(criteria=crit.criteria, compute_mc_paths=_limited(crit))
    cfg = CFG.ConfigurationMultiLevel(convergence_rates=CFG.ConvergenceRates(alpha=1.0, beta=1.0, gamma=1.0), convergence_criteria=cc,
                                      initial_level=sc["initial_level"], maximum_level=sc["level_max"], initial_mc_paths=sc["n0"], nb_of_processes=1,
                                      control_variates=_scripted_controls(0.3, 1.5, 0.2))
    cfg.initialisation_seed = lambda multiprocessing=False: None
    eng = ME.Engine(cfg, ScriptedCoupling(reg, 0.9))
    try:
        stats = eng.price(ScriptedProduct(2.0), 0.1)
    except PathAbort:
        return False, "bounded number of passes exceeded in the replay"
    want, details = 0.0, []
    for l in range(len(stats.mc_statistics)):
        S = reg.samples.get(l, [])
        if S:
            want += sum(0.9 * 2.0 * (f - c) for f, c in S) / len(S)
    got = float(np.ravel(stats.price(no_control_variates=True))[0])
    if abs(got - want) > 1e-9 * max(1.0, abs(want)):
        details.append(f"raw price (no_control_variates=True) {got!r} vs sum of the level means of the simulated samples {want!r}")
    return bool(details), f"initial_level={sc['initial_level']} N0={sc['n0']} level_max={sc['level_max']} answers={sc['ns']} {sc['conv']}, one control variate: " + "; ".join(details)


def h_adaptive_cv(ctx, il, n0, lm, bound, passes=3):
    """adaptive run with one control variate (a forward on the product's own underlying; the covariance matrices the regression uses are
    replaced by fresh symbols through a hook on np.cov): the raw samples of every level are left alone by the adjustment - the raw view of the
    price is the sum of the plain level means over the simulated samples, whatever the passes were"""
    from .mlmc_common import PROD

    kx, nx, px = ctx.real("kx"), ctx.real("notional_x"), ctx.real("price_x")
    cv = _scripted_controls(kx, nx, px)
    eng, prod, reg, crit, df, notional = make_engine(ctx, il, n0, lm, bound, control_variates=cv)
    crit.max_calls = passes
    eng.configuration.convergence_criteria.compute_mc_paths = _limited(crit)
    rmse = ctx.real("rmse")
    ctx.assume(rmse > 0)
    npx = PROD.np
    k = [0]

    def cov_hook(m, y=None, rowvar=True, bias=False, ddof=None, **kw):
        if V.get_context() is None:
            return np.cov(m, y=y, rowvar=rowvar, bias=bias, ddof=ddof, **kw)
        S = np.empty((2, 2), dtype=object)
        k[0] += 1
        S[0, 0], S[1, 1] = ctx.real(f"sxx{k[0]}"), ctx.real(f"syy{k[0]}", 0)
        S[0, 1] = S[1, 0] = ctx.real(f"sxy{k[0]}")
        ctx.assume(S[0, 0] > Fraction(1, 10**6))
        return S

    npx.cov = cov_hook
    try:
        try:
            stats = eng.price(prod, rmse)
        except ZeroDivisionError:
            raise PathAbort()
    finally:
        del npx.cov
    rp = (replay_run_with_controls, _scenario(ctx, crit, il, n0, lm, bound))
    info = {"il": il, "n0": n0, "lm": lm, "passes": len(crit.ns_calls), "control_variates": 1}
    total = 0
    for l in range(len(stats.mc_statistics)):
        S, ys, fs = _level_terms(reg, l, df, notional)
        if S:
            total = total + sum(ys) / len(S)
    ctx.prove("C05.raw_price_is_sum_of_level_means_when_controls_are_on", EQ(stats.price(no_control_variates=True), total), info=info, replay=rp)


def replay_controls_representation(sc):
    """real multilevel engine, coupling process simulated in log-spot, one control written on the log-spot: after the engine's
    initialisation the control reads the representation of the process (log S_T itself, not its logarithm)"""
    import rpylib.product.payoff as PAY
    import rpylib.product.underlying as UND
    from rpylib.process.process import ProcessRepresentation
    from .mlmc_common import PROD

    control = PROD.Product(payoff_underlying=UND.LogSpot(), payoff=PAY.Forward(strike=0.0), maturity=1.0)
    cv = PROD.ControlVariates(products=[control], prices=[0.1])
    ctxc = ConcreteCtx({}, {})
    reg = Registry(ctxc)
    cc = CR.ConvergenceCriteria(criteria=lambda a, ml, r: True, compute_mc_paths=lambda r, vl, cl: np.zeros(len(vl), dtype=int))
    cfg = CFG.ConfigurationMultiLevel(convergence_rates=CFG.ConvergenceRates(alpha=1.0, beta=1.0, gamma=1.0), convergence_criteria=cc,
                                      initial_level=0, maximum_level=0, initial_mc_paths=1, nb_of_processes=1, control_variates=cv)
    cfg.initialisation_seed = lambda multiprocessing=False: None
    coupling = ScriptedCoupling(reg, 0.9)
    coupling.fine_process.process_representation = ProcessRepresentation.LOG
    eng = ME.Engine(cfg, coupling)
    eng.initialisation(ScriptedProduct(2.0))
    path = np.array([0.0, 0.3])
    got = float(control.payoff_underlying.value(None, path, None))
    return abs(got - 0.3) > 1e-12, (f"multilevel engine on a log-simulated process: after Engine.initialisation the LogSpot control reads {got!r} on the log-path {path.tolist()} "
                                    f"(the log-spot is 0.3)")


def h_controls_representation(ctx):
    """multilevel engine: the control products are valued in the representation of the simulated process, like the priced product"""
    import rpylib.product.payoff as PAY
    import rpylib.product.underlying as UND
    from rpylib.process.process import ProcessRepresentation
    from .mlmc_common import PROD

    control = PROD.Product(payoff_underlying=UND.LogSpot(), payoff=PAY.Forward(strike=0.0), maturity=1.0)
    cv = PROD.ControlVariates(products=[control], prices=[ctx.real("price_x")])
    eng, prod, reg, crit, df, notional = make_engine(ctx, 0, 1, 0, 1, control_variates=cv)
    eng.coupling_process.fine_process.process_representation = ProcessRepresentation.LOG
    eng.initialisation(prod)
    x = ctx.real("log_spot")
    path = np.empty(2, dtype=object)
    path[0], path[1] = 0.0, x
    ctx.assume(x > 0)  # so that a (wrong) logarithm of the log-spot is defined
    got = control.payoff_underlying.value(None, path, None)
    if isinstance(got, np.ndarray):
        got = got.reshape(-1)[0]  # path[..., -1] of a one-dimensional path is a 0-d array
    ctx.prove("C05.controls_are_valued_in_the_representation_of_the_process", EQ(got, x), info={"control": "LogSpot forward", "process": "LOG"},
              replay=(replay_controls_representation, lambda m: {}))


def replay_engine_reuse(sc):
    """the real multilevel engine object used for two pricings (first run 3 samples on level 0, second run 1): the second run's price, N_l
    and level mean are those of the second run's own samples"""
    class Two:
        def __init__(self):
            self.run = 0

    st = Two()
    regs = []

    def compute(rmse, vl, cl):
        return np.array([3 if st.run == 0 else 1] + [0] * (len(vl) - 1))

    cc = CR.ConvergenceCriteria(criteria=lambda a, ml, r: True, compute_mc_paths=compute)
    cfg = CFG.ConfigurationMultiLevel(convergence_rates=CFG.ConvergenceRates(alpha=1.0, beta=1.0, gamma=1.0), convergence_criteria=cc,
                                      initial_level=0, maximum_level=0, initial_mc_paths=1, nb_of_processes=1)
    cfg.initialisation_seed = lambda multiprocessing=False: None
    ctxc = ConcreteCtx({}, {})
    reg = Registry(ctxc)
    eng = ME.Engine(cfg, ScriptedCoupling(reg, 0.9))
    out = []
    for run in range(2):
        st.run = run
        reg.samples, reg.costs = {}, {}
        try:
            stats = eng.price(ScriptedProduct(2.0), 0.1)
        except Exception as e:
            return True, f"pricing number {run + 1} on the same Engine raises {type(e).__name__}: {str(e)[:120]}"
        S = reg.samples.get(0, [])
        want = sum(0.9 * 2.0 * (f - c) for f, c in S) / len(S)
        got = float(np.ravel(stats.price())[0])
        if abs(got - want) > 1e-9 * max(1.0, abs(want)) or int(stats.mlmc_results.Nl[0]) != len(S):
            out.append(f"pricing number {run + 1}: price {got!r} / N_0 = {int(stats.mlmc_results.Nl[0])}, mean of its own {len(S)} samples {want!r}")
    return bool(out), "one Engine, two pricings: " + ("; ".join(out) if out else "each pricing reports its own samples")


def h_engine_reuse(ctx):
    """one Engine object prices twice (a looser target the second time: 1 sample on level 0 after 1 + 2): the second result is computed
    from the second run's samples only"""
    eng, prod, reg, crit, df, notional = make_engine(ctx, 0, 1, 0, 2)
    answers = [[3], [1]]
    run = [0]
    eng.configuration.convergence_criteria.compute_mc_paths = lambda rmse, vl, cl: np.array(answers[run[0]] + [0] * (len(vl) - 1))
    eng.configuration.convergence_criteria.criteria = lambda a, ml, r: True
    rmse = ctx.real("rmse")
    ctx.assume(rmse > 0)
    rp = (replay_engine_reuse, lambda m: {})
    for k in range(2):
        run[0] = k
        reg.samples, reg.costs = {}, {}
        stats = eng.price(prod, rmse)
        S, ys, fs = _level_terms(reg, 0, df, notional)
        info = {"pricing": k + 1, "samples": len(S)}
        ctx.prove("C05.each_pricing_on_an_engine_reports_its_own_samples", AND(EQ(stats.price(), sum(ys) / len(S)), EQ(stats.mlmc_results.Nl[0], len(S))), info=info, replay=rp)


def replay_fixed_crash(sc):
    try:
        ok, detail = replay_run(sc)
    except Exception as e:
        return True, f"price_with_constant_mc_paths_and_level with initial_level={sc['initial_level']}, maximum_level={sc['level_max']} raises {type(e).__name__}: {e}"
    return ok, detail


def h_fixed(ctx, il, n0, lm):
    try:
        eng, prod, reg, crit, df, notional = make_engine(ctx, il, n0, lm, 1)
    except ValueError:
        # an inconsistent configuration (initial_level > maximum_level) may be rejected up front
        ctx.prove("C05.fixed_level_run_completes", lm < il, info={"il": il, "lm": lm, "rejected": True})
        return
    rp = (replay_fixed_crash, _scenario(ctx, crit, il, n0, lm, 1, fixed=True))
    try:
        stats = eng.price_with_constant_mc_paths_and_level(prod)
    except IndexError as e:
        ctx.prove("C05.fixed_level_run_completes", False, info={"il": il, "lm": lm, "raised": repr(e)[:100]}, replay=rp,
                  regions={"maximum_level_below_initial_level": lm < il})
        return
    ctx.prove("C05.fixed_level_run_completes", True)
    _check_results(ctx, stats, reg, df, notional, rp, {"il": il, "n0": n0, "lm": lm, "fixed": True}, False, kurtosis=True)


def h_adaptive_large(ctx, il, n0, bound):
    """level sizes around 100 (the 1% rule of the loop only lets a level be 'nearly complete' from 100 samples on): the run may return
    while the last allocation asks for up to 1% more samples than were simulated; price, N_l and the level means must still be taken over
    the samples that were simulated.  One level (maximum_level = initial_level), answers n0 + [0, bound]."""
    lm = il
    eng, prod, reg, crit, df, notional = make_engine(ctx, il, n0, lm, bound, offset=n0)
    eng.configuration.convergence_criteria.compute_mc_paths = _limited(crit)
    rmse = ctx.real("rmse")
    ctx.assume(rmse > 0)
    try:
        stats = eng.price(prod, rmse)
    except ZeroDivisionError:
        raise PathAbort()
    rp = (replay_run, _scenario(ctx, crit, il, n0, lm, bound, offset=n0))
    info = {"il": il, "n0": n0, "lm": lm, "passes": len(crit.ns_calls), "answers": [list(map(int, a)) for _, a in crit.ns_calls]}
    res = stats.mlmc_results
    total = 0
    for l in range(len(stats.mc_statistics)):
        S, ys, fs = _level_terms(reg, l, df, notional)
        if S:
            total = total + sum(ys) / len(S)
        ctx.prove("C05.reported_Nl_is_number_of_simulated_samples", EQ(res.Nl[l], len(S)), info=dict(info, level=l), replay=rp)
        if S:
            ctx.prove("C05.mean_level_l", EQ(res.mean_level_l[l], sum(fs) / len(S)), info=dict(info, level=l), replay=rp)
    ctx.prove("C05.price_is_sum_of_level_means_over_simulated_samples", EQ(stats.price(), total), info=info, replay=rp)


class VectorProduct(ScriptedProduct):
    """payoff with two components (vector of strikes)"""

    def __call__(self, underlying):
        return self.notional * np.array([underlying, 2 * underlying + 1.0], dtype=object if V.is_sym(underlying) or V.is_sym(self.notional) else float)


def replay_vector_payoff(sc):
    ctxc = ConcreteCtx({}, {})
    reg = Registry(ctxc)
    cc = CR.ConvergenceCriteria(criteria=lambda a, ml, r: True, compute_mc_paths=lambda r, vl, cl: np.array([0] * len(vl)))
    cfg = CFG.ConfigurationMultiLevel(convergence_rates=CFG.ConvergenceRates(alpha=1.0, beta=1.0, gamma=1.0), convergence_criteria=cc,
                                      initial_level=1, maximum_level=1, initial_mc_paths=2, nb_of_processes=1)
    cfg.initialisation_seed = lambda multiprocessing=False: None
    eng = ME.Engine(cfg, ScriptedCoupling(reg, 0.9))
    try:
        eng.price(VectorProduct(2.0, dim=2), 0.1)
    except Exception as e:
        return True, f"multilevel Engine.price with a payoff of dimension 2 raises {type(e).__name__}: {str(e)[:120]}"
    return False, "run completed"


def h_vector_payoff(ctx):
    eng, prod, reg, crit, df, notional = make_engine(ctx, 1, 2, 1, 1)
    prod2 = VectorProduct(notional, dim=2)
    try:
        eng.price(prod2, ctx.real("rmse", 0))
        ok = True
    except (ValueError, TypeError) as e:
        ok = False
    ctx.prove("C05.vector_payoff_run_completes", ok, replay=(replay_vector_payoff, lambda m: {}), regions={"payoff_dimension_gt_1": True})


def h_twin(ctx):
    """sensitivity twin: an oracle that forgets the discount factor must be caught"""
    eng, prod, reg, crit, df, notional = make_engine(ctx, 0, 2, 0, 1)
    stats = eng.price_with_constant_mc_paths_and_level(prod)
    S = reg.samples.get(0, [])
    ctx.prove("C05.twin.no_discount", EQ(stats.price(), sum(notional * f for f, c in S) / len(S)))


def concrete_validation():
    ok, detail = replay_run({"initial_level": 1, "n0": 2, "level_max": 1, "bound": 3, "ns": {"Ns[0,0]": 3, "Ns[0,1]": 2}, "conv": {"converged[0]": True}})
    return [("C05.concrete.run", not ok, "shimmed modules on floats: " + detail)]


def harnesses(tier):
    q = tier == "quick"
    hs = [Harness("concrete", concrete_validation, concrete=True)]
    # (initial level, N0, maximum level, largest sample-size answer, passes)
    cfgs = [(0, 1, 1, 2, 4), (1, 1, 1, 2, 4), (0, 2, 1, 2, 4), (1, 1, 2, 1, 4)] if q else \
        [(0, 1, 1, 3, 4), (0, 2, 1, 3, 4), (1, 1, 1, 3, 4), (2, 2, 2, 2, 4), (1, 1, 2, 2, 3), (1, 2, 2, 3, 2), (2, 1, 3, 1, 4), (0, 1, 2, 2, 3), (1, 3, 2, 2, 3), (0, 3, 0, 4, 5)]
    for il, n0, lm, b, ps in cfgs:
        hs.append(Harness(f"adaptive.L{il}.N{n0}.M{lm}.B{b}.P{ps}", h_adaptive, {"il": il, "n0": n0, "lm": lm, "bound": b, "passes": ps}, max_paths=120000 if not q else 6000, batch=10))
    for il, n0, lm, b, ps in ([(0, 1, 1, 2, 3)] if q else [(0, 1, 1, 2, 4), (1, 1, 1, 2, 4), (0, 2, 1, 2, 3)]):
        hs.append(Harness(f"adaptive.pool.L{il}.N{n0}.M{lm}.B{b}.P{ps}", h_adaptive, {"il": il, "n0": n0, "lm": lm, "bound": b, "passes": ps, "pool": True}, max_paths=120000 if not q else 6000, batch=10))
    hs.append(Harness("engine.reuse", h_engine_reuse, max_paths=200))
    hs.append(Harness("controls.representation", h_controls_representation, max_paths=200))
    for il, n0, lm, b in ([(0, 1, 0, 2)] if q else [(0, 1, 0, 2), (1, 1, 1, 2), (0, 2, 1, 2)]):
        hs.append(Harness(f"adaptive.controls.L{il}.N{n0}.M{lm}.B{b}", h_adaptive_cv, {"il": il, "n0": n0, "lm": lm, "bound": b}, max_paths=6000, batch=10))
    for il, n0, lm in ([(0, 2, 1), (1, 1, 2), (2, 2, 1), (0, 1, 2), (1, 2, 4)] if q else [(0, 2, 1), (1, 1, 2), (2, 2, 1), (0, 1, 2), (1, 2, 4), (0, 3, 3), (2, 1, 0), (3, 2, 2), (0, 2, 5)]):
        hs.append(Harness(f"fixed.L{il}.N{n0}.M{lm}", h_fixed, {"il": il, "n0": n0, "lm": lm}, max_paths=2000))
    for il, n0, b in ([(0, 100, 1)] if q else [(0, 100, 2), (1, 100, 2), (0, 200, 3)]):
        hs.append(Harness(f"adaptive.large.L{il}.N{n0}.B{b}", h_adaptive_large, {"il": il, "n0": n0, "bound": b}, max_paths=6000, batch=4))
    hs.append(Harness("vector_payoff", h_vector_payoff, max_paths=200))
    hs.append(Harness("twin", h_twin, twin="must_fail"))
    return hs


EXPECT = ["C05.level_kurtosis_from_the_simulated_samples", "C05.price_is_sum_of_level_means_over_simulated_samples", "C05.reported_Nl_is_number_of_simulated_samples", "C05.level_mean_ml",
          "C05.level_variance_vl", "C05.mean_level_l", "C05.cost_per_sample_cl", "C05.coarse_payoff_is_zero_at_level_0",
          "C05.raw_price_is_sum_of_level_means_when_controls_are_on",
          "C05.each_pricing_on_an_engine_reports_its_own_samples", "C05.controls_are_valued_in_the_representation_of_the_process"]


def main(tier):
    bounds = {"histories_and_variants": 'worker-pool branch (nb_of_processes = 2) with the pool run in-process, same sizes as the single-process runs; one control variate on the product\'s own underlying with the regression covariances as fresh symbols (raw view only); one Engine pricing twice (3 then 1 samples on level 0); control products\' representation after Engine.initialisation',
              "quick": f"initial_level in {{0,1}}, N0 in {{1,2}}, level_max <= initial+1, sample-size answers in [0,2], <= {MAX_PASSES} passes; fixed-level variant with up to 3 "
                       "levels created at once; one level of 100 samples with answers 100..101 (1% rule)",
              "thorough": "initial_level <= 2, N0 <= 3, level_max <= initial+2, per configuration (answers bound, passes) from ([0,3], 4) on one or two levels down to "
                          "([0,1], 4) / ([0,2], 3) / ([0,3], 2) on three and four levels; levels of 100/200 samples with answers up to +3; fixed-level variant with maximum_level below/above initial_level",
              "outside": "control variates and payoff dimension > 1 in the multilevel engine; worker pools (C08); regression of the convergence rates (lstsq in C)"}
    return run_check(PID, tier, harnesses(tier), expect=EXPECT, bounds=bounds,
                     assumptions=COMMON_ASSUMPTIONS + [
                         "scripted coupling process (public duck-typed interface) handing out fresh symbolic payoffs; convergence-criteria callbacks return "
                         "solver-chosen bounded integers / booleans; np.empty cells are fresh unconstrained symbols (uninitialised memory)",
                         "scipy.stats.moment replaced by its definition on symbolic samples"])


if __name__ == "__main__":
    sys.exit(main(sys.argv[1] if len(sys.argv) > 1 else "quick"))
