"""C11 - the Lévy copulas offered are Lévy copulas: grounded, d-increasing, uniform margins.

The real __call__ of ClaytonCopula / IndependentComponentsCopula / DependentComponentsCopula and the real volume / margin operators
of levycopulamodel run on symbolic arguments (either sign, infinite entries).  pow is an uninterpreted function with the power
laws (symx/special.py), so Clayton obligations hold for every theta > 0, eta in [0,1].
"""
import itertools
import math
import sys

import numpy as np

from .common import *  # noqa
from .common import z3, V, shims, Harness, run_check, SymReal, SymBool, AND, OR, NOT, EQ, IMPLIES, COMMON_ASSUMPTIONS, Unsupported, EQ_RATIONAL
from symx import special as S

import rpylib.model.levycopulamodel as LCM
import rpylib.numerical.tools as NT
import rpylib.distribution.levycopula as LC

PID = "C11"
INF = math.inf

shims.install_np(LCM, NT, LC)
shims.register_singledispatch(NT.sign)


def make(ctx, name):
    if name == "indep":
        return LC.IndependentComponentsCopula()
    if name == "dep":
        return LC.DependentComponentsCopula()
    theta = ctx.real("theta")
    ctx.assume(theta > 0)
    eta = ctx.real("eta", 0, 1)
    return LC.ClaytonCopula(theta=theta, eta=eta)


def make_concrete(name, sc):
    if name == "indep":
        return LC.IndependentComponentsCopula()
    if name == "dep":
        return LC.DependentComponentsCopula()
    return LC.ClaytonCopula(theta=float(sc.get("theta", 0.7)), eta=float(sc.get("eta", 0.3)))


def arr(xs):
    a = np.empty(len(xs), dtype=object)
    for i, x in enumerate(xs):
        a[i] = x
    return a


def _f(cop):
    return lambda us: cop(arr(list(us)))


def _fc(cop):
    return lambda us: cop(np.array([float(u) for u in us]))


def replay_generic(sc):
    cop = make_concrete(sc["copula"], sc)
    kind = sc["kind"]
    if kind == "grounded":
        v = _fc(cop)(sc["u"])
        return v != 0, f"{cop}({sc['u']}) = {v} with a zero argument"
    if kind == "margin":
        d, i = sc["d"], sc["i"]
        m = LCM.margin(lambda u: cop(np.asarray(u, dtype=float)), [i], d)
        v = m([sc["u"]])
        return abs(v - sc["u"]) > 1e-9 * max(1, abs(sc["u"])), f"{cop}: {i}-margin at {sc['u']} = {v}"
    if kind == "volume":
        v = LCM.volume(_fc(cop), sc["a"], sc["b"])
        return v < -1e-12, f"{cop}: volume of ({sc['a']}, {sc['b']}] = {v}"
    return None, "unknown kind"


def _mv(m, x):
    return x if isinstance(x, float) else m.f(x)


def _cl(m, name):
    return {"theta": m.f("theta"), "eta": m.f("eta")} if name == "clayton" else {}


def h_grounded(ctx, name, d, k):
    cop = make(ctx, name)
    us = [ctx.real(f"u{i}") for i in range(d)]
    ctx.assume(EQ(us[k], 0))
    v = _f(cop)(us)
    ctx.prove(f"C11.{name}.grounded.{d}d", EQ(v, 0),
              replay=(replay_generic, lambda m: dict(copula=name, kind="grounded", u=[m.f(u) for u in us], **_cl(m, name))))


def h_margin(ctx, name, d, i, sign):
    cop = make(ctx, name)
    u = ctx.real("u")
    ctx.assume(u > 0 if sign > 0 else u < 0)
    marg = LCM.margin(_f(cop), [i], d)

    # levycopulamodel.margin builds np.zeros(shape=dimension) and assigns: run it through the proxy (object array)
    v = marg([u])
    ctx.prove(f"C11.{name}.margin_identity.{d}d", EQ(v, u), info={"i": i, "sign": sign},
              replay=(replay_generic, lambda m: dict(copula=name, kind="margin", d=d, i=i, u=m.f(u), **_cl(m, name))))


def _endpoints(ctx, nm, kind):
    """(lo, hi] of a kind: 'ff' finite-finite, 'fi' finite-(+inf), 'nf' (-inf)-finite is not in the domain (-inf, inf]: lower -inf allowed as limit"""
    if kind == "ff":
        lo, hi = ctx.real(nm + "lo"), ctx.real(nm + "hi")
        ctx.assume(lo <= hi)
        return lo, hi
    if kind == "fi":
        return ctx.real(nm + "lo"), INF
    if kind == "nf":
        return -INF, ctx.real(nm + "hi")
    return -INF, INF


def h_volume(ctx, name, d, kinds):
    cop = make(ctx, name)
    eps = [_endpoints(ctx, f"x{i}", k) for i, k in enumerate(kinds)]
    a = [e[0] for e in eps]
    b = [e[1] for e in eps]
    v = LCM.volume(_f(cop), a, b)
    ctx.prove(f"C11.{name}.volume_nonneg.{d}d", v >= 0, info={"kinds": kinds},
              replay=(replay_generic, lambda m: dict(copula=name, kind="volume", a=[_mv(m, x) for x in a], b=[_mv(m, x) for x in b])))


def replay_vertex(sc):
    """real copulas on floats: rectangles (a, inf] x ... x (a, inf] (all upper ends +inf) must not have a negative volume"""
    out = []
    for name in ("indep", "dep", "clayton"):
        cop = make_concrete(name, {})
        for d in (2, 3):
            v = LCM.volume(_fc(cop), [1.0] * d, [INF] * d)
            if not (v >= 0):
                out.append(f"{cop}: volume of (1, inf]^{d} = {v} (F(inf, ..., inf) = {_fc(cop)([INF] * d)})")
    return bool(out), "; ".join(out[:3]) if out else "rectangles with the all-infinite vertex have non-negative volume"


def h_vertex_at_infinity(ctx, name, d):
    """rectangles whose upper ends are all +inf: the only corner where a Levy copula may be infinite is (inf, ..., inf) and it is +inf there for
    the copulas offered (the volume of (a, inf]^d is then +inf, the finite corner values being real); a finite value there gives these
    rectangles the negative volume -(sum of the finite corners)"""
    cop = make(ctx, name)
    v = cop(np.array([INF] * d))
    ctx.prove(f"C11.{name}.infinite_at_the_all_infinite_vertex.{d}d", (not V.is_sym(v)) and v == INF, info={"value": repr(v)}, replay=(replay_vertex, lambda m: {}))


# ---- Clayton: stated mixed derivative, conditional distribution and its inverse (theta = 1: the copula is a rational function)


def _numeric_mixed(f, u, h=1e-3):
    d, tot = len(u), 0.0
    for sg in itertools.product([1, -1], repeat=d):
        tot += np.prod(sg) * f(np.array(u, dtype=float) + h * np.array(sg))
    return tot / (2 * h) ** d


def _clayton_after_reassignment(theta, eta, reassigned):
    """a Clayton copula with parameter theta: built with it, or built with another value and re-assigned (parameter sweeps re-use one object)"""
    if not reassigned:
        return LC.ClaytonCopula(theta=theta, eta=eta)
    cop = LC.ClaytonCopula(theta=3.0, eta=eta)
    cop.theta = theta
    return cop


def replay_clayton_calculus(sc):
    """real Clayton copula on floats (several theta, both construction histories): stated mixed derivative vs central finite differences of
    the copula; conditional distribution in [0, 1], non-decreasing in x, inverted by the stated inverse"""
    out = []
    for theta in (1.0, 0.7, 2.5):
        for reassigned in (False, True):
            cop = _clayton_after_reassignment(theta, 0.3, reassigned)
            tag = f"theta={theta}{' (assigned after construction with 3.0)' if reassigned else ''}"
            for u in ([1.3, 0.7], [-1.3, 0.7], [-1.3, -0.7], [1.3, 0.7, 2.1], [-1.3, 0.7, 2.1], [-1.3, -0.7, -2.1]):
                got, want = float(cop.x_first_derivative(np.array(u))), float(_numeric_mixed(cop, u))
                if abs(abs(got) - abs(want)) > 1e-4 * max(abs(want), 1e-6):
                    out.append(f"{tag}: x_first_derivative({u}) = {got!r}, mixed partial of the copula by central differences = {want!r}")
            for eps in (0.8, -0.8):
                xs = [-300.0, -5.0, -0.4, 0.3, 2.0, 150.0]
                vals = [float(cop.conditional_distribution(eps, np.array([x]))[0]) for x in xs]
                if any(v < -1e-12 or v > 1 + 1e-12 for v in vals) or any(b < a - 1e-12 for a, b in zip(vals, vals[1:])):
                    out.append(f"{tag}: conditional_distribution({eps}, x) at x = {xs} is {vals}: not a distribution function")
                back = [float(np.ravel(cop.inverse_conditional_distribution(np.array([eps]), np.array([v])))[0]) for v in vals]
                for x, b in zip(xs, back):
                    if abs(b - x) > 1e-6 * max(1.0, abs(x)):
                        out.append(f"{tag}: inverse_conditional_distribution({eps}, conditional_distribution({eps}, {x})) = {b!r}")
    return bool(out), "; ".join(out[:3]) if out else "stated derivative, conditional distribution and inverse agree with the copula"


_MIXED = {}


def _mixed_partial_theta1(d, signs):
    """d-fold mixed partial derivative of the Clayton copula with theta = 1 on the orthant `signs`, by sympy from the definition
    F(u) = 2^(2-d) * w * (sum_i 1/|u_i|)^(-1), w = eta if prod(signs) > 0 else -(1 - eta); returned as a python function of (u, eta)"""
    key = (d, tuple(signs))
    if key not in _MIXED:
        import sympy as sp

        us = sp.symbols(f"u0:{d}")
        eta = sp.Symbol("eta")
        w = eta if np.prod(signs) > 0 else -(1 - eta)
        F = sp.Rational(2) ** (2 - d) * w / sum(1 / (sg * x) for sg, x in zip(signs, us))
        D = F
        for x in us:
            D = sp.diff(D, x)
        D = sp.together(sp.simplify(D))
        num, den = sp.fraction(D)
        fn, fd = sp.lambdify((us, eta), sp.expand(num), modules=[{}]), sp.lambdify((us, eta), sp.expand(den), modules=[{}])
        fF = sp.lambdify((us, eta), F, modules=[{}])
        _MIXED[key] = (fn, fd, fF)
    return _MIXED[key]


def h_clayton_mixed(ctx, d, signs, reassigned=False, ray=False):
    """theta = 1, every eta, every argument of the orthant: (a) the real copula equals its definition; (b) the stated mixed derivative
    equals, up to the orientation sign of the orthant, the mixed partial derivative of that definition"""
    eta = ctx.real("eta", 0, 1)
    cop = _clayton_after_reassignment(1.0, eta, reassigned)
    if ray:
        # the arguments on the ray t * (1, 2, 3) of the orthant, t > 0: two symbols (t, eta) only, so that a wrong constant is refuted at once
        t = ctx.real("t")
        ctx.assume(t > 0)
        u = [sg * (i + 1) * t for i, sg in enumerate(signs)]
    else:
        u = [ctx.real(f"u{i}") for i in range(d)]
        for x, sg in zip(u, signs):
            ctx.assume(x > 0 if sg > 0 else x < 0)
    fn, fd, fF = _mixed_partial_theta1(d, signs)
    rp = (replay_clayton_calculus, lambda m: {})
    info = {"d": d, "signs": signs, "reassigned": reassigned, "ray": ray}
    ctx.prove(f"C11.clayton.copula_value_is_its_definition.{d}d", EQ_RATIONAL(cop(arr(u)), fF(u, eta)), info=info, replay=rp)
    stated = cop.x_first_derivative(arr(u))
    num, den = fn(u, eta), fd(u, eta)
    ctx.prove(f"C11.clayton.stated_mixed_derivative_is_the_mixed_partial_of_the_copula.{d}d",
              AND(NOT(EQ(den, 0)), OR(EQ_RATIONAL(stated * den, num), EQ_RATIONAL(stated * den, -num))), info=info, replay=rp, timeout_ms=60000)


def h_clayton_conditional(ctx, eps_sign, x_sign, reassigned=False):
    """theta = 1, every eta in (0, 1): the conditional distribution lies in [0, 1] and the stated inverse inverts it"""
    eta = ctx.real("eta", 0, 1, lo_strict=True, hi_strict=True)
    cop = _clayton_after_reassignment(1.0, eta, reassigned)
    eps, x = ctx.real("eps"), ctx.real("x")
    ctx.assume(eps > 0 if eps_sign > 0 else eps < 0)
    ctx.assume(x > 0 if x_sign > 0 else x < 0)
    rp = (replay_clayton_calculus, lambda m: {})
    info = {"eps_sign": eps_sign, "x_sign": x_sign, "reassigned": reassigned}
    c = cop.conditional_distribution(eps, arr([x]))[0]
    ctx.prove("C11.clayton.conditional_distribution_in_unit_interval", AND(c >= 0, c <= 1), info=info, replay=rp)
    r = (eps / x) if (eps_sign * x_sign > 0) else -(eps / x)  # |eps / x|
    lead = (1 - eta) if eps_sign > 0 else eta
    jump = (eta - (1 if x_sign < 0 else 0)) if eps_sign > 0 else ((1 if x_sign > 0 else 0) - eta)
    ctx.prove("C11.clayton.conditional_distribution_is_its_closed_form", EQ_RATIONAL(c * (1 + r) * (1 + r), lead * (1 + r) * (1 + r) + jump), info=info, replay=rp)
    back = cop.inverse_conditional_distribution(arr([eps]), arr([c]))
    back = np.ravel(back)[0]
    ctx.prove("C11.clayton.stated_inverse_inverts_the_conditional_distribution", EQ(back, x), info=info, replay=rp, timeout_ms=60000)


def h_twin(ctx):
    """sensitivity twin: a 'Clayton' whose orthant weights are eta / -eta (instead of -(1-eta)) has wrong margins"""
    theta = ctx.real("theta")
    ctx.assume(theta > 0)
    eta = ctx.real("eta", 0, 1)
    u = ctx.real("u")
    ctx.assume(u > 0)
    good = LC.ClaytonCopula(theta=theta, eta=eta)

    def bad(us):
        v = good(arr(list(us)))
        return v if bool(v >= 0) else v * eta / (1 - eta) if bool(eta < 1) else v

    marg = LCM.margin(bad, [0], 2)
    ctx.prove("C11.twin.clayton_wrong_weight", EQ(marg([u]), u))


def concrete_validation():
    out = []
    for name in ("indep", "dep", "clayton"):
        cop = make_concrete(name, {})
        for d in (2, 3):
            m = LCM.margin(lambda u: cop(np.asarray(u, dtype=float)), [0], d)
            out.append((f"C11.concrete.{name}.{d}", abs(m([0.37]) - 0.37) < 1e-12 and abs(m([-1.3]) + 1.3) < 1e-12, "0-margin at 0.37 and -1.3 on the shimmed modules"))
    return out


def harnesses(tier):
    q = tier == "quick"
    hs = [Harness("concrete", concrete_validation, concrete=True)]
    for name in ("indep", "dep", "clayton"):
        for d in (2, 3):
            for k in range(d):
                hs.append(Harness(f"grounded.{name}.{d}.{k}", h_grounded, {"name": name, "d": d, "k": k}, max_paths=2000))
            for i in range(d):
                for sg in (1, -1):
                    hs.append(Harness(f"margin.{name}.{d}.{i}.{sg}", h_margin, {"name": name, "d": d, "i": i, "sign": sg}, max_paths=2000, timeout_ms=30000))
    for name in ("indep", "dep"):
        for d in (2, 3):
            hs.append(Harness(f"vertex.{name}.{d}", h_vertex_at_infinity, {"name": name, "d": d}, max_paths=20))
    for name in ("indep", "dep"):
        for d in (2, 3):
            kk = ("ff", "fi")  # rectangles (a, b] of (-inf, inf]^d: finite lower ends (a lower end -inf is a limit, not a point of the domain)
            for kinds in itertools.product(kk, repeat=d):
                if all(k in ("fi", "ni") for k in kinds):
                    continue  # F(inf,...,inf) = inf: the volume is only defined for rectangles with finite corner values
                hs.append(Harness(f"volume.{name}.{d}.{'.'.join(kinds)}", h_volume, {"name": name, "d": d, "kinds": kinds}, max_paths=20000, batch=20))
    for d in (2, 3):
        for signs in ([(1,) * d, (-1,) + (1,) * (d - 1)] if q else list(itertools.product((1, -1), repeat=d))):
            hs.append(Harness(f"clayton.mixed.{d}.{''.join('p' if x > 0 else 'n' for x in signs)}", h_clayton_mixed, {"d": d, "signs": tuple(signs)}, max_paths=400, timeout_ms=60000))
    for d in (2, 3):
        for signs in [(1,) * d, (-1,) + (1,) * (d - 1)]:
            hs.append(Harness(f"clayton.mixed.ray.{d}.{''.join('p' if x > 0 else 'n' for x in signs)}", h_clayton_mixed, {"d": d, "signs": tuple(signs), "ray": True}, max_paths=400, timeout_ms=60000))
    hs.append(Harness("clayton.mixed.2.pp.reassigned", h_clayton_mixed, {"d": 2, "signs": (1, 1), "reassigned": True}, max_paths=400, timeout_ms=60000))
    for es, xs in itertools.product((1, -1), repeat=2):
        hs.append(Harness(f"clayton.conditional.{'p' if es > 0 else 'n'}{'p' if xs > 0 else 'n'}", h_clayton_conditional, {"eps_sign": es, "x_sign": xs}, max_paths=400, timeout_ms=60000))
    hs.append(Harness("clayton.conditional.pn.reassigned", h_clayton_conditional, {"eps_sign": 1, "x_sign": -1, "reassigned": True}, max_paths=400, timeout_ms=60000))
    hs.append(Harness("twin", h_twin, twin="must_fail"))
    return hs


EXPECT = [f"C11.{n}.{o}.{d}d" for n in ("indep", "dep", "clayton") for o in ("grounded", "margin_identity") for d in (2, 3)] + \
         [f"C11.{n}.volume_nonneg.{d}d" for n in ("indep", "dep") for d in (2, 3)] + \
         ["C11.clayton.copula_value_is_its_definition.2d", "C11.clayton.copula_value_is_its_definition.3d", "C11.clayton.stated_mixed_derivative_is_the_mixed_partial_of_the_copula.2d", "C11.clayton.stated_mixed_derivative_is_the_mixed_partial_of_the_copula.3d", "C11.clayton.conditional_distribution_in_unit_interval", "C11.clayton.conditional_distribution_is_its_closed_form", "C11.clayton.stated_inverse_inverts_the_conditional_distribution",
          "C11.indep.infinite_at_the_all_infinite_vertex.2d", "C11.dep.infinite_at_the_all_infinite_vertex.3d"]
ATTEMPTED = []


def main(tier):
    bounds = {"histories_and_variants": 'Clayton calculus clauses (mixed derivative, conditional distribution, inverse) at theta = 1 only, every eta, every argument of every orthant, d = 2, 3; also for a copula whose theta was assigned after construction with 3.0; all-infinite vertex for the independent and dependent copulas',
              "dimensions": "2 and 3", "arguments": "arbitrary reals of either sign, +-inf entries; theta > 0, eta in [0,1] arbitrary",
              "outside": "Clayton d-increasing (needs the sign of a mixed derivative of pow expressions: see the AD obligations when present), "
                         "monotone-limit behaviour of the conditional distribution, FrankLevyCopula (not offered by the model helpers)"}
    return run_check(PID, tier, harnesses(tier), expect=EXPECT, attempted=ATTEMPTED, bounds=bounds,
                     assumptions=COMMON_ASSUMPTIONS + ["pow as an uninterpreted function with the power laws listed in symx/special.py AXIOMS_DOC, instantiated on occurring terms"])


if __name__ == "__main__":
    sys.exit(main(sys.argv[1] if len(sys.argv) > 1 else "quick"))
