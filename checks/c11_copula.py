"""C11 - the Lévy copulas offered are Lévy copulas: grounded, d-increasing, uniform margins.

The real __call__ of ClaytonCopula / IndependentComponentsCopula / DependentComponentsCopula and the real volume / margin operators
of levycopulamodel run on symbolic arguments (either sign, infinite entries).  pow is an uninterpreted function with the power
laws (symx/special.py), so Clayton obligations hold for every theta > 0, eta in [0,1].
"""
import itertools
import math
import sys

import numpy as np

from .common import *  # noqa
from .common import z3, V, shims, Harness, run_check, SymReal, SymBool, AND, OR, NOT, EQ, IMPLIES, COMMON_ASSUMPTIONS, Unsupported
from symx import special as S

import rpylib.model.levycopulamodel as LCM
import rpylib.numerical.tools as NT
import rpylib.distribution.levycopula as LC

PID = "C11"
INF = math.inf

shims.install_np(LCM, NT, LC)
shims.register_singledispatch(NT.sign)


def make(ctx, name):
    if name == "indep":
        return LC.IndependentComponentsCopula()
    if name == "dep":
        return LC.DependentComponentsCopula()
    theta = ctx.real("theta")
    ctx.assume(theta > 0)
    eta = ctx.real("eta", 0, 1)
    return LC.ClaytonCopula(theta=theta, eta=eta)


def make_concrete(name, sc):
    if name == "indep":
        return LC.IndependentComponentsCopula()
    if name == "dep":
        return LC.DependentComponentsCopula()
    return LC.ClaytonCopula(theta=float(sc.get("theta", 0.7)), eta=float(sc.get("eta", 0.3)))


def arr(xs):
    a = np.empty(len(xs), dtype=object)
    for i, x in enumerate(xs):
        a[i] = x
    return a


def _f(cop):
    return lambda us: cop(arr(list(us)))


def _fc(cop):
    return lambda us: cop(np.array([float(u) for u in us]))


def replay_generic(sc):
    cop = make_concrete(sc["copula"], sc)
    kind = sc["kind"]
    if kind == "grounded":
        v = _fc(cop)(sc["u"])
        return v != 0, f"{cop}({sc['u']}) = {v} with a zero argument"
    if kind == "margin":
        d, i = sc["d"], sc["i"]
        m = LCM.margin(lambda u: cop(np.asarray(u, dtype=float)), [i], d)
        v = m([sc["u"]])
        return abs(v - sc["u"]) > 1e-9 * max(1, abs(sc["u"])), f"{cop}: {i}-margin at {sc['u']} = {v}"
    if kind == "volume":
        v = LCM.volume(_fc(cop), sc["a"], sc["b"])
        return v < -1e-12, f"{cop}: volume of ({sc['a']}, {sc['b']}] = {v}"
    return None, "unknown kind"


def _mv(m, x):
    return x if isinstance(x, float) else m.f(x)


def _cl(m, name):
    return {"theta": m.f("theta"), "eta": m.f("eta")} if name == "clayton" else {}


def h_grounded(ctx, name, d, k):
    cop = make(ctx, name)
    us = [ctx.real(f"u{i}") for i in range(d)]
    ctx.assume(EQ(us[k], 0))
    v = _f(cop)(us)
    ctx.prove(f"C11.{name}.grounded.{d}d", EQ(v, 0),
              replay=(replay_generic, lambda m: dict(copula=name, kind="grounded", u=[m.f(u) for u in us], **_cl(m, name))))


def h_margin(ctx, name, d, i, sign):
    cop = make(ctx, name)
    u = ctx.real("u")
    ctx.assume(u > 0 if sign > 0 else u < 0)
    marg = LCM.margin(_f(cop), [i], d)

    # levycopulamodel.margin builds np.zeros(shape=dimension) and assigns: run it through the proxy (object array)
    v = marg([u])
    ctx.prove(f"C11.{name}.margin_identity.{d}d", EQ(v, u), info={"i": i, "sign": sign},
              replay=(replay_generic, lambda m: dict(copula=name, kind="margin", d=d, i=i, u=m.f(u), **_cl(m, name))))


def _endpoints(ctx, nm, kind):
    """(lo, hi] of a kind: 'ff' finite-finite, 'fi' finite-(+inf), 'nf' (-inf)-finite is not in the domain (-inf, inf]: lower -inf allowed as limit"""
    if kind == "ff":
        lo, hi = ctx.real(nm + "lo"), ctx.real(nm + "hi")
        ctx.assume(lo <= hi)
        return lo, hi
    if kind == "fi":
        return ctx.real(nm + "lo"), INF
    if kind == "nf":
        return -INF, ctx.real(nm + "hi")
    return -INF, INF


def h_volume(ctx, name, d, kinds):
    cop = make(ctx, name)
    eps = [_endpoints(ctx, f"x{i}", k) for i, k in enumerate(kinds)]
    a = [e[0] for e in eps]
    b = [e[1] for e in eps]
    v = LCM.volume(_f(cop), a, b)
    ctx.prove(f"C11.{name}.volume_nonneg.{d}d", v >= 0, info={"kinds": kinds},
              replay=(replay_generic, lambda m: dict(copula=name, kind="volume", a=[_mv(m, x) for x in a], b=[_mv(m, x) for x in b])))


def h_twin(ctx):
    """sensitivity twin: a 'Clayton' whose orthant weights are eta / -eta (instead of -(1-eta)) has wrong margins"""
    theta = ctx.real("theta")
    ctx.assume(theta > 0)
    eta = ctx.real("eta", 0, 1)
    u = ctx.real("u")
    ctx.assume(u > 0)
    good = LC.ClaytonCopula(theta=theta, eta=eta)

    def bad(us):
        v = good(arr(list(us)))
        return v if bool(v >= 0) else v * eta / (1 - eta) if bool(eta < 1) else v

    marg = LCM.margin(bad, [0], 2)
    ctx.prove("C11.twin.clayton_wrong_weight", EQ(marg([u]), u))


def concrete_validation():
    out = []
    for name in ("indep", "dep", "clayton"):
        cop = make_concrete(name, {})
        for d in (2, 3):
            m = LCM.margin(lambda u: cop(np.asarray(u, dtype=float)), [0], d)
            out.append((f"C11.concrete.{name}.{d}", abs(m([0.37]) - 0.37) < 1e-12 and abs(m([-1.3]) + 1.3) < 1e-12, "0-margin at 0.37 and -1.3 on the shimmed modules"))
    return out


def harnesses(tier):
    q = tier == "quick"
    hs = [Harness("concrete", concrete_validation, concrete=True)]
    for name in ("indep", "dep", "clayton"):
        for d in (2, 3):
            for k in range(d):
                hs.append(Harness(f"grounded.{name}.{d}.{k}", h_grounded, {"name": name, "d": d, "k": k}, max_paths=2000))
            for i in range(d):
                for sg in (1, -1):
                    hs.append(Harness(f"margin.{name}.{d}.{i}.{sg}", h_margin, {"name": name, "d": d, "i": i, "sign": sg}, max_paths=2000, timeout_ms=30000))
    for name in ("indep", "dep"):
        for d in (2, 3):
            kk = ("ff", "fi")  # rectangles (a, b] of (-inf, inf]^d: finite lower ends (a lower end -inf is a limit, not a point of the domain)
            for kinds in itertools.product(kk, repeat=d):
                if all(k in ("fi", "ni") for k in kinds):
                    continue  # F(inf,...,inf) = inf: the volume is only defined for rectangles with finite corner values
                hs.append(Harness(f"volume.{name}.{d}.{'.'.join(kinds)}", h_volume, {"name": name, "d": d, "kinds": kinds}, max_paths=20000, batch=20))
    hs.append(Harness("twin", h_twin, twin="must_fail"))
    return hs


EXPECT = [f"C11.{n}.{o}.{d}d" for n in ("indep", "dep", "clayton") for o in ("grounded", "margin_identity") for d in (2, 3)] + \
         [f"C11.{n}.volume_nonneg.{d}d" for n in ("indep", "dep") for d in (2, 3)]
ATTEMPTED = []


def main(tier):
    bounds = {"dimensions": "2 and 3", "arguments": "arbitrary reals of either sign, +-inf entries; theta > 0, eta in [0,1] arbitrary",
              "outside": "Clayton d-increasing (needs the sign of a mixed derivative of pow expressions: see the AD obligations when present), "
                         "monotone-limit behaviour of the conditional distribution, FrankLevyCopula (not offered by the model helpers)"}
    return run_check(PID, tier, harnesses(tier), expect=EXPECT, attempted=ATTEMPTED, bounds=bounds,
                     assumptions=COMMON_ASSUMPTIONS + ["pow as an uninterpreted function with the power laws listed in symx/special.py AXIOMS_DOC, instantiated on occurring terms"])


if __name__ == "__main__":
    sys.exit(main(sys.argv[1] if len(sys.argv) > 1 else "quick"))
