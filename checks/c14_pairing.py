"""C14 - index/state enumerations are bijections.

The real pairing / projection code of rpylib.distribution.pairing, tools.generic.lazy_indices_product and
StatesManager.project_index_to_state_increment is executed on symbolic integers; z3 (NIA/LIA) decides the round-trip
identities for all integers inside the stated bounds.  sqrt / z**(1/3) are exact real roots (UF + r^n = z); the IEEE
rounding of floor(sqrt(z)) is covered by a separate error-model lemma (sqrt correctly rounded, relative error <= 2^-53).
"""
import sys
import math
from fractions import Fraction

from .common import *  # noqa
from .common import z3, V, shims, Harness, run_check, SymInt, SymReal, AND, OR, NOT, EQ, IMPLIES, eq_tuple, COMMON_ASSUMPTIONS

import rpylib.distribution.pairing as P
import rpylib.tools.generic as G
import rpylib.grid.spatial as GS
import rpylib.grid.grid as GG
import numpy as np

PID = "C14"

_ORIG_RANGE = range


def _install():
    shims.install(P, floor=shims.sym_floor, sqrt=shims.sym_sqrt)
    shims.install_np(P, GS, GG)
    shims.install(P, int=_IntShim(), max=max)
    shims.install(G, floor=shims.sym_floor, int=_IntShim(), qdiv=_qdiv, range=_havoc_range)


class _IntShim:
    def __call__(self, x=0, *a):
        return shims.sym_int(x, *a)

    def __instancecheck__(self, inst):
        return isinstance(inst, int)


def _qdiv(a, b=1):
    if V.is_sym(a) or V.is_sym(b):
        return a / b
    return Fraction(a) / Fraction(b)


_HAVOC = {"n": None, "count": None}


def _havoc_range(*args):
    """`range(nb)` inside lazy_indices_product: a single arbitrary iteration n in [0, nb) (havoc form)."""
    if V.get_context() is None or _HAVOC["n"] is None:
        return _ORIG_RANGE(*args)
    nb = args[0]
    _HAVOC["count"] = nb
    ctx = V.get_context()
    n = _HAVOC["n"]
    ctx.assume(AND(n >= 0, n < nb))
    return [n]


_FP = {"record": None}


def _sqrt_shim(x):
    """math.sqrt as seen by pairing.py: the exact root; calls on symbolic integers are recorded for the IEEE lemma."""
    root = shims.sym_sqrt(x)
    if _FP["record"] is not None and V.is_sym(x) and hasattr(root, "m"):
        _FP["record"].append((V.to_term(x), root.m))
    return root


def _isqrt_shim(x):
    """math.isqrt: the exact integer root (no floating point involved)."""
    if V.is_sym(x):
        return SymInt(shims.sym_sqrt(x).m)
    return math.isqrt(x)


_install()
shims.install(P, sqrt=_sqrt_shim, isqrt=_isqrt_shim)

PAIRINGS = {"Cantor": P.Cantor, "RosenbergStrong": P.RosenbergStrong, "Szudzik": P.Szudzik, "PepisKalmar": P.PepisKalmar}


# --------------------------------------------------------------------------------------
# concrete replays (real code, python ints)


def replay_pair2d(sc):
    cls = PAIRINGS[sc["pairing"]]
    x, y = sc["x"], sc["y"]
    z = cls.pairing2d(x, y)
    back = cls.projection2d(z)
    ok = tuple(back) != (x, y)
    return ok, f"{sc['pairing']}.projection2d(pairing2d({x},{y})={z}) = {back}"


def replay_proj2d(sc):
    cls = PAIRINGS[sc["pairing"]]
    z = sc["z"]
    x, y = cls.projection2d(z)
    zz = cls.pairing2d(x, y)
    ok = zz != z or x < 0 or y < 0
    return ok, f"{sc['pairing']}.pairing2d(projection2d({z})={(x, y)}) = {zz}"


def replay_rs_nd(sc):
    rs = P.RosenbergStrong()
    if "z" in sc:
        z0, d = sc["z"], sc["d"]
        k0 = round(z0 ** (1 / d))
        # exact arithmetic predicts the failure just below a perfect power; libm rounding can shift it by a few shells
        for z in [z0] + [k**d - 1 for k in range(k0, k0 + 6)]:
            try:
                x = rs.projection(z, d)
            except Exception as e:
                return True, f"RosenbergStrong.projection({z},{d}) raises {type(e).__name__}: {e}"
            if rs.pairing(tuple(x)) != z or min(x) < 0:
                return True, f"RosenbergStrong.pairing(projection({z},{d})={x}) = {rs.pairing(tuple(x))}"
        z = z0
        zz = rs.pairing(tuple(x))
        return (zz != z or min(x) < 0), f"RosenbergStrong.pairing(projection({z},{d})={x}) = {zz}"
    x = tuple(sc["x"])
    z = rs.pairing(x)
    back = rs.projection(z, len(x))
    return tuple(back) != x, f"RosenbergStrong.projection(pairing({x})={z}) = {back}"


def replay_zd(sc):
    d = sc["d"]
    pr = P.PairingToZd(P.Szudzik() if d == 2 else P.RosenbergStrong(), dimension=d)
    if "n" in sc:
        x = pr.project(sc["n"])
        n2 = pr.pair(x)
        return (n2 != sc["n"] or all(v == 0 for v in x)), f"PairingToZd(d={d}).pair(project({sc['n']})={x}) = {n2}"
    x = tuple(sc["x"])
    n = pr.pair(x)
    back = pr.project(n)
    return tuple(back) != x or n < 0, f"PairingToZd(d={d}).project(pair({x})={n}) = {back}"


def replay_z1d(sc):
    L, R = sc["L"], sc["R"]
    order = sc["order"]
    pr = P.PairingToZ1d((-L, R), omit_zero=True)
    got = [pr.project(k) for k in order]
    fresh = []
    for k in order:
        q = P.PairingToZ1d((-L, R), omit_zero=True)
        P.PairingToZ1d.project.cache_clear()
        # reference: natural order 0..k on a fresh object
        ref = [q.project(j) for j in range(k + 1)][-1]
        fresh.append(ref)
        P.PairingToZ1d.project.cache_clear()
    P.PairingToZ1d.project.cache_clear()
    return got != fresh, f"PairingToZ1d((-{L},{R})).project in call order {order} -> {got}; in natural order -> {fresh}"


def replay_z1d_natural(sc):
    L, R = sc["L"], sc["R"]
    omit = sc.get("omit_zero", True)
    n = L + R if omit else L + R + 1
    P.PairingToZ1d.project.cache_clear()
    pr = P.PairingToZ1d((-L, R), omit_zero=omit)
    states = [pr.project(k) for k in range(n)]
    back = [pr.pair(s) for s in states]
    P.PairingToZ1d.project.cache_clear()
    ok = sorted(states) != [s for s in range(-L, R + 1) if (s != 0 or not omit)] or back != list(range(n))
    return ok, f"PairingToZ1d((-{L},{R}), omit_zero={omit}): states {states}, pair(states) {back}"


def replay_lazy(sc):
    sizes = list(sc["sizes"])
    got = list(G.lazy_indices_product(list(sizes)))
    import itertools

    want = sorted(itertools.product(*[range(s) for s in sizes]))
    return sorted(got) != want, f"lazy_indices_product({sizes}) yields {len(got)} tuples, {len(set(got))} distinct, expected {len(want)}: {got[:8]}..."


def _make_grid(sc):
    if sc["dim"] == 1:
        L, R = sc["L"], sc["R"]
        axis = np.array([float(k) for k in range(-L, R + 1)])
        return GS.CTMCGrid(h=1.0, origin_coordinate=L, axes=[axis])
    L, R = (sc["n"], sc["n"]) if sc.get("n") is not None else (sc["L"], sc["R"])
    axis = np.array([float(k) for k in range(-L, R + 1)])
    return GS.CTMCGrid(h=1.0, origin_coordinate=L, axes=[axis.copy() for _ in range(sc["dim"])])


def _make_manager(sc):
    grid = _make_grid(sc)
    if sc["dim"] == 1:
        L, R = sc["L"], sc["R"]
        pairing = P.PairingToZ1d((-L, R), omit_zero=True)
    elif sc["dim"] == 2:
        pairing = P.PairingToZd(pairing=P.Szudzik(), dimension=2)
    else:
        pairing = P.PairingToZd(pairing=P.RosenbergStrong(), dimension=sc["dim"])
    domain = P.Domain(boundary=P.Boundary(), grid=grid, pairing=pairing)
    return grid, pairing, P.StatesManager(pairing=pairing, domain=domain, grid=grid)


def replay_states(sc):
    """enumerate exactly as InversionMethod does: x = 0,1,2,... until break_here"""
    P.PairingToZ1d.project.cache_clear()
    grid, pairing, sm = _make_manager(sc)
    seen = []
    x = 0
    while x < 10_000:
        st, brk = sm.project_index_to_state_increment(x)
        if brk:
            break
        seen.append(st if not isinstance(st, (int, np.integer)) else (int(st),))
        x += 1  # the inversion sampler asks for index 0, 1, 2, ...: the number of states it has logged so far
    P.PairingToZ1d.project.cache_clear()
    import itertools

    if sc["dim"] == 1:
        want = {(k,) for k in range(-sc["L"], sc["R"] + 1) if k != 0}
    else:
        L, R = (sc["n"], sc["n"]) if sc.get("n") is not None else (sc["L"], sc["R"])
        want = {t for t in itertools.product(range(-L, R + 1), repeat=sc["dim"]) if any(t)}
    got = [tuple(int(v) for v in s) for s in seen]
    missing = sorted(want - set(got))
    dup = len(got) - len(set(got))
    extra = sorted(set(got) - want)
    ok = bool(missing or dup or extra)
    return ok, f"StatesManager enumeration on {sc}: {len(got)} states before exhaustion, missing {missing[:6]}, duplicates {dup}, outside {extra[:4]}"


# --------------------------------------------------------------------------------------
# symbolic harnesses


def h_pair2d(ctx, name, B, ymax=None, fork_roots=False):
    cls = PAIRINGS[name]
    ctx.fork_roots = fork_roots
    if fork_roots:
        ctx.max_int_fanout = 2048  # one path per value of the integer root
    x = ctx.int("x", 0, B)
    y = ctx.int("y", 0, B if ymax is None else ymax)
    ctx.hints += [V.to_term(x), V.to_term(y)]
    z = cls.pairing2d(x, y)
    back = cls.projection2d(z)
    ctx.prove(f"C14.{name}.proj_pair", eq_tuple(back, (x, y)), info={"B": B},
              replay=(replay_pair2d, lambda m: {"pairing": name, "x": m["x"], "y": m["y"]}))


def h_proj2d(ctx, name, B2, fork_roots=False):
    cls = PAIRINGS[name]
    ctx.fork_roots = fork_roots
    if fork_roots:
        ctx.max_int_fanout = 2048
    z = ctx.int("z", 0, B2)
    x, y = cls.projection2d(z)
    zz = cls.pairing2d(x, y)
    ctx.prove(f"C14.{name}.pair_proj", AND(EQ(zz, z), x >= 0, y >= 0), info={"B2": B2},
              replay=(replay_proj2d, lambda m: {"pairing": name, "z": m["z"]}))


def h_rs_pair_nd(ctx, d, B, fork_roots=True):
    rs = P.RosenbergStrong()
    ctx.fork_roots = fork_roots
    ctx.fork_pow_base = fork_roots
    xs = tuple(ctx.int(f"x{i}", 0, B) for i in range(d))
    z = rs.pairing(xs)
    back = rs.projection(z, d)
    ctx.prove(f"C14.RosenbergStrong.proj_pair.{d}d", eq_tuple(back, xs), info={"B": B},
              replay=(replay_rs_nd, lambda m: {"x": [m[f"x{i}"] for i in range(d)]}),
              regions={"cube_root_epsilon": z >= 5773**3})


def h_rs_proj_nd(ctx, d, BZ, lo=0, fork_roots=True):
    rs = P.RosenbergStrong()
    ctx.fork_roots = fork_roots
    ctx.fork_pow_base = fork_roots
    z = ctx.int("z", lo, BZ)
    rp = (replay_rs_nd, lambda m: {"z": m["z"], "d": d})
    try:
        xs = rs.projection(z, d)
    except Exception as e:  # the real code raises as well (complex root of a negative remainder): an obligation, not a harness error
        ctx.prove(f"C14.RosenbergStrong.pair_proj.{d}d", False, info={"raised": f"{type(e).__name__}: {e}"[:200]}, replay=rp,
                  regions={"cube_root_epsilon": z >= 5773**3})
        return
    zz = rs.pairing(tuple(xs))
    ctx.prove(f"C14.RosenbergStrong.pair_proj.{d}d", AND(EQ(zz, z), *[x >= 0 for x in xs]), info={"BZ": BZ, "lo": lo},
              replay=(replay_rs_nd, lambda m: {"z": m["z"], "d": d}),
              regions={"cube_root_epsilon": z >= 5773**3})


def h_fold(ctx):
    n = ctx.int("n")
    back = P.projection_to_z(P.mapping_to_z(n))
    ctx.prove("C14.fold.proj_map", AND(EQ(back, n), P.mapping_to_z(n) >= 0))
    z = ctx.int("zz", 0)
    ctx.prove("C14.fold.map_proj", EQ(P.mapping_to_z(P.projection_to_z(z)), z))


def h_zd_pair(ctx, d, B):
    pr = P.PairingToZd(P.Szudzik() if d == 2 else P.RosenbergStrong(), dimension=d)
    xs = tuple(ctx.int(f"x{i}", None if B is None else -B, B) for i in range(d))
    ctx.assume(OR(*[x != 0 for x in xs]))
    ctx.fork_roots = ctx.fork_pow_base = d >= 3
    ctx.hints += [V.to_term(P.mapping_to_z(x)) for x in xs]  # candidates for the integer-root uniqueness lemma
    n = pr.pair(xs)
    back = pr.project(n)
    ctx.prove(f"C14.PairingToZd.project_pair.{d}d", AND(eq_tuple(back, xs), n >= 0), info={"B": B},
              replay=(replay_zd, lambda m: {"d": d, "x": [m[f"x{i}"] for i in range(d)]}))


def h_zd_proj(ctx, d, BN):
    pr = P.PairingToZd(P.Szudzik() if d == 2 else P.RosenbergStrong(), dimension=d)
    n = ctx.int("n", 0, BN)
    ctx.fork_roots = ctx.fork_pow_base = d >= 3
    xs = pr.project(n)
    n2 = pr.pair(tuple(xs))
    ctx.prove(f"C14.PairingToZd.pair_project.{d}d", AND(EQ(n2, n), OR(*[x != 0 for x in xs])), info={"BN": BN},
              replay=(replay_zd, lambda m: {"d": d, "n": m["n"]}))


def h_z1d_natural(ctx, L, R):
    """natural (increasing) call order, as the inversion sampler uses it: bijection onto [-L,R] minus 0."""
    pr = P.PairingToZ1d((-L, R), omit_zero=True)
    k = ctx.int("k", 0, L + R - 1)
    kk = k.__index__()  # fork over every index: the projection is stateful, the history is 0..k
    states = [pr.project(j) for j in range(kk + 1)]
    s = states[-1]
    rp = (replay_z1d_natural, lambda m: {"L": L, "R": R})
    ctx.prove("C14.PairingToZ1d.natural.in_interval", AND(s >= -L, s <= R, s != 0), replay=rp)
    ctx.prove("C14.PairingToZ1d.natural.pair_project", EQ(pr.pair(s), kk), replay=rp)
    ctx.prove("C14.PairingToZ1d.natural.distinct", AND(*[s != t for t in states[:-1]]) if kk else True, replay=rp)


def h_z1d_state(ctx, L, R, omit_zero=True):
    """pair/project for a symbolic state of the interval (pure part): project_fresh_natural(pair(s)) == s; omit_zero=False: the interval
    keeps its zero (L + R + 1 states)"""
    pr = P.PairingToZ1d((-L, R), omit_zero=omit_zero)
    s = ctx.int("s", -L, R)
    if omit_zero:
        ctx.assume(s != 0)
    top = L + R - 1 if omit_zero else L + R
    rp = (replay_z1d_natural, lambda m: {"L": L, "R": R, "omit_zero": omit_zero})
    n = pr.pair(s)
    ctx.prove("C14.PairingToZ1d.pair_range", AND(n >= 0, n <= top), info={"omit_zero": omit_zero}, replay=rp)
    t = ctx.int("t", -L, R)
    if omit_zero:
        ctx.assume(t != 0)
    ctx.prove("C14.PairingToZ1d.pair_injective", IMPLIES(s != t, pr.pair(s) != pr.pair(t)), info={"omit_zero": omit_zero}, replay=rp)
    nn = n.__index__()
    states = [pr.project(j) for j in range(nn + 1)]
    ctx.prove("C14.PairingToZ1d.project_pair", EQ(states[-1], s), info={"omit_zero": omit_zero}, replay=rp)


def h_z1d_order(ctx, L, R, nc):
    """history twin: arbitrary first-call order vs natural order"""
    pr = P.PairingToZ1d((-L, R), omit_zero=True)
    ks = [ctx.int(f"k{i}", 0, L + R - 1) for i in range(nc)]
    order = [k.__index__() for k in ks]
    got = [pr.project(k) for k in order]
    for i, k in enumerate(order):
        P.PairingToZ1d.project.cache_clear()
        q = P.PairingToZ1d((-L, R), omit_zero=True)
        ref = [q.project(j) for j in range(k + 1)][-1]
        non_monotone = any(order[a] > order[b] for a in range(i + 1) for b in range(a + 1, i + 1))
        skipped = order[0] != 0 or any(order[a + 1] - order[a] > 1 for a in range(i))
        ctx.prove("C14.PairingToZ1d.order_independent", EQ(got[i], ref), info={"order": order},
                  replay=(replay_z1d, lambda m, order=order: {"L": L, "R": R, "order": order}),
                  regions={"first_calls_not_consecutive_from_0": (non_monotone or skipped) and L != R})


def h_lazy(ctx, sizes):
    sizes = list(sizes)
    total = 1
    for s in sizes:
        total *= s
    rp = (replay_lazy, lambda m: {"sizes": sizes})
    equal = all(s == sizes[0] for s in sizes)
    regions = {"unequal_sizes": not equal}
    tuples = []
    for nm in ("n1", "n2"):
        n = ctx.int(nm)
        _HAVOC["n"] = n
        try:
            out = list(G.lazy_indices_product(list(sizes)))
        finally:
            _HAVOC["n"] = None
        assert len(out) == 1
        tuples.append((n, out[0]))
        if nm == "n1":
            ctx.prove("C14.lazy_product.count", EQ(_HAVOC["count"], total), replay=rp, regions=regions)
    (n1, t1), (n2, t2) = tuples
    ctx.prove("C14.lazy_product.in_box", AND(*[AND(v >= 0, v < s) for v, s in zip(t1, sizes)]), replay=rp, regions=regions)
    ctx.prove("C14.lazy_product.injective", IMPLIES(n1 != n2, NOT(eq_tuple(t1, t2))), replay=rp, regions=regions)


def h_states(ctx, dim, L=None, R=None, n=None):
    sc = {"dim": dim, "L": L, "R": R, "n": n}
    grid, pairing, sm = _make_manager(sc)
    rp = (replay_states, lambda m: sc)
    if dim == 1:
        s = (ctx.int("s0", -L, R),)
        ctx.assume(s[0] != 0)
        idx = pairing.pair(s[0])
    else:
        lo, hi = (-n, n) if n is not None else (-L, R)
        s = tuple(ctx.int(f"s{i}", lo, hi) for i in range(dim))
        ctx.assume(OR(*[v != 0 for v in s]))
        idx = pairing.pair(s)
    # completeness: asking for the index of an admissible state returns that state, not exhaustion
    i0 = idx.__index__() if isinstance(idx, SymInt) else int(idx)
    if dim == 1:
        # the 1-d projection is stateful: the sampler reaches index i0 through 0..i0
        st = brk = None
        x = 0
        while x <= i0:
            st, brk = sm.project_index_to_state_increment(x)
            if brk:
                break
            x = sm._last_projected_index + 1
        last = sm._last_projected_index
    else:
        st, brk = sm.project_index_to_state_increment(i0)
        last = sm._last_projected_index
    is_max = i0 == sm.max_frontier_indices
    regions = {"state_with_largest_index": is_max}
    ctx.prove("C14.states.not_exhausted_early", NOT(brk) if V.is_sym(brk) else (not brk), replay=rp, regions=regions)
    if not brk:
        st_t = (st,) if dim == 1 else tuple(st)
        ctx.prove("C14.states.returns_state_of_index", eq_tuple(st_t, s), replay=rp)


def _reference_order(sc):
    """the admissible states in the order of their pairing index, from a fresh manager asked for index 0, 1, 2, ..."""
    P.PairingToZ1d.project.cache_clear()
    grid, pairing, sm = _make_manager(sc)
    ref, x = [], 0
    while x < 10_000:
        st, brk = sm.project_index_to_state_increment(x)
        if brk:
            break
        ref.append(tuple(int(v) for v in np.atleast_1d(st)))
        x += 1
    P.PairingToZ1d.project.cache_clear()
    return ref


def _sampler(sc, n_states):
    import rpylib.distribution.variate.inversion as INV

    grid, pairing, sm = _make_manager(sc)
    return INV.InversionMethod(probability_to_jump_to_state=lambda inc: Fraction(1, n_states), state_manager=sm)


def replay_sampler_extensions(sc):
    """the real inversion sampler on the real manager (uniform law on the admissible states of the grid): the draws u_1, u_2, ... extend the
    stored enumeration in several goes; every draw returns the state whose position in the enumeration matches u and no state is logged twice"""
    ref = _reference_order(sc)
    n = len(ref)
    us = [Fraction(u) for u in sc["us"]] if sc.get("us") else None
    bad = []
    F = Fraction
    # exact rational arithmetic (probabilities 1/n and uniforms as fractions): no rounding at the cell boundaries k/n
    for seq in ([us] if us else [[F(3, 10), F(11, 20), F(4, 5), F(99, 100)], [F(1, 2), F(999, 1000)], [F(1, 5), F(2, 5), F(3, 5), F(4, 5), F(1)]]):
        smp = _sampler(sc, n)
        for u in seq:
            got = tuple(int(v) for v in np.atleast_1d(smp.sample_with_u(u)))
            k = max(0, min(n - 1, math.ceil(u * n) - 1))
            if got != ref[k]:
                bad.append(f"draws {[str(x) for x in seq]}: u={u} returns {got}, the state at position {k} of the enumeration is {ref[k]}")
                break
        logged = [tuple(int(v) for v in np.atleast_1d(x)) for x in smp._simulated_state_increments]
        if len(set(logged)) != len(logged):
            bad.append(f"draws {[str(x) for x in seq]}: states logged twice: {sorted({x for x in logged if logged.count(x) > 1})[:4]}")
    return bool(bad), f"grid {sc}: " + ("; ".join(bad[:3]) if bad else "draws follow the enumeration")


def h_sampler_extensions(ctx, dim, L, R, draws=2):
    """the enumeration as its consumer drives it: the inversion sampler extends its stored list of states in several goes (one per draw that
    goes beyond what is stored), handing the manager the storage position; uniform law, symbolic uniforms"""
    sc = {"dim": dim, "L": L, "R": R, "n": None}
    ref = _reference_order(sc)
    n = len(ref)
    smp = _sampler(sc, n)
    us = [ctx.real(f"u{j + 1}", 0, 1, lo_strict=True, hi_strict=True) for j in range(draws)]
    rp = (replay_sampler_extensions, lambda m: dict(sc, us=[str(m.frac(f"u{j + 1}")) for j in range(draws)]))
    for j, u in enumerate(us):
        got = tuple(int(v) for v in np.atleast_1d(smp.sample_with_u(u)))
        k = 0
        while k < n - 1 and u > Fraction(k + 1, n):
            k += 1
        ctx.prove("C14.sampler.draw_returns_the_state_at_its_position_in_the_enumeration", got == ref[k], info={"draw": j + 1, "position": k, "L": L, "R": R}, replay=rp)
    logged = [tuple(int(v) for v in np.atleast_1d(x)) for x in smp._simulated_state_increments]
    ctx.prove("C14.sampler.no_state_logged_twice", len(set(logged)) == len(logged), info={"L": L, "R": R}, replay=rp)


def h_states_sound(ctx, dim, n=None, L=None, R=None):
    """soundness: for a symbolic index x, a non-exhausted answer is an in-grid non-origin state whose index is >= x
    and no admissible state has an index in [x, returned index)"""
    sc = {"dim": dim, "L": L, "R": R, "n": n}
    lo, hi = (-n, n) if n is not None else (-L, R)
    grid, pairing, sm = _make_manager(sc)
    rp = (replay_states, lambda m: sc)
    x = ctx.int("x", 0, sm.max_frontier_indices + 2)
    # one inductive step from an arbitrary state of the cursor: the sampler's k-th call passes x = k while the manager has already handed
    # out the index `last` >= x - 1 (it may have skipped inadmissible indices)
    last = ctx.int("last", -1, sm.max_frontier_indices + 1)
    ctx.assume(x <= last + 1)
    sm._last_projected_index = last.__index__()
    last = sm._last_projected_index
    st, brk = sm.project_index_to_state_increment(x)
    if brk:
        return
    st = tuple(st)
    ctx.prove("C14.states.in_grid_non_origin", AND(*[AND(v >= lo, v <= hi) for v in st], OR(*[v != 0 for v in st])), replay=rp)
    j = pairing.pair(st)
    ctx.prove("C14.states.index_ge_request", AND(j >= x, EQ(j, sm._last_projected_index)), replay=rp)
    ctx.prove("C14.states.every_call_returns_a_state_not_returned_before", j > last, info={"last": last}, replay=rp)
    t = tuple(ctx.int(f"t{i}", lo, hi) for i in range(dim))
    ctx.assume(OR(*[v != 0 for v in t]))
    jt = pairing.pair(t)
    ctx.prove("C14.states.no_admissible_state_skipped", NOT(AND(jt > last, jt >= x, jt < j)), replay=rp)


# ---- IEEE lemma: floor(fl_sqrt(z)) == isqrt(z)


def h_sqrt_lemma(ctx, W, expect_fail=False):
    """error model of a correctly rounded sqrt on doubles: s = fl(sqrt(z)) with |s - sqrt(z)| <= 2^-53 * sqrt(z), and exact
    when z is a perfect square with representable root; z < 2^W is exactly representable for W <= 53."""
    z = ctx.int("z", 0, 2**W - 1)
    m = ctx.int("m", 0)  # m = isqrt(z)
    ctx.assume(AND(m * m <= z, (m + 1) * (m + 1) > z))
    r = ctx.real("sqrt_z", 0)
    ctx.assume(EQ(r * r, z))
    s = ctx.real("fl_sqrt_z")
    u = Fraction(1, 2**53)
    ctx.assume(AND(s >= r * (1 - u), s <= r * (1 + u)))
    ctx.assume(IMPLIES(EQ(m * m, z), EQ(s, m)))
    fl = s.__floor__()
    ctx.prove("C14.ieee.floor_sqrt_is_isqrt" + (".twin" if expect_fail else ""), EQ(fl, m), info={"W": W})


def replay_fp(sc):
    cls = PAIRINGS[sc["pairing"]]
    cands = [sc["z"]]
    m = math.isqrt(sc["z"])
    cands += [(m + 1) ** 2 - 1, m * m - 1, (m + 1) ** 2 - 2]
    for z in cands:
        if z < 0:
            continue
        x, y = cls.projection2d(z)
        if x < 0 or y < 0 or cls.pairing2d(x, y) != z or (x, y) != _exact_projection(sc["pairing"], z):
            return True, f"{sc['pairing']}.projection2d({z}) = {(x, y)} but the exact-integer projection is {_exact_projection(sc['pairing'], z)}"
    return False, f"no floating-point failure at z in {cands}"


def _exact_projection(name, z):
    m = math.isqrt(z)
    z1 = z - m * m
    if name == "Szudzik":
        return (z1, m) if z1 < m else (m, z1 - m)
    return (z1, m) if z1 < m else (m, 2 * m - z1)


def h_proj2d_fp(ctx, name, W, lo=0):
    """every floating-point square root taken by the projection, under the IEEE error model of a correctly rounded double sqrt
    (s in [r(1-2^-53), r(1+2^-53)], r the exact root, s = m on perfect squares m^2), floors to the exact integer root for
    z < 2^W; a projection that takes no floating-point root (math.isqrt) has nothing to prove."""
    cls = PAIRINGS[name]
    z = ctx.int("z", lo, 2**W - 1)
    _FP["record"] = rec = []
    try:
        cls.projection2d(z)
    finally:
        _FP["record"] = None
    rp = (replay_fp, lambda m: {"pairing": name, "z": m["z"]})
    regions = {"z_ge_2^52": z >= 2**52}
    if not rec:
        ctx.prove(f"C14.{name}.ieee_sqrt_projection", True, info={"W": W, "float_roots": 0})
        return
    t, m = rec[0]
    a = SymInt(t)
    r = ctx.real("sqrt_exact", 0)
    ctx.assume(EQ(r * r, a))
    s_ = ctx.real("sqrt_fl")
    u = Fraction(1, 2**53)
    ctx.assume(AND(s_ >= r * (1 - u), s_ <= r * (1 + u)))
    ctx.assume(IMPLIES(SymBool(m * m == t), SymBool(V.to_term(s_) == z3.ToReal(m))))
    ctx.prove(f"C14.{name}.ieee_sqrt_projection", AND(a < 2**53, EQ(s_.__floor__(), SymInt(m))), info={"W": W, "float_roots": len(rec)},
              replay=rp, regions=regions)


def h_twin_pair(ctx, B):
    """sensitivity twin: a Szudzik pairing with the branches swapped must be caught"""
    x = ctx.int("x", 0, B)
    y = ctx.int("y", 0, B)
    z = ite(x > y, x * x + x + y, x + y * y)  # wrong at x == y
    back = P.Szudzik.projection2d(z)
    ctx.prove("C14.twin.szudzik_wrong_tie", eq_tuple(back, (x, y)))


# --------------------------------------------------------------------------------------
# translator validation: the shimmed module on concrete ints equals python semantics


def concrete_validation():
    out = []
    import itertools

    for name, cls in PAIRINGS.items():
        ok = all(cls.pairing2d(*cls.projection2d(z)) == z for z in range(300))
        out.append((f"C14.concrete.{name}", ok, "pairing2d(projection2d(z)) == z for z < 300 on the shimmed module with python ints"))
    ok = sorted(G.lazy_indices_product([3, 3, 3])) == sorted(itertools.product(range(3), repeat=3))
    out.append(("C14.concrete.lazy_equal_sizes", ok, "lazy_indices_product([3,3,3]) equals itertools.product"))
    return out


def harnesses(tier):
    q = tier == "quick"
    hs = [Harness("concrete", concrete_validation, concrete=True)]
    for name in ("RosenbergStrong", "Szudzik"):
        hs.append(Harness(f"pair2d.{name}", h_pair2d, {"name": name, "B": None}))
        hs.append(Harness(f"proj2d.{name}", h_proj2d, {"name": name, "B2": None}))
    hs.append(Harness("pair2d.Cantor", h_pair2d, {"name": "Cantor", "B": 16 if q else 32, "fork_roots": True}, max_paths=2000))
    hs.append(Harness("proj2d.Cantor", h_proj2d, {"name": "Cantor", "B2": 256 if q else 2**14, "fork_roots": True}, max_paths=2000))
    hs.append(Harness("pair2d.PepisKalmar", h_pair2d, {"name": "PepisKalmar", "B": 2**8 if q else 2**20, "ymax": 6 if q else 16}, max_paths=400))
    hs.append(Harness("proj2d.PepisKalmar", h_proj2d, {"name": "PepisKalmar", "B2": 2**8 if q else 2**14}, max_paths=400))
    hs.append(Harness("fold", h_fold))
    hs.append(Harness("rs3.pair", h_rs_pair_nd, {"d": 3, "B": 6 if q else 20}, max_paths=20000))
    hs.append(Harness("rs3.proj", h_rs_proj_nd, {"d": 3, "BZ": 7**3 if q else 21**3}, max_paths=20000))
    # window around the first index at which floor(z**(1/3) + 1e-8) stops being the integer cube root (exact arithmetic)
    hs.append(Harness("rs3.proj.window", h_rs_proj_nd, {"d": 3, "lo": 5774**3 - 2, "BZ": 5774**3}, max_paths=2000))
    hs.append(Harness("rs3.proj.window_below", h_rs_proj_nd, {"d": 3, "lo": 5773**3 - 2, "BZ": 5773**3 - 1}, max_paths=2000))
    hs.append(Harness("zd2.pair", h_zd_pair, {"d": 2, "B": None}, max_paths=400))
    hs.append(Harness("zd2.proj", h_zd_proj, {"d": 2, "BN": None}, max_paths=400))
    hs.append(Harness("zd3.pair", h_zd_pair, {"d": 3, "B": 3 if q else 8}, max_paths=20000))
    hs.append(Harness("zd3.proj", h_zd_proj, {"d": 3, "BN": 7**3 - 2 if q else 17**3 - 2}, max_paths=20000))
    LR = [(1, 1), (2, 2), (1, 3), (3, 1), (2, 4)] if q else [(l, r) for l in range(1, 7) for r in range(1, 7)]
    for L, R in LR:
        hs.append(Harness(f"z1d.natural.{L}.{R}", h_z1d_natural, {"L": L, "R": R}))
        hs.append(Harness(f"z1d.state.{L}.{R}", h_z1d_state, {"L": L, "R": R}))
        hs.append(Harness(f"z1d.state.{L}.{R}.with_zero", h_z1d_state, {"L": L, "R": R, "omit_zero": False}))
    for L, R in ([(1, 3), (3, 1), (2, 2)] if q else [(1, 3), (3, 1), (2, 2), (2, 4), (4, 2), (3, 3), (1, 5)]):
        hs.append(Harness(f"z1d.order.{L}.{R}", h_z1d_order, {"L": L, "R": R, "nc": 2 if q else 3}, max_paths=4000))
    import itertools

    size_sets = [(2,), (3,), (2, 2), (3, 3), (2, 3), (3, 2), (2, 2, 2), (2, 3, 2)] if q else \
        [s for d in (1, 2, 3) for s in itertools.product(range(1, 5), repeat=d)]
    for s in size_sets:
        hs.append(Harness(f"lazy.{'x'.join(map(str, s))}", h_lazy, {"sizes": s}))
    for L, R in ([(1, 1), (2, 3), (3, 1)] if q else [(l, r) for l in range(1, 5) for r in range(1, 5)]):
        hs.append(Harness(f"states1d.{L}.{R}", h_states, {"dim": 1, "L": L, "R": R}))
    hs.append(Harness("states2d.1", h_states, {"dim": 2, "n": 1}, max_paths=3000))
    hs.append(Harness("states2d.sound.1", h_states_sound, {"dim": 2, "n": 1}, max_paths=3000))
    for L, R in ([(1, 2), (2, 1)] if q else [(1, 2), (2, 1), (1, 3), (3, 1), (2, 3)]):  # more states on one side of the origin than on the other
        hs.append(Harness(f"states2d.{L}.{R}", h_states, {"dim": 2, "L": L, "R": R}, max_paths=6000))
        hs.append(Harness(f"states2d.sound.{L}.{R}", h_states_sound, {"dim": 2, "L": L, "R": R}, max_paths=6000))
    hs.append(Harness("states3d.1", h_states, {"dim": 3, "n": 1}, max_paths=6000))
    if not q:
        hs.append(Harness("states2d.2", h_states, {"dim": 2, "n": 2}, max_paths=6000))
        hs.append(Harness("states2d.sound.2", h_states_sound, {"dim": 2, "n": 2}, max_paths=6000))
        hs.append(Harness("states3d.sound.1", h_states_sound, {"dim": 3, "n": 1}, max_paths=20000))
        hs.append(Harness("states3d.1.2", h_states, {"dim": 3, "L": 1, "R": 2}, max_paths=20000))
    hs.append(Harness("sampler.2d.2.1", h_sampler_extensions, {"dim": 2, "L": 2, "R": 1}, max_paths=4000, batch=20))
    if not q:
        hs.append(Harness("sampler.2d.1.2", h_sampler_extensions, {"dim": 2, "L": 1, "R": 2}, max_paths=4000, batch=20))
        hs.append(Harness("sampler.2d.3.1", h_sampler_extensions, {"dim": 2, "L": 3, "R": 1}, max_paths=8000, batch=20))
        hs.append(Harness("sampler.2d.2.1.three_draws", h_sampler_extensions, {"dim": 2, "L": 2, "R": 1, "draws": 3}, max_paths=80000, batch=20))
        hs.append(Harness("sampler.1d.2.3", h_sampler_extensions, {"dim": 1, "L": 2, "R": 3, "draws": 3}, max_paths=4000, batch=20))
    hs.append(Harness("ieee.sqrt.52", h_sqrt_lemma, {"W": 52}))
    for name in ("RosenbergStrong", "Szudzik"):
        hs.append(Harness(f"ieee.proj.{name}.52", h_proj2d_fp, {"name": name, "W": 52}))
        hs.append(Harness(f"ieee.proj.{name}.53", h_proj2d_fp, {"name": name, "W": 53}))
    hs.append(Harness("ieee.sqrt.twin", h_sqrt_lemma, {"W": 56, "expect_fail": True}, twin="must_fail"))
    hs.append(Harness("twin.szudzik", h_twin_pair, {"B": 16}, twin="must_fail"))
    return hs


EXPECT = ["C14.states.every_call_returns_a_state_not_returned_before", "C14.Cantor.proj_pair", "C14.Cantor.pair_proj", "C14.Szudzik.proj_pair", "C14.Szudzik.pair_proj",
          "C14.RosenbergStrong.proj_pair", "C14.RosenbergStrong.pair_proj", "C14.PepisKalmar.proj_pair", "C14.PepisKalmar.pair_proj",
          "C14.fold.proj_map", "C14.fold.map_proj", "C14.lazy_product.injective", "C14.states.returns_state_of_index",
          "C14.PairingToZ1d.natural.pair_project", "C14.ieee.floor_sqrt_is_isqrt",
          "C14.sampler.draw_returns_the_state_at_its_position_in_the_enumeration", "C14.sampler.no_state_logged_twice",
          "C14.PairingToZ1d.pair_injective"]


def main(tier):
    bounds = {"histories_and_variants": 'enumeration driven by the real inversion sampler: uniform law, 2 (quick) / 3 symbolic uniforms, 2-d grids (2,1) [quick], (1,2), (3,1), 1-d (2,3); PairingToZ1d also with its zero kept',
              "quick": "Szudzik and Rosenberg-Strong 2-d: all naturals (no bound); Cantor x,y <= 16, z <= 256 (one path per integer root); Pepis-Kalmar x <= 2^8, "
                       "y <= 6, z <= 2^8; Rosenberg-Strong 3-d coordinates <= 6, z < 7^3 and the windows around 5773^3 and 5774^3; PairingToZd 2-d unbounded, "
                       "3-d coordinates <= 3; PairingToZ1d intervals up to [-3,3], call orders of length 2; lazy product sizes <= 3, d <= 3; "
                       "StatesManager on 1-d grids up to 3+3, 2-d 3x3 and the asymmetric [-1,2]^2, [-2,1]^2, 3-d 3x3x3",
              "thorough": "Cantor x,y <= 32, z <= 2^14; Pepis-Kalmar x <= 2^20, y <= 16; Rosenberg-Strong 3-d coordinates <= 20, z < 21^3; PairingToZd 3-d coordinates <= 8; "
                          "PairingToZ1d L,R <= 4, call orders of length 3; lazy product sizes <= 4, d <= 3; StatesManager 1-d up to 4+4, 2-d 5x5 and asymmetric up to "
                          "[-2,3]^2, 3-d 3x3x3 and [-1,2]^3 (completeness and soundness); IEEE sqrt lemma z < 2^52",
              "outside": "HyperbolicPairing (sympy.factorint, divisor sums, Halley iteration: no encoding); libm pow accuracy for z**(1/3); "
                         "indices beyond the bounds"}
    return run_check(PID, tier, harnesses(tier), expect=EXPECT, bounds=bounds,
                     assumptions=COMMON_ASSUMPTIONS + [
                         "math.sqrt / z**(1/n) are the exact non-negative real roots; IEEE rounding of floor(sqrt(z)) is handled by the "
                         "error-model lemma C14.ieee.* (correctly rounded sqrt, relative error <= 2^-53, exact on perfect squares)",
                         "range() inside lazy_indices_product is havoc'd: one arbitrary iteration n in [0, nb_of_elements)",
                     ])


if __name__ == "__main__":
    sys.exit(main(sys.argv[1] if len(sys.argv) > 1 else "quick"))
