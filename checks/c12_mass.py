"""C12 - rectangle mass of a Lévy-copula model is a measure consistent with its margins.

Real LevyCopulaModel._mass_nd/_mass_2d/_mass_3d/margin/margin_tail_integral/marginal_tail_integral run on an abstract Lévy copula
(UF per infinite-argument pattern) and abstract additive marginal measures, with symbolic rectangle end points in every sign
pattern (negative side, positive side, straddling zero, finite or infinite).
"""
import itertools
import math
import sys

import numpy as np

from .common import *  # noqa
from .common import z3, V, shims, Harness, run_check, SymReal, SymBool, AND, OR, NOT, EQ, IMPLIES, COMMON_ASSUMPTIONS, Unsupported
from symx import abstract as A

import rpylib.model.levycopulamodel as LCM
import rpylib.model.levymodel.levymodel as LM
import rpylib.numerical.tools as NT
import rpylib.distribution.levycopula as LC

PID = "C12"
INF = math.inf


class _FloatShim:
    def __call__(self, x=0.0):
        return shims.sym_float(x)

    def __instancecheck__(self, inst):
        return isinstance(inst, float)


shims.install_np(LCM, LM, NT, LC)
shims.install(LM, float=_FloatShim())
shims.install(NT, float=_FloatShim())
shims.register_singledispatch(NT.sign)

KINDS = ("neg", "pos", "str", "neginf", "posinf", "strinf_l", "strinf_r", "all")


def interval(ctx, name, kind):
    """(a, b) of the requested kind; finite end points symbolic"""
    if kind == "neg":
        a = ctx.real(name + "a")
        b = ctx.real(name + "b")
        ctx.assume(AND(a < b, b < 0))
        return a, b
    if kind == "pos":
        a = ctx.real(name + "a")
        b = ctx.real(name + "b")
        ctx.assume(AND(0 < a, a < b))
        return a, b
    if kind == "str":
        a = ctx.real(name + "a")
        b = ctx.real(name + "b")
        ctx.assume(AND(a < 0, 0 < b))
        return a, b
    if kind == "neg0":  # negative side, upper end exactly 0
        a = ctx.real(name + "a")
        ctx.assume(a < 0)
        return a, 0.0
    if kind == "pos0":  # positive side, lower end exactly 0
        b = ctx.real(name + "b")
        ctx.assume(b > 0)
        return 0.0, b
    if kind == "neginf":
        b = ctx.real(name + "b")
        ctx.assume(b < 0)
        return -INF, b
    if kind == "posinf":
        a = ctx.real(name + "a")
        ctx.assume(a > 0)
        return a, INF
    if kind == "strinf_l":
        b = ctx.real(name + "b")
        ctx.assume(b > 0)
        return -INF, b
    if kind == "strinf_r":
        a = ctx.real(name + "a")
        ctx.assume(a < 0)
        return a, INF
    if kind == "all":
        return -INF, INF
    raise ValueError(kind)


def make_model(ctx, d, finite_activity=False):
    models = [A.abs_levy_model(ctx, f"nu{i}", finite_activity=finite_activity) for i in range(d)]
    cop = A.AbsCopula(ctx, "F", d)
    return LCM.LevyCopulaModel(models=models, copula=cop), models, cop


# ---- concrete replay on the library's own models (the identities do not depend on the measure / copula)


def concrete_model(d, copula="clayton"):
    from rpylib.model.utils import create_exponential_of_levy_model  # noqa: F401
    from rpylib.model.levymodel.mixed.hem import HEMParameters, HEMModel  # noqa: F401

    raise NotImplementedError


def _concrete_levycopula(d):
    import rpylib.model.levymodel.mixed.hem as HEM
    import rpylib.model.levymodel.purejump.cgmy as CGMY
    from rpylib.distribution.levycopula import ClaytonCopula
    from rpylib.model.model import ModelType

    ms = []
    for i in range(d):
        if i % 2 == 0:
            prm = HEM.HEMParameters(sigma=0.1, p=0.4 + 0.1 * i, eta1=20.0 + i, eta2=25.0, intensity=3.0)
            ms.append(HEM.HEMModel(prm))
        else:
            prm = CGMY.CGMYParameters(c=0.5, g=5.0, m=6.0, y=0.5)
            ms.append(CGMY.CGMYModel(prm))
    return LCM.LevyCopulaModel(models=ms, copula=ClaytonCopula(theta=0.7 + 0.1 * d, eta=0.3))


def replay_fast_vs_general(sc):
    d = sc["d"]
    mdl = _concrete_levycopula(d)
    a = [float(x) for x in sc["a"]]
    b = [float(x) for x in sc["b"]]
    if any(x == 0.0 for x in a + b):
        mdl = _finite_levycopula(d)  # an end point at 0 needs a finite half-line mass
    fast = (mdl._mass_2d if d == 2 else mdl._mass_3d)(a, b)
    gen = mdl._mass_nd(list(a), list(b))
    ok = abs(fast - gen) > 1e-9 * max(1.0, abs(gen))
    return ok, f"HEM/CGMY margins + Clayton: _mass_{d}d({a},{b}) = {fast!r} but _mass_nd = {gen!r}"


def _finite_levycopula(d):
    import rpylib.model.levymodel.mixed.hem as HEM
    from rpylib.distribution.levycopula import ClaytonCopula

    ms = [HEM.HEMModel(HEM.HEMParameters(sigma=0.1, p=0.4 + 0.1 * i, eta1=20.0 + i, eta2=25.0 - i, intensity=3.0 - 0.4 * i)) for i in range(d)]
    return LCM.LevyCopulaModel(models=ms, copula=ClaytonCopula(theta=0.7 + 0.1 * d, eta=0.3))


def replay_split(sc):
    """HEM margins (finite activity) + Clayton: mass(a,b) against mass(a, b with b_k = c) + mass(a with a_k = c, b)"""
    d, k = sc["d"], sc["axis"]
    mdl = _finite_levycopula(d)
    a, b = [float(x) for x in sc["a"]], [float(x) for x in sc["b"]]
    c = sc["c"]
    if c is None:
        lo, hi = a[k], b[k]
        if sc["side"] == "neg":
            hi = min(hi, 0.0)
            lo = lo if not math.isinf(lo) else hi - 1.0
        else:
            lo = max(lo, 0.0)
            hi = hi if not math.isinf(hi) else lo + 1.0
        c = 0.5 * (lo + hi)
    b1, a2 = list(b), list(a)
    b1[k] = c
    a2[k] = c
    whole = float(mdl.mass(tuple(a), tuple(b)))
    left, right = float(mdl.mass(tuple(a), tuple(b1))), float(mdl.mass(tuple(a2), tuple(b)))
    bad = abs(left + right - whole) > 1e-9 * max(1.0, abs(whole))
    return bad, f"HEM margins + Clayton, d={d}: mass({a},{b}) = {whole!r} but split along axis {k} at {c}: {left!r} + {right!r} = {left + right!r}"


def _tail_ref(mdl, i, x):
    """signed tail integral of margin i from the margin's own Lévy measure (reference for the replays)"""
    if math.isinf(x):
        return 0.0
    nu = mdl.models[i].levy_triplet.nu
    return -float(nu.integrate(-INF, x)) if x < 0 else float(nu.integrate(x, INF))


def _imargin_ref(mdl, idx, us):
    """I-margin of the model's copula at the tail integrals `us`: signed sum over the +-inf patterns of the other coordinates"""
    d = len(mdl.models)
    others = [k for k in range(d) if k not in idx]
    if len(idx) == 1:
        return us[0]
    tot = 0.0
    for p in itertools.product([-INF, INF], repeat=len(others)):
        args = [0.0] * d
        for k, u in zip(idx, us):
            args[k] = u
        sgn = 1
        for k, v in zip(others, p):
            args[k] = v
            if v < 0:
                sgn = -sgn
        tot += sgn * float(mdl.copula(np.array(args)))
    return tot


def replay_submargin(sc):
    """distinct HEM margins + Clayton: mass(a, b, indices=I) on same-side intervals against (-1)^|I| x the I-margin volume computed
    here from the copula and the margins' own tail integrals"""
    d, idx = sc["d"], list(sc["idx"])
    mdl = _finite_levycopula(d)
    a, b = [float(x) for x in sc["a"]], [float(x) for x in sc["b"]]
    n = len(idx)
    vol = 0.0
    for p in itertools.product([0, 1], repeat=n):
        xs = [a[j] if pj == 0 else b[j] for j, pj in enumerate(p)]
        if any(math.isinf(x) for x in xs):
            continue
        us = [_tail_ref(mdl, idx[j], xs[j]) for j in range(n)]
        vol += (-1 if (n - sum(p)) % 2 else 1) * _imargin_ref(mdl, idx, us)
    want = (-1 if n % 2 else 1) * vol
    out = []
    for name, got in (("_mass_nd", float(mdl._mass_nd(list(a), list(b), list(idx)))), ("mass", float(mdl.mass(tuple(a), tuple(b), list(idx))))):
        if abs(got - want) > 1e-9 * max(1.0, abs(want)):
            out.append(f"{name}(a={a}, b={b}, indices={idx}) = {got!r} but the I-margin volume of the copula at the margins' tail integrals is {want!r}")
    return bool(out), f"HEM margins (distinct) + Clayton, d={d}: " + "; ".join(out)


def replay_margin_sum(sc):
    d, axis = sc["d"], sc["axis"]
    mdl = _finite_levycopula(d)
    lo, hi = float(sc["lo"]), float(sc["hi"])
    a, b = [-INF] * d, [INF] * d
    a[axis], b[axis] = lo, hi
    got = float(mdl.mass(tuple(a), tuple(b)))
    want = float(mdl.models[axis].levy_triplet.nu.integrate(lo, hi))
    return abs(got - want) > 1e-9 * max(1.0, abs(want)), f"HEM margins + Clayton, d={d}: mass with coordinate {axis} in [{lo},{hi}] and the others on the whole line = {got!r}, nu_{axis}([{lo},{hi}]) = {want!r}"


def replay_tail(sc):
    d = sc["d"]
    mdl = _finite_levycopula(d)
    out = []
    for i in range(d):
        for x in (-0.4, -0.05, 0.07, 0.6):
            got, want = float(mdl.marginal_tail_integral(i, x)), _tail_ref(mdl, i, x)
            mdl.marginal_tail_integral(i, -x)
            again = float(mdl.marginal_tail_integral(i, x))
            if abs(got - want) > 1e-12 * max(1.0, abs(want)) or again != got:
                out.append(f"marginal_tail_integral({i}, {x}) = {got!r} (repeated: {again!r}) vs signed tail mass {want!r}")
    return bool(out), f"HEM margins + Clayton, d={d}: " + "; ".join(out[:3])


def replay_orthant(sc):
    """mass of a rectangle inside one orthant: non-negative and equal to the (signed) volume of the copula over the image rectangle"""
    d = sc["d"]
    mdl = _finite_levycopula(d)
    a, b = [float(x) for x in sc["a"]], [float(x) for x in sc["b"]]
    got = float(mdl.mass(tuple(a), tuple(b)))
    vol = 0.0
    for p in itertools.product([0, 1], repeat=d):
        xs = [a[j] if pj == 0 else b[j] for j, pj in enumerate(p)]
        us = [_tail_ref(mdl, j, xs[j]) for j in range(d)]
        if any(u == 0.0 for u in us):
            continue
        vol += (-1 if (d - sum(p)) % 2 else 1) * float(mdl.copula(np.array(us)))
    want = (-1 if d % 2 else 1) * vol
    bad = got < -1e-12 or abs(got - want) > 1e-9 * max(1.0, abs(want))
    return bad, f"HEM margins + Clayton, d={d}: mass({a},{b}) = {got!r}; copula volume over the image rectangle {want!r}"


def _vals(m, xs):
    out = []
    for x in xs:
        out.append(x if isinstance(x, float) else m.f(x))
    return out


def _rescale(a, b):
    """bring model end points into a numerically comfortable range, keeping order and signs"""
    def sq(x):
        if math.isinf(x) or x == 0:
            return x
        s = -1.0 if x < 0 else 1.0
        return s * (0.05 + 0.5 * (1 - 1 / (1 + abs(x))))
    return [sq(x) for x in a], [sq(x) for x in b]


def h_fast_vs_general(ctx, d, kinds):
    # an end point exactly at 0 needs the total mass of a half-line: finite-activity margins there
    mdl, models, cop = make_model(ctx, d, finite_activity=any(k in ("neg0", "pos0") for k in kinds))
    ivs = [interval(ctx, f"x{i}", k) for i, k in enumerate(kinds)]
    a = tuple(iv[0] for iv in ivs)
    b = tuple(iv[1] for iv in ivs)
    fast = (mdl._mass_2d if d == 2 else mdl._mass_3d)(a, b)
    gen = mdl._mass_nd(list(a), list(b))

    def scen(m):
        aa, bb = _rescale(_vals(m, a), _vals(m, b))
        return {"d": d, "a": aa, "b": bb}

    ctx.prove(f"C12.fast_eq_general.{d}d", EQ(fast, gen), info={"kinds": kinds}, replay=(replay_fast_vs_general, scen))


def replay_integer_endpoints(sc):
    """real HEM margins + Clayton: a rectangle given with python-int end points has the mass of the same rectangle given with floats"""
    out = []
    for d, (a, b) in ((2, ([1, 2], [2, 3])), (2, ([-2, 1], [-1, 2])), (3, ([1, -3, 2], [2, -1, 4]))):
        mdl = _finite_levycopula(d)
        want = float(_finite_levycopula(d).mass(tuple(float(x) for x in a), tuple(float(x) for x in b)))  # another object: mass() is memoised and 1 == 1.0
        try:
            got = float(mdl.mass(tuple(a), tuple(b)))
        except Exception as e:
            out.append(f"mass({a}, {b}) with python ints raises {type(e).__name__}: {e} (with floats: {want!r})")
            continue
        if abs(got - want) > 1e-12 * max(1.0, abs(want)):
            out.append(f"mass({a}, {b}) = {got!r} with python ints, {want!r} with floats")
    return bool(out), "; ".join(out[:2]) if out else "integer end points give the mass of the float rectangle"


def h_integer_endpoints(ctx, d):
    """rectangles whose end points are given as python ints (the abstract margins are evaluated at the same points either way)"""
    mdl, models, cop = make_model(ctx, d)
    a, b = ([1, -2], [2, -1]) if d == 2 else ([1, -2, 3], [2, -1, 5])
    rp = (replay_integer_endpoints, lambda m: {})
    try:
        got = mdl.mass(tuple(a), tuple(b))  # before the float version: mass() is memoised and the keys 1 and 1.0 coincide
    except TypeError as e:
        ctx.prove(f"C12.integer_end_points_are_numbers_too.{d}d", False, info={"raised": str(e)[:100]}, replay=rp)
        return
    want = mdl.mass(tuple(float(x) + 0.0 for x in a), tuple(float(x) for x in b))
    ctx.prove(f"C12.integer_end_points_are_numbers_too.{d}d", EQ(got, want), info={"a": a, "b": b}, replay=rp)


def _tail(models, i, x):
    """oracle: U_i(x) = sign(x) nu_i(I(x)) as a term"""
    nu = models[i].levy_triplet.nu
    if isinstance(x, float) and math.isinf(x):
        return 0.0
    return None


def h_tail_integral(ctx, d):
    mdl, models, cop = make_model(ctx, d)
    for i in range(d):
        nu = models[i].levy_triplet.nu
        x = ctx.real(f"x{i}")
        ctx.assume(x != 0)
        got = mdl.marginal_tail_integral(i, x)
        if x < 0:
            want = -SymReal(nu.neg_term(0, -INF, x))
        else:
            want = SymReal(nu.pos_term(0, x, INF))
        ctx.prove("C12.tail_integral_is_signed_tail_mass", EQ(got, want), replay=(replay_tail, lambda m: {"d": d}))
        # lru-cache history twin: the same query after other queries
        y = ctx.real(f"y{i}")
        ctx.assume(y != 0)
        mdl.marginal_tail_integral(i, y)
        again = mdl.marginal_tail_integral(i, x)
        ctx.prove("C12.tail_integral_cache_consistent", EQ(again, got), replay=(replay_tail, lambda m: {"d": d}))


def h_margin_sum(ctx, d, axis, kind):
    """mass([a,b] x R^(d-1)) = nu_axis([a,b])"""
    mdl, models, cop = make_model(ctx, d)
    iv = interval(ctx, "x", kind)
    a = [-INF] * d
    b = [INF] * d
    a[axis], b[axis] = iv
    got = mdl.mass(tuple(a), tuple(b))
    nu = models[axis].levy_triplet.nu
    if kind in ("neg", "neginf"):
        want = SymReal(nu.neg_term(0, iv[0], iv[1]))
    else:
        want = SymReal(nu.pos_term(0, iv[0], iv[1]))
    def scen(m):
        aa, bb = _rescale(_vals(m, [iv[0]]), _vals(m, [iv[1]]))
        return {"d": d, "axis": axis, "lo": aa[0], "hi": bb[0]}

    ctx.prove(f"C12.margin_sum.{d}d", EQ(got, want), info={"axis": axis, "kind": kind}, replay=(replay_margin_sum, scen))


def _U(models, i, x):
    """tail integral term of margin i at x (x != 0), harness-side oracle"""
    nu = models[i].levy_triplet.nu
    if isinstance(x, float) and math.isinf(x):
        return z3.RealVal(0)
    if bool(x < 0):
        return -nu.neg_term(0, -INF, x)
    return nu.pos_term(0, x, INF)


def h_submargin(ctx, d, idx, kinds):
    """mass(a, b, indices=I) for same-side intervals = (-1)^|I| * volume of the I-margin of F at the tail integrals"""
    mdl, models, cop = make_model(ctx, d)
    ivs = [interval(ctx, f"x{k}", kd) for k, kd in enumerate(kinds)]
    a = [iv[0] for iv in ivs]
    b = [iv[1] for iv in ivs]
    got = mdl._mass_nd(list(a), list(b), list(idx))
    got_fast = mdl.mass(tuple(a), tuple(b), list(idx))
    others = [k for k in range(d) if k not in idx]

    def FI(us):
        tot = z3.RealVal(0)
        for p in itertools.product([-INF, INF], repeat=len(others)):
            args = [None] * d
            for k, u in zip(idx, us):
                args[k] = u
            sgn = 1
            for k, v in zip(others, p):
                args[k] = v
                if v < 0:
                    sgn = -sgn
            tot = tot + sgn * cop.apply_terms(args)
        return tot

    n = len(idx)
    if n == 1:
        # the code short-cuts one-dimensional margins to the marginal tail integral: equal to the I-margin of F by the margin axiom
        for x in (a[0], b[0]):
            if not isinstance(x, float):
                cop.axiom_margin(idx[0], _U(models, idx[0], x))
    vol = z3.RealVal(0)
    for p in itertools.product([0, 1], repeat=n):
        pts = [_U(models, idx[j], a[j] if pj == 0 else b[j]) for j, pj in enumerate(p)]
        if any(z3.is_expr(t) and z3.is_rational_value(z3.simplify(t)) and z3.simplify(t).numerator_as_long() == 0 for t in pts):
            continue  # grounded: F vanishes when an argument is 0 (tail integral at +-inf)
        sgn = -1 if (n - sum(p)) % 2 else 1
        vol = vol + sgn * FI(pts)
    want = SymReal(z3.simplify((-1 if n % 2 else 1) * vol))
    def scen(m):
        aa, bb = _rescale(_vals(m, a), _vals(m, b))
        return {"d": d, "idx": list(idx), "a": aa, "b": bb}

    ctx.prove(f"C12.submargin_mass_is_I_margin_volume.{d}d", EQ(got, want), info={"indices": idx, "kinds": kinds}, replay=(replay_submargin, scen))
    ctx.prove(f"C12.submargin_fast_eq_general.{d}d", EQ(got_fast, got), info={"indices": idx, "kinds": kinds}, replay=(replay_submargin, scen))


def h_split(ctx, d, kinds, axis, side):
    """additivity: split [a,b] along `axis` at a symbolic point c strictly inside (on side 'neg'/'pos' of zero)"""
    mdl, models, cop = make_model(ctx, d, finite_activity=(side == "zero"))
    ivs = [interval(ctx, f"x{i}", k) for i, k in enumerate(kinds)]
    a = [iv[0] for iv in ivs]
    b = [iv[1] for iv in ivs]
    lo, hi = a[axis], b[axis]
    if side == "zero":
        c = 0.0  # [a, b] = [a, 0] + (0, b] on a straddling coordinate (finite-activity margins: the half-line masses are finite)
    else:
        c = ctx.real("c")
        if not isinstance(lo, float):
            ctx.assume(c > lo)
        if not isinstance(hi, float):
            ctx.assume(c < hi)
        ctx.assume(c < 0 if side == "neg" else c > 0)
    whole = mdl.mass(tuple(a), tuple(b))
    b1 = list(b)
    b1[axis] = c
    a2 = list(a)
    a2[axis] = c
    left = mdl.mass(tuple(a), tuple(b1))
    right = mdl.mass(tuple(a2), tuple(b))
    def scen(m):
        aa, bb = _rescale(_vals(m, a), _vals(m, b))
        return {"d": d, "a": aa, "b": bb, "axis": axis, "c": 0.0 if side == "zero" else None, "side": side}

    ctx.prove(f"C12.additive_split.{d}d", EQ(left + right, whole), info={"kinds": kinds, "axis": axis, "side": side}, replay=(replay_split, scen))


def h_nonneg(ctx, d, kinds):
    """mass >= 0 on rectangles inside one orthant, from the d-increasing axiom instantiated on the image rectangle"""
    mdl, models, cop = make_model(ctx, d, finite_activity=any(k in ("neg0", "pos0") for k in kinds))
    ivs = [interval(ctx, f"x{i}", k) for i, k in enumerate(kinds)]
    a = [iv[0] for iv in ivs]
    b = [iv[1] for iv in ivs]

    def U(i, x, k):
        # an end exactly at 0 (kinds neg0 / pos0, finite-activity margins): the tail integral of the side the interval lies on
        if isinstance(x, float) and x == 0.0:
            nu = models[i].levy_triplet.nu
            return -nu.neg_term(0, -INF, 0.0) if k == "neg0" else nu.pos_term(0, 0.0, INF)
        return _U(models, i, x)

    # tail integrals are decreasing on each side: the image of [a_i, b_i] is [U_i(b_i), U_i(a_i)]
    lo = [U(i, b[i], kinds[i]) for i in range(d)]
    hi = [U(i, a[i], kinds[i]) for i in range(d)]
    got = mdl.mass(tuple(a), tuple(b))
    ctx.instantiate()
    cop.axiom_increasing(lo, hi)
    def scen(m):
        aa, bb = _rescale(_vals(m, a), _vals(m, b))
        return {"d": d, "a": aa, "b": bb}

    ctx.prove(f"C12.nonneg_in_orthant.{d}d", got >= 0, info={"kinds": kinds}, replay=(replay_orthant, scen))
    ctx.prove(f"C12.mass_is_F_volume_of_image.{d}d", EQ(got, SymReal(z3.simplify(cop.volume_term(lo, hi)))), info={"kinds": kinds}, replay=(replay_orthant, scen))


class _Toms748Stub:
    """scipy.optimize.toms748 contract: some root of f in [a, b]; ValueError when f(a) and f(b) have the same sign"""

    @staticmethod
    def toms748(f, a, b, **kw):
        ctx = V.get_context()
        if ctx is None or getattr(ctx, "concrete", False):
            from scipy import optimize as _o

            return _o.toms748(f, a, b, **kw)
        fa, fb = f(a), f(b)
        if bool(fa * fb > 0):
            raise ValueError("f(a) and f(b) must have different signs")
        x = ctx.real("root")
        ctx.assume(AND(x >= a, x <= b))
        ctx.assume(EQ(f(x), 0))
        return x

    def __getattr__(self, n):
        from scipy import optimize as _o

        return getattr(_o, n)


shims.install(LCM, optimize=_Toms748Stub())


def replay_inverse_tail(sc):
    """real model (distinct HEM margins): inverse_tail_integral(i, y) queried for margin 0 then margin 1 at the same level, then again"""
    mdl = _finite_levycopula(2)
    bad = []
    for y in (0.4, -0.3, 1.1):
        for i in (0, 1, 0, 1):
            x = float(mdl.inverse_tail_integral(i, y))
            back = _tail_ref(mdl, i, x)
            if abs(back - y) > 1e-8 * max(1.0, abs(y)):
                bad.append(f"inverse_tail_integral({i}, {y}) = {x!r} but U_{i}({x!r}) = {back!r}")
    return bool(bad), "HEM margins (distinct) + Clayton: " + "; ".join(bad[:3])


def h_inverse_tail(ctx, d, order):
    """the inverse of a marginal tail integral, asked for several margins at the same level in the given order (any memoisation must
    keep the margins apart): away from the clamped ends the result x satisfies U_i(x) = y"""
    mdl, models, cop = make_model(ctx, d)
    y = ctx.real("y")
    ctx.assume(y != 0)
    rp = (replay_inverse_tail, lambda m: {})
    for k, i in enumerate(order):
        try:
            x = mdl.inverse_tail_integral(i, y)
        except ValueError:
            continue  # level outside the range of the tail integral on the search interval
        clamp = (1e-20, -1e-20)
        if not V.is_sym(x) and x in clamp:
            # the search interval ends at +-1e-20: that end is only the answer when the level is beyond the tail integral there
            edge = mdl.marginal_tail_integral(i, x)
            ctx.prove("C12.inverse_tail_integral_is_clamped_only_beyond_the_range", (y >= edge) if x > 0 else (y <= edge), info={"margin": i, "clamp": x}, replay=rp)
            continue
        back = mdl.marginal_tail_integral(i, x)
        ctx.prove("C12.inverse_tail_integral_inverts_the_tail_integral", AND(EQ(back, y), (x > 0) if bool(y > 0) else (x < 0)), info={"margin": i, "call": k, "order": list(order)}, replay=rp)


def h_twin(ctx):
    """sensitivity twin: dropping one corner term of the 2-d formula must be caught"""
    mdl, models, cop = make_model(ctx, 2)
    (a1, b1), (a2, b2) = interval(ctx, "x0", "pos"), interval(ctx, "x1", "neg")
    u = lambda p: mdl.margin_tail_integral([0, 1], iter(p))
    wrong = u((a1, a2)) + u((b1, b2)) - u((a1, b2))
    ctx.prove("C12.twin.dropped_corner", EQ(wrong, mdl._mass_nd([a1, a2], [b1, b2])))


def concrete_validation():
    out = []
    rng = np.random.default_rng(0)
    for d in (2, 3):
        mdl = _concrete_levycopula(d)
        for _ in range(4):
            a = list(-rng.uniform(0.1, 0.5, d))
            b = list(rng.uniform(0.1, 0.5, d))
            k = rng.integers(0, d)
            a[k], b[k] = 0.05, 0.3
            fast = (mdl._mass_2d if d == 2 else mdl._mass_3d)(a, b)
            gen = mdl._mass_nd(list(a), list(b))
            out.append((f"C12.concrete.fast_eq_general.{d}d", abs(fast - gen) < 1e-9, f"shimmed modules on floats: {fast} vs {gen}"))
    return out


def harnesses(tier):
    q = tier == "quick"
    hs = [Harness("concrete", concrete_validation, concrete=True)]
    fin = ("neg", "pos", "str")
    allk = ("neg", "pos", "str", "neginf", "posinf", "strinf_l", "strinf_r") if not q else ("neg", "pos", "str", "neginf", "posinf")
    def has_origin(kinds):
        return all(k.startswith("str") or k == "all" for k in kinds)

    for kinds in itertools.product(allk, repeat=2):
        if has_origin(kinds):
            continue  # the property is about rectangles that do not contain the origin
        hs.append(Harness(f"fast2d.{'.'.join(kinds)}", h_fast_vs_general, {"d": 2, "kinds": kinds}, max_paths=500))
    if q:  # straddling intervals with exactly one infinite end (all of them are in the thorough tier's product above)
        for kinds in [("strinf_l", "pos"), ("neg", "strinf_r"), ("strinf_r", "neginf"), ("posinf", "strinf_l")]:
            hs.append(Harness(f"fast2d.{'.'.join(kinds)}", h_fast_vs_general, {"d": 2, "kinds": kinds}, max_paths=500))
        hs.append(Harness("fast3d.strinf_l.pos.neg", h_fast_vs_general, {"d": 3, "kinds": ("strinf_l", "pos", "neg")}, max_paths=2000))
    for kinds in [k for k in itertools.product(("neg", "pos", "str", "neg0", "pos0"), repeat=2) if any(x in ("neg0", "pos0") for x in k)]:
        if kinds in (("neg0", "pos0"), ("pos0", "neg0"), ("neg0", "neg0"), ("pos0", "pos0"), ("str", "neg0"), ("str", "pos0"), ("neg0", "str"), ("pos0", "str")):
            continue  # the closed rectangle touches or contains the origin
        hs.append(Harness(f"fast2d.{'.'.join(kinds)}", h_fast_vs_general, {"d": 2, "kinds": kinds}, max_paths=500))
    for kinds in [("pos", "pos0", "neg"), ("neg0", "pos", "str"), ("str", "neg", "pos0"), ("pos", "neg", "neg0")]:
        hs.append(Harness(f"fast3d.{'.'.join(kinds)}", h_fast_vs_general, {"d": 3, "kinds": kinds}, max_paths=2000))
    k3 = fin if q else ("neg", "pos", "str", "neginf", "posinf")
    for kinds in itertools.product(k3, repeat=3):
        if has_origin(kinds):
            continue
        hs.append(Harness(f"fast3d.{'.'.join(kinds)}", h_fast_vs_general, {"d": 3, "kinds": kinds}, max_paths=2000))
    for d in (2, 3):
        hs.append(Harness(f"tail.{d}", h_tail_integral, {"d": d}, max_paths=500))
        for axis in range(d):
            for kind in ("neg", "pos", "neginf", "posinf"):  # an end exactly at 0 would make the slab touch the origin: outside the property
                hs.append(Harness(f"marginsum.{d}.{axis}.{kind}", h_margin_sum, {"d": d, "axis": axis, "kind": kind}, max_paths=500))
    side_kinds = ("neg", "pos") if q else ("neg", "pos", "neginf", "posinf")
    for idx in ([0], [1], [2], [0, 1], [0, 2], [1, 2]):
        for kinds in itertools.product(side_kinds, repeat=len(idx)):
            hs.append(Harness(f"submargin.3.{idx}.{'.'.join(kinds)}", h_submargin, {"d": 3, "idx": idx, "kinds": kinds}, max_paths=500))
    for idx in ([0], [1]):
        for kinds in itertools.product(side_kinds, repeat=1):
            hs.append(Harness(f"submargin.2.{idx}.{'.'.join(kinds)}", h_submargin, {"d": 2, "idx": idx, "kinds": kinds}, max_paths=500))
    for kinds in itertools.product(fin, repeat=2):
        if has_origin(kinds):
            continue
        for axis in range(2):
            for side in ("neg", "pos"):
                if kinds[axis] == "str" or kinds[axis] == side:
                    hs.append(Harness(f"split2d.{'.'.join(kinds)}.{axis}.{side}", h_split, {"d": 2, "kinds": kinds, "axis": axis, "side": side}, max_paths=500))
    for kinds, axis in [(("str", "pos"), 0), (("neg", "str"), 1), (("str", "neg"), 0)]:
        hs.append(Harness(f"split2d.{'.'.join(kinds)}.{axis}.zero", h_split, {"d": 2, "kinds": kinds, "axis": axis, "side": "zero"}, max_paths=500))
    for kinds, axis in [(("str", "pos", "neg"), 0), (("pos", "neg", "str"), 2), (("str", "str", "pos"), 1)]:
        hs.append(Harness(f"split3d.{'.'.join(kinds)}.{axis}.zero", h_split, {"d": 3, "kinds": kinds, "axis": axis, "side": "zero"}, max_paths=2000))
    k3s = [("neg", "pos", "str"), ("str", "str", "pos"), ("pos", "pos", "pos"), ("str", "str", "str")] if q else list(itertools.product(fin, repeat=3))
    for kinds in k3s:
        if has_origin(kinds):
            continue
        for axis in range(3):
            for side in ("neg", "pos"):
                if kinds[axis] == "str" or kinds[axis] == side:
                    hs.append(Harness(f"split3d.{'.'.join(kinds)}.{axis}.{side}", h_split, {"d": 3, "kinds": kinds, "axis": axis, "side": side}, max_paths=2000))
    for kinds in itertools.product(("neg", "pos"), repeat=2):
        hs.append(Harness(f"nonneg2d.{'.'.join(kinds)}", h_nonneg, {"d": 2, "kinds": kinds}, max_paths=500))
    # a lower end exactly at 0 on the positive side: (0, b] leaves the axis out and its image is [U(b), U(0+)].  (An upper end at 0 on the
    # negative side, (a, 0], contains the part of the axis x_i = 0 where only the other components jump: not an F-volume, not claimed here.)
    for kinds in [("pos0", "pos"), ("pos", "pos0"), ("pos0", "neg"), ("neg", "pos0")]:
        hs.append(Harness(f"nonneg2d.{'.'.join(kinds)}", h_nonneg, {"d": 2, "kinds": kinds}, max_paths=500))
    for kinds in [("pos0", "pos", "neg"), ("neg", "pos0", "pos"), ("pos", "pos", "pos0")]:
        hs.append(Harness(f"nonneg3d.{'.'.join(kinds)}", h_nonneg, {"d": 3, "kinds": kinds}, max_paths=500))
    for kinds in itertools.product(("neg", "pos"), repeat=3):
        hs.append(Harness(f"nonneg3d.{'.'.join(kinds)}", h_nonneg, {"d": 3, "kinds": kinds}, max_paths=500))
    for d in (2, 3):
        hs.append(Harness(f"intends.{d}", h_integer_endpoints, {"d": d}, max_paths=200))
    for order in ((0, 1), (1, 0, 1), (0, 0, 1)):
        hs.append(Harness(f"inverse_tail.2.{''.join(map(str, order))}", h_inverse_tail, {"d": 2, "order": order}, max_paths=2000))
    hs.append(Harness("inverse_tail.3.0212", h_inverse_tail, {"d": 3, "order": (0, 2, 1, 2)}, max_paths=4000))
    hs.append(Harness("twin", h_twin, twin="must_fail"))
    return hs


EXPECT = ["C12.inverse_tail_integral_inverts_the_tail_integral", "C12.fast_eq_general.2d", "C12.fast_eq_general.3d", "C12.tail_integral_is_signed_tail_mass", "C12.margin_sum.2d", "C12.margin_sum.3d",
          "C12.submargin_mass_is_I_margin_volume.3d", "C12.additive_split.2d", "C12.additive_split.3d", "C12.nonneg_in_orthant.2d",
          "C12.nonneg_in_orthant.3d",
          "C12.integer_end_points_are_numbers_too.2d", "C12.integer_end_points_are_numbers_too.3d",
          "C12.inverse_tail_integral_is_clamped_only_beyond_the_range"]


def main(tier):
    bounds = {"histories_and_variants": 'positive-side intervals starting exactly at 0 in the non-negativity / F-volume obligations (an upper end at 0 on the negative side is not an F-volume: outside); integer end points (concrete rectangles); inverse tail integral: a clamped answer must be justified',
              "dimensions": "2 and 3", "rectangles": "every combination of per-coordinate interval kinds (negative side, positive side, straddling zero; "
              "finite or infinite end points as listed per harness), end points arbitrary reals",
              "outside": "'= integral of the joint density' (needs calculus on an arbitrary F); inverse_tail_integral (TOMS748 root search in C); "
                         "rectangles with an end point exactly at 0"}
    return run_check(PID, tier, harnesses(tier), expect=EXPECT, bounds=bounds,
                     assumptions=COMMON_ASSUMPTIONS + [
                         "abstract Lévy copula: F is an uninterpreted function per pattern of infinite arguments, grounded (0 when an argument is 0); the "
                         "d-increasing axiom is instantiated only on the image rectangle of the positivity obligations",
                         "abstract marginal measures: integrals are differences of cumulative UFs (additive by construction), positivity and "
                         "monotonicity instantiated on occurring points",
                     ])


if __name__ == "__main__":
    sys.exit(main(sys.argv[1] if len(sys.argv) > 1 else "quick"))
