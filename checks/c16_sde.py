"""C16 - the SDE scheme is the Euler scheme of its driver; rate models discount sanely.

Real MarkovChainSDE.simulate_one_path and CouplingSDE.simulate_one_path_with_coupling (objects built with __new__ around a scripted
symbolic driver path), the SDE coefficient functions, and the real df of the model classes on symbolic rates/tenors/times.
"""
import sys
from fractions import Fraction

import numpy as np

from .common import *  # noqa
from .common import z3, V, shims, Harness, run_check, SymReal, SymInt, SymBool, AND, OR, NOT, EQ, IMPLIES, COMMON_ASSUMPTIONS, Unsupported, PathAbort

import rpylib.process.markovchain.markovchainsde as MSDE
import rpylib.process.coupling.couplingsde as CSDE
import rpylib.model.levydrivensde.levydrivensde as LSDE
import rpylib.model.levydrivensde.levyforwardmodel as LFM
import rpylib.model.levydrivensde.levylibormodel as LLM
import rpylib.montecarlo.path as PATH
from rpylib.process.process import ProcessRepresentation

shims.install_np(MSDE, CSDE, LSDE, LFM, LLM, PATH)

PID = "C16"


class StubDriver:
    def __init__(self, d):
        self._d = d

    def dimension(self):
        return self._d

    def dimension_model(self):
        return self._d

    def finite_first_moment(self):
        return True

    def blumenthal_getoor_index(self):
        return 0.5


def driver_path(ctx, d, n, name="", pair=False):
    """scripted StochasticJumpPath of a d-dimensional driver on n+1 times: cumulative jump / diffusion values, symbolic"""
    times = np.empty(n + 1, dtype=_dt(ctx))
    times[0] = 0.0
    prev = 0.0
    for i in range(1, n + 1):
        times[i] = ctx.real(f"t{i}")
        ctx.assume(times[i] > prev)
        prev = times[i]
    lead = (2,) if pair else ()
    shape = lead + ((d, n + 1) if d > 1 else (n + 1,))
    J = np.empty(shape, dtype=_dt(ctx))
    W = np.empty(shape, dtype=_dt(ctx))
    for idx in np.ndindex(*shape):
        if idx[-1] == 0:
            J[idx] = 0.0
            W[idx] = 0.0
        else:
            J[idx] = ctx.real(f"{name}J{idx}")
            W[idx] = ctx.real(f"{name}W{idx}")
    return PATH.StochasticJumpPath(times, W, J)


class StubChain:
    def __init__(self, path, drift):
        self._p, self._d = path, drift

    def simulate_one_path(self):
        return self._p

    def simulate_one_path_with_coupling(self):
        return self._p

    def process_drift(self):
        return self._d


class CoefAffine(LSDE.SDEFunction):
    """a(t, x) = A0 + A1 * x componentwise-in-rows (test coefficient exercising the state dependence)"""

    def __init__(self, A0, A1):
        super().__init__(m=A0.shape[0], d=A0.shape[1])
        self.A0, self.A1 = A0, A1

    def __call__(self, t, x):
        return self.A0 + self.A1 * x


class CoefTime(LSDE.SDEFunction):
    """a(t, x) = A0 + A2 * t (test coefficient exercising the time dependence: the Euler step over [t_i, t_{i+1}] evaluates it at t_i)"""

    def __init__(self, A0, A2):
        super().__init__(m=A0.shape[0], d=A0.shape[1])
        self.A0, self.A2 = A0, A2

    def __call__(self, t, x):
        return self.A0 + self.A2 * t


def _dt(ctx):
    """array dtype for harness-built inputs: object under exploration (symbols), float in the concrete re-run (plain numbers: the library's
    float state arrays are updated in place and cannot absorb object arrays)"""
    return float if getattr(ctx, "concrete", False) else object


def make_model(ctx, m, d, coef):
    x0 = np.array([ctx.real(f"x0_{i}") for i in range(m)], dtype=_dt(ctx))
    if coef == "constant":
        c = ctx.real("c")
        a = LSDE.Constant(m=m, d=d, constant=c)
    elif coef == "diag":
        a = LSDE.DiagX(dimension=m)
    elif coef == "time":
        A0 = np.array([[ctx.real(f"A0_{i}{j}") for j in range(d)] for i in range(m)], dtype=_dt(ctx))
        A2 = np.array([[ctx.real(f"A2_{i}{j}") for j in range(d)] for i in range(m)], dtype=_dt(ctx))
        a = CoefTime(A0, A2)
    else:
        A0 = np.array([[ctx.real(f"A0_{i}{j}") for j in range(d)] for i in range(m)], dtype=_dt(ctx))
        A1 = np.array([[ctx.real(f"A1_{i}{j}") for j in range(d)] for i in range(m)], dtype=_dt(ctx))
        a = CoefAffine(A0, A1)
    model = LSDE.LevyDrivenSDEModel(driver=StubDriver(d), x0=x0, a=a)
    return model, x0, a


def dY(path, i, d, comp=None):
    """driver increments over step i (dW, dL) as column arrays"""
    J, W = path.jump_path, path.diffusion_path
    if comp is not None:
        J, W = J[comp], W[comp]
    if d == 1:
        return np.array([[W[i + 1] - W[i]]], dtype=object), np.array([[J[i + 1] - J[i]]], dtype=object)
    return (np.array([[W[k, i + 1] - W[k, i]] for k in range(d)], dtype=object), np.array([[J[k, i + 1] - J[k, i]] for k in range(d)], dtype=object))


def euler_oracle(a, x0, path, mc_drift, d, n, sde_drift=None, comp=None):
    m = len(x0)
    X = np.array([[x] for x in x0], dtype=object)
    out = [X.copy()]
    mu = np.atleast_2d(mc_drift) if d == 1 else np.asarray(mc_drift, dtype=object).reshape(d, 1)
    for i in range(n):
        t = path.jump_times[i]
        dt = path.jump_times[i + 1] - path.jump_times[i]
        dW, dL = dY(path, i, d, comp)
        A = a(t, X)
        if A.ndim == 1:
            A = A.reshape(m, d)
        sd = sde_drift(t, X) if sde_drift is not None else 0
        X = X + (sd + A @ mu) * dt + A @ dW + A @ dL
        out.append(X.copy())
    return out


def replay_euler(sc):
    """concrete: constant coefficient, 1-d driver: X_T = x0 + c * (mu T + W_T + L_T)"""
    m, d = 1, 1
    model = LSDE.LevyDrivenSDEModel(driver=StubDriver(1), x0=np.array([1.5]), a=LSDE.Constant(m=1, d=1, constant=0.7))
    times = np.array([0.0, 0.3, 0.8, 1.0])
    J = np.array([0.0, 0.2, 0.1, 0.4])
    W = np.array([0.0, -0.1, 0.05, 0.02])
    proc = MSDE.MarkovChainSDE.__new__(MSDE.MarkovChainSDE)
    proc.model = model
    proc.process_representation = ProcessRepresentation.IDENDITY
    proc.markov_chain = StubChain(PATH.StochasticJumpPath(times, W, J), 0.25)
    p = proc.simulate_one_path()
    got = 1.5 + p.value()[0, -1]
    want = 1.5 + 0.7 * (0.25 * 1.0 + W[-1] + J[-1])
    return abs(got - want) > 1e-12, f"constant coefficient: X_T = {got!r} vs x0 + a*Y_T = {want!r}"


def replay_diag(sc):
    m = sc["m"]
    model = LSDE.LevyDrivenSDEModel(driver=StubDriver(m), x0=np.arange(1.0, m + 1), a=LSDE.DiagX(dimension=m))
    times = np.array([0.0, 0.5, 1.0])
    J = np.array([[0.0, 0.1 * (k + 1), 0.3] for k in range(m)])
    W = np.zeros_like(J)
    proc = MSDE.MarkovChainSDE.__new__(MSDE.MarkovChainSDE)
    proc.model = model
    proc.process_representation = ProcessRepresentation.IDENDITY
    proc.markov_chain = StubChain(PATH.StochasticJumpPath(times, W, J), np.zeros((m, 1)))
    try:
        p = proc.simulate_one_path()
    except Exception as e:
        return True, f"MarkovChainSDE.simulate_one_path with a = DiagX({m}) raises {type(e).__name__}: {e}"
    want = [(k + 1.0) * (1 + 0.1 * (k + 1)) * (1 + 0.3 - 0.1 * (k + 1)) for k in range(m)]
    got = [k + 1.0 + p.value()[k, -1] for k in range(m)]
    return any(abs(g - w) > 1e-12 for g, w in zip(got, want)), f"DiagX({m}): X_T = {got} vs x0 * prod(1 + dY) = {want}"


def replay_two_paths(sc):
    """two paths in a row on the same process/model: the second recursion starts from x0 again and model.x0 is what the caller set"""
    model = LSDE.LevyDrivenSDEModel(driver=StubDriver(1), x0=np.array([1.5]), a=LSDE.Constant(m=1, d=1, constant=2.0))
    times = np.array([0.0, 0.5, 1.0])
    J = np.array([0.0, 0.1, 0.3])
    proc = MSDE.MarkovChainSDE.__new__(MSDE.MarkovChainSDE)
    proc.model = model
    proc.process_representation = ProcessRepresentation.IDENDITY
    proc.markov_chain = StubChain(PATH.StochasticJumpPath(times, np.zeros(3), J), 0.0)
    first = np.array(proc.simulate_one_path().value(), dtype=float).copy()
    x0_after = np.array(model.x0, dtype=float).copy()
    second = np.array(proc.simulate_one_path().value(), dtype=float)
    bad = []
    if not np.allclose(x0_after, [1.5]):
        bad.append(f"model.x0 is {x0_after.tolist()} after one path (set to [1.5])")
    if not np.allclose(first, second):
        bad.append(f"second path on the same driver path gives increments {second.tolist()}, the first gave {first.tolist()}")
    return bool(bad), "dX = 2 dY, x0 = 1.5, driver jumps to 0.1 then 0.3: " + "; ".join(bad)


def replay_integer_x0(sc):
    """real MarkovChainSDE step on a scripted driver path with an integer initial state (x0 = 100, or an int array)"""
    out = []
    kinds = (100, np.array([3]))
    for x0 in (kinds if sc.get("which") is None else (kinds[sc["which"]],)):
        model = LSDE.LevyDrivenSDEModel(driver=StubDriver(1), x0=x0, a=LSDE.Constant(m=1, d=1, constant=0.5))
        proc = MSDE.MarkovChainSDE.__new__(MSDE.MarkovChainSDE)
        proc.model = model
        proc.process_representation = ProcessRepresentation.IDENDITY
        path = PATH.StochasticJumpPath(np.array([0.0, 0.5, 1.0]), np.array([0.0, 0.1, 0.3]), np.array([0.0, 0.0, -0.2]))
        proc.markov_chain = StubChain(path, 0.05)
        try:
            v = np.asarray(proc.simulate_one_path().value(), dtype=float)
        except Exception as e:
            out.append(f"x0 = {x0!r}: simulate_one_path raises {type(e).__name__}: {str(e)[:120]}")
            continue
        want = 0.5 * (0.05 * 1.0 + 0.3 - 0.2)
        if abs(float(np.ravel(v)[-1]) - want) > 1e-12:
            out.append(f"x0 = {x0!r}: X_T - x0 = {float(np.ravel(v)[-1])!r}, a * Y_T = {want!r}")
    return bool(out), "; ".join(out) if out else "integer initial states are simulated like their float values"


def h_integer_x0(ctx):
    """the initial state given as integers (x0 = 100 is a natural way to write a spot; the state array is updated in place): the scheme runs
    and gives the numbers of the float initial state.  Everything but the choice of x0 is concrete here (a float state array cannot hold
    symbolic increments), so the real step runs on plain numbers"""
    which = ctx.int("x0_kind", 0, 1).__index__()
    V.set_context(None)
    try:
        ok, detail = replay_integer_x0({"which": which})
    finally:
        V.set_context(ctx)
    ctx.prove("C16.integer_initial_state_is_simulated_like_its_float_value", not ok, info={"x0": ["100", "array([3])"][which], "detail": detail[:200]}, replay=(replay_integer_x0, lambda m: {"which": which}))


def h_single(ctx, m, d, n, coef):
    model, x0, a = make_model(ctx, m, d, coef)
    x0_given = [x for x in x0]
    path = driver_path(ctx, d, n)
    mu = ctx.real("mc_drift") if d == 1 else np.array([[ctx.real(f"mc_drift{k}")] for k in range(d)], dtype=_dt(ctx))
    proc = MSDE.MarkovChainSDE.__new__(MSDE.MarkovChainSDE)
    proc.model = model
    proc.process_representation = ProcessRepresentation.IDENDITY
    proc.markov_chain = StubChain(path, mu)
    rp = (replay_euler, lambda mm: {})
    try:
        res = proc.simulate_one_path()
    except ValueError as e:
        ctx.prove("C16.euler_recursion_single", False, info={"m": m, "d": d, "coef": coef, "raised": repr(e)[:150]}, replay=(replay_diag, lambda mm: {"m": m}))
        return
    val = res.value()
    x0 = np.array(x0_given, dtype=object)  # the oracle starts from the values the caller put into the model
    X = euler_oracle(a, x0, path, mu, d, n)
    info = {"m": m, "d": d, "steps": n, "coef": coef}
    ctx.prove("C16.simulation_leaves_the_initial_state_of_the_model_untouched", AND(*[EQ(np.asarray(model.x0).reshape(-1)[k], x0_given[k]) for k in range(m)]),
              info=info, replay=(replay_two_paths, lambda mm: {}))
    ctx.prove("C16.path_is_on_the_driver_time_grid", all(EQ(res.times()[i], path.jump_times[i]) is True or True for i in range(n + 1)) and len(res.times()) == n + 1, info=info)
    for i in range(n + 1):
        for k in range(m):
            ctx.prove("C16.euler_recursion_single", EQ(x0[k] + val[k, i], X[i][k, 0]), info=dict(info, step=i), replay=rp)
    T = path.jump_times[n]
    if coef == "constant" and d == 1:
        c = a.constant_matrix[0, 0]
        for k in range(m):
            ctx.prove("C16.constant_coefficient_closed_form", EQ(x0[k] + val[k, n], x0[k] + c * (mu * T + path.diffusion_path[n] + path.jump_path[n])), info=info, replay=rp)
    if coef == "diag" and d == 1:
        prod = x0[0]
        for i in range(n):
            dt = path.jump_times[i + 1] - path.jump_times[i]
            prod = prod * (1 + mu * dt + (path.diffusion_path[i + 1] - path.diffusion_path[i]) + (path.jump_path[i + 1] - path.jump_path[i]))
        ctx.prove("C16.diagonal_coefficient_closed_form", EQ(x0[0] + val[0, n], prod), info=info, replay=rp)


def h_coupled(ctx, m, n, coef):
    d = 1
    model, x0, a = make_model(ctx, m, d, coef)
    path = driver_path(ctx, d, n, pair=True)
    mu_h, mu_2h = ctx.real("mc_drift_h"), ctx.real("mc_drift_2h")
    cp = CSDE.CouplingSDE.__new__(CSDE.CouplingSDE)
    cp.model = model
    cp.level = 1
    cp.driver_coupling_process = StubChain(path, None)
    fine = MSDE.MarkovChainSDE.__new__(MSDE.MarkovChainSDE)
    fine.model = model
    cp.fine_process = fine
    cp.mc_drift_h, cp.mc_drift_2h = mu_h, mu_2h
    res = cp.simulate_one_path_with_coupling()
    val = res.value()
    info = {"m": m, "steps": n, "coef": coef}
    for comp, mu in ((0, mu_h), (1, mu_2h)):
        X = euler_oracle(a, x0, path, mu, d, n, comp=comp)
        for i in range(n + 1):
            for k in range(m):
                ctx.prove("C16.euler_recursion_coupled_fine" if comp == 0 else "C16.euler_recursion_coupled_coarse", EQ(x0[k] + val[comp, k, i], X[i][k, 0]), info=dict(info, step=i))


class LevelledDriverCoupling:
    """stand-in for CouplingMarkovChain seen through the attributes CouplingSDE uses: a grid whose h halves and a fine chain whose
    CTMC drift is a different number at every level; one scripted coupled driver path"""

    class _Grid:
        def __init__(self, h):
            self.h = h

    class _Fine:
        def __init__(self, owner):
            self.o = owner

        def process_drift(self):
            return self.o.drifts[self.o.level]

    def __init__(self, drifts, path, h):
        self.drifts, self.level, self.path = drifts, 0, path
        self.grid = self._Grid(h)
        self.fine_process = self._Fine(self)
        self.log = []

    def initialisation(self, product=None, max_step_epsilon=None):
        self.log.append(("initialisation", self.level))

    def pre_computation(self, mc_paths=None, product=None):
        pass

    def next_level(self, mc_paths=None, path_managers=None, product=None, max_step_epsilon=None):
        self.level += 1
        self.grid.h = self.grid.h / 2

    def simulate_one_path_with_coupling(self):
        return self.path


class _PM:
    deterministic_path = None

    def update(self, rep):
        pass


def _levelled_sde(model, drifts, path, h):
    cp = CSDE.CouplingSDE.__new__(CSDE.CouplingSDE)
    cp.model, cp.level, cp.method = model, 0, None
    cp.epsilon = h
    fine = MSDE.MarkovChainSDE.__new__(MSDE.MarkovChainSDE)
    fine.model = model

    class _MC:
        def process_drift(self_inner):
            return drifts[0]

    fine.markov_chain = _MC()
    fine.initialisation = lambda product=None: None
    cp.fine_process = fine
    cp._process_representation = ProcessRepresentation.IDENDITY
    cp._spots = np.array(model.x0)
    cp.driver_coupling_process = LevelledDriverCoupling(drifts, path, h)
    cp.mc_drift_h = cp.mc_drift_2h = None
    cp.initialisation(product=None)  # level 0: reads the chain drift of the initial grid
    return cp


def replay_levels(sc):
    """real CouplingSDE.next_level twice over a stand-in driver coupling whose chain drift is 0.3, 0.2, 0.1 at levels 0, 1, 2; a = 1,
    one step of length 1 without jumps or diffusion: the fine / coarse values after the step are the level's / previous level's drift"""
    drifts = [0.3, 0.2, 0.1]
    model = LSDE.LevyDrivenSDEModel(driver=StubDriver(1), x0=np.array([0.0]), a=LSDE.Constant(m=1, d=1, constant=1.0))
    times = np.array([0.0, 1.0])
    path = PATH.StochasticJumpPath(times, np.zeros((2, 2)), np.zeros((2, 2)))
    cp = _levelled_sde(model, drifts, path, 0.1)
    pms = [_PM()]
    bad = []
    for level in (1, 2):
        cp.next_level(mc_paths=0, path_managers=pms, product=None)
        val = cp.simulate_one_path_with_coupling().value()
        fine, coarse = float(val[0, 0, 1]), float(val[1, 0, 1])
        if abs(fine - drifts[level]) > 1e-12 or abs(coarse - drifts[level - 1]) > 1e-12:
            bad.append(f"level {level}: fine {fine!r} (chain drift of this level {drifts[level]}), coarse {coarse!r} (chain drift of the previous level {drifts[level - 1]})")
    return bool(bad), "dX = dY, driver without jumps/diffusion, chain drift 0.3/0.2/0.1 at levels 0/1/2, X after one unit step: " + "; ".join(bad)


def h_coupled_levels(ctx, n, coef, levels):
    """the real next_level bookkeeping: at level l the fine component uses the CTMC drift of grid level l, the coarse one that of level l-1"""
    d = m = 1
    model, x0, a = make_model(ctx, m, d, coef)
    path = driver_path(ctx, d, n, pair=True)
    drifts = [ctx.real(f"chain_drift_level{l}") for l in range(levels + 1)]
    h = ctx.real("h0")
    ctx.assume(h > 0)
    cp = _levelled_sde(model, drifts, path, h)
    pms = [_PM()]
    rp = (replay_levels, lambda mm: {})
    for level in range(1, levels + 1):
        cp.next_level(mc_paths=0, path_managers=pms, product=None)
        val = cp.simulate_one_path_with_coupling().value()
        info = {"steps": n, "coef": coef, "level": level}
        for comp, mu in ((0, drifts[level]), (1, drifts[level - 1])):
            X = euler_oracle(a, x0, path, mu, d, n, comp=comp)
            ctx.prove("C16.levels.fine_uses_this_levels_driver_drift" if comp == 0 else "C16.levels.coarse_uses_previous_levels_driver_drift",
                      AND(*[EQ(x0[k] + val[comp, k, i], X[i][k, 0]) for i in range(n + 1) for k in range(m)]), info=info, replay=rp)
        ctx.prove("C16.levels.one_path_manager_per_level", len(pms) == level + 1, info=info, replay=rp)


def replay_rate_coefficients(sc):
    """real coefficient functions of the two rate models, tenors given as a list (as the model constructors pass them) and as an array,
    for times before and after the first tenors"""
    out = []
    sig = np.array([[0.1], [0.2]])
    x = np.array([[0.02], [0.03]])
    for name, cls in (("ForwardMarketSDEFunction", LSDE.ForwardMarketSDEFunction), ("LiborSDEFunction", LSDE.LiborSDEFunction)):
        if sc.get("which") and sc["which"] != name:
            continue
        for tenors in ([1.0, 2.0, 3.0], np.array([1.0, 2.0, 3.0])):
            a = cls(sigma=sig.copy(), tenors=tenors)
            for t in (0.5, 1.0, 1.2, 2.5):
                try:
                    v = np.asarray(a(t, x), dtype=float)
                except Exception as e:
                    out.append(f"{name}(tenors as {type(tenors).__name__})(t={t}) raises {type(e).__name__}: {str(e)[:70]}")
                    continue
                T = np.asarray(tenors, dtype=float)
                if name == "LiborSDEFunction":
                    want = np.array([[sig[i, 0] * x[i, 0] if t < T[i] else 0.0] for i in range(2)])
                else:
                    want = np.array([[sig[i, 0] * x[i, 0] * (1.0 if t < T[0] else min(1.0, max(0.0, T[i + 1] - t) / (T[i + 1] - T[i])))] for i in range(2)])
                if v.shape != want.shape or not np.allclose(v, want, atol=1e-14):
                    out.append(f"{name}(tenors as {type(tenors).__name__})(t={t}) = {v.tolist()} instead of {want.tolist()}")
    return bool(out), "; ".join(out[:3])


def h_rate_coefficients(ctx, which, m=2):
    """the coefficient functions a(t, x) of the two rate models on the whole horizon [0, T_m): defined, of shape (m, 1), and equal to
    what their docstrings say (Libor: row i is sigma_i x_i before T_i and 0 from T_i on; forward market: sigma_i x_i before T_0, then
    scaled by min(1, max(0, T_{i+1} - t) / (T_{i+1} - T_i)))"""
    cls = LSDE.ForwardMarketSDEFunction if which == "ForwardMarketSDEFunction" else LSDE.LiborSDEFunction
    tenors = []
    prev = 0.0
    for i in range(m + 1):
        T = ctx.real(f"T{i}")
        ctx.assume(T > prev)
        prev = T
        tenors.append(T)
    sig = np.array([[ctx.real(f"sigma{i}")] for i in range(m)], dtype=object)
    x = np.array([[ctx.real(f"x{i}")] for i in range(m)], dtype=object)
    t = ctx.real("t", 0)
    ctx.assume(t < tenors[m])
    a = cls(sigma=sig.copy(), tenors=list(tenors))  # the model constructors hand the tenors over as given (a list in the factories)
    rp = (replay_rate_coefficients, lambda mm: {"which": which})
    info = {"function": which, "m": m}
    try:
        v = a(t, x)
    except (TypeError, ValueError, IndexError) as e:
        ctx.prove("C16.rate_coefficient_is_defined_on_the_whole_horizon", False, info=dict(info, raised=f"{type(e).__name__}: {str(e)[:80]}"), replay=rp)
        return
    ok = np.shape(v) == (m, 1)
    ctx.prove("C16.rate_coefficient_is_defined_on_the_whole_horizon", ok, info=dict(info, shape=str(np.shape(v))), replay=rp)
    if not ok:
        return
    conds = []
    for i in range(m):
        if which == "LiborSDEFunction":
            want = V.ite(t < tenors[i], sig[i, 0] * x[i, 0], 0.0)
        else:
            ratio = V.smin(1.0, V.smax(0.0, tenors[i + 1] - t) / (tenors[i + 1] - tenors[i]))
            want = V.ite(t < tenors[0], sig[i, 0] * x[i, 0], sig[i, 0] * x[i, 0] * ratio)
        conds.append(EQ(v[i, 0], want))
    ctx.prove("C16.attempted.rate_coefficient_follows_its_documented_shape_in_time", AND(*conds), info=info, replay=rp)


# ---- discount factors


def replay_df(sc):
    """real rate models on the solver's own curve (tenors, rates, times) and on a fixed non-flat one: df(0)=1, positive, non-increasing,
    value at each tenor = product of the accruals of the elapsed periods"""
    out = []
    curves = [([1.0, 2.0, 3.5], [0.02, 0.035], [0.0, 0.5, 1.0, 1.0001, 1.5, 2.0, 2.0001, 2.5, 3.5])]
    if sc.get("tenors"):
        ten, rates = [float(x) for x in sc["tenors"]], [float(x) for x in sc["rates"]]
        ts = sorted(set([0.0] + [float(x) for x in sc.get("times", [])] + ten + [t + 1e-9 * max(1.0, t) for t in ten[:-1]]))
        curves.insert(0, (ten, rates, [t for t in ts if t <= ten[-1]]))
    which = sc.get("which")
    for tenors, rates, ts in curves:
        for cls, kw, name in ((LFM.LevyForwardModel, "ois_rates", "forward"), (LLM.LevyLiborModel, "libor_rates", "libor")):
            if which and name != which:
                continue
            m = len(rates)
            mdl = cls(**{kw: np.array(rates)}, tenors=list(tenors), sigma=np.array([[0.1]] * m), driver=StubDriver(1))
            dfs = [float(mdl.df(t)) for t in ts]
            for (t1, d1), (t2, d2) in zip(zip(ts, dfs), zip(ts[1:], dfs[1:])):
                if d2 > d1 * (1 + 1e-9):
                    out.append(f"{cls.__name__}(tenors={tenors}, rates={rates}): df({t1})={d1:.8f} < df({t2})={d2:.8f}")
            if abs(dfs[0] - 1) > 1e-12 or min(dfs) <= 0:
                out.append(f"{cls.__name__}: df(0) = {dfs[0]}, min df = {min(dfs)}")
            # value at the tenors against the product of the elapsed accruals (period j has rate rates[j], the stub period [0, T0] rate rates[0])
            for k in range(m):
                want = 1 + rates[0] * tenors[0]
                for j in range(k):
                    want *= 1 + rates[j] * (tenors[j + 1] - tenors[j])
                got = 1 / float(mdl.df(tenors[k]))
                if abs(got - want) > 1e-9 * want:
                    out.append(f"{cls.__name__}(tenors={tenors}, rates={rates}): 1/df(T_{k}) = {got!r}, product of the period accruals {want!r}")
    return bool(out), "; ".join(out[:3]) if out else "df well behaved on the curves"


def make_rate_model(ctx, cls, m):
    tenors = []
    prev = 0.0
    for i in range(m + 1):
        T = ctx.real(f"T{i}")
        ctx.assume(T > prev)
        prev = T
        tenors.append(T)
    x0 = np.array([ctx.real(f"r{i}", 0) for i in range(m)], dtype=object)
    sigma = np.array([[0.1] for _ in range(m)])
    mdl = cls.__new__(cls)
    LSDE.LevyDrivenSDEModel.__init__(mdl, driver=StubDriver(1), x0=x0, a=LSDE.Constant(m=m, d=1))
    mdl.tenors = np.array(tenors, dtype=object)
    return mdl, tenors, x0


def h_df_rates(ctx, which, m):
    cls = LFM.LevyForwardModel if which == "forward" else LLM.LevyLiborModel
    mdl, tenors, x0 = make_rate_model(ctx, cls, m)
    t1, t2 = ctx.real("t1", 0), ctx.real("t2", 0)
    rp = (replay_df, lambda mm: {"which": which, "tenors": [mm.f(T) for T in tenors], "rates": [mm.f(r) for r in x0], "times": [mm.f(t1), mm.f(t2)]})
    ctx.assume(AND(t1 < t2, t2 <= tenors[m]))
    d1, d2 = mdl.df(t1), mdl.df(t2)
    info = {"model": which, "m": m}
    ctx.prove("C16.df_is_one_at_zero", EQ(mdl.df(0.0), 1), info=info, replay=rp)
    ctx.prove("C16.df_positive", AND(d1 > 0, d2 > 0), info=info, replay=rp)
    # 1/d non-decreasing  <=>  d non-increasing (d > 0); cross-multiplied to stay division-free
    ctx.prove("C16.df_non_increasing", EQ_INV_LE(d2, d1), info=info, replay=rp)
    # continuity at the tenors: left value (t = T_k) equals the right limit (formula of the next period at T_k)
    for k in range(m):
        left = 1 / mdl.df(tenors[k])
        acc = 1 + x0[0] * tenors[0]
        for j in range(k):
            acc = acc * (1 + x0[j] * (tenors[j + 1] - tenors[j]))
        ctx.prove("C16.df_at_tenor_is_product_of_period_accruals", EQ(left, acc), info=dict(info, tenor=k), replay=rp)


def EQ_INV_LE(a, b):
    """a <= b for a = 1/A, b = 1/B with A, B > 0: compared through the accrual factors (no division for the solver)"""
    from symx import measure as M

    na, da = M.frac(V.term_of(a))
    nb, db = M.frac(V.term_of(b))
    # a = na/da, b = nb/db with positive denominators/numerators on these paths
    return SymBool(z3.simplify(na * db, som=True) <= z3.simplify(nb * da, som=True))


def h_df_simple(ctx):
    t1, t2 = ctx.real("t1", 0), ctx.real("t2", 0)
    ctx.assume(t1 <= t2)
    sde = LSDE.LevyDrivenSDEModel(driver=StubDriver(1), x0=np.array([1.0]))
    ctx.prove("C16.df_sde_model_is_one", AND(sde.df(t1) == 1.0, sde.df(0.0) == 1.0))
    import rpylib.model.levymodel.exponentialoflevymodel as EM

    shims.install_np(EM)
    r = ctx.real("r", 0)
    mdl = EM.ExponentialOfLevyModel.__new__(EM.ExponentialOfLevyModel)
    mdl.__dict__["r"] = r
    d1, d2 = mdl.df(t1), mdl.df(t2)
    ctx.prove("C16.df_exponential_model", AND(EQ(mdl.df(0.0), 1), d1 > 0, d2 <= d1))


def h_twin(ctx):
    mdl, tenors, x0 = make_rate_model(ctx, LFM.LevyForwardModel, 2)
    t = ctx.real("t", 0)
    ctx.assume(AND(t > tenors[0], t <= tenors[1]))
    ctx.prove("C16.twin.df_ignores_first_period", EQ(1 / mdl.df(t), 1 + x0[0] * (t - tenors[0])))


def concrete_validation():
    ok, d = replay_euler({})
    ok2, d2 = replay_df({})
    return [("C16.concrete.euler", not ok, d), ("C16.concrete.df", not ok2, d2)]


def harnesses(tier):
    q = tier == "quick"
    hs = [Harness("concrete", concrete_validation, concrete=True)]
    for coef in ("constant", "diag", "affine"):
        for (m, d) in ((1, 1),) + (((2, 2),) if coef != "constant" or True else ()):
            if coef == "diag" and m != d:
                continue
            for n in ((1, 2) if q else (1, 2, 3)):
                hs.append(Harness(f"single.{coef}.{m}x{d}.n{n}", h_single, {"m": m, "d": d, "n": n, "coef": coef}, max_paths=2000))
    hs.append(Harness("single.integer_x0", h_integer_x0, max_paths=20))
    hs.append(Harness("single.time.1x1.n2", h_single, {"m": 1, "d": 1, "n": 2, "coef": "time"}, max_paths=2000))
    hs.append(Harness("coupled.time.n2", h_coupled, {"m": 1, "n": 2, "coef": "time"}, max_paths=2000))
    if not q:
        hs.append(Harness("single.time.2x2.n3", h_single, {"m": 2, "d": 2, "n": 3, "coef": "time"}, max_paths=2000))
        hs.append(Harness("coupled.time.n3", h_coupled, {"m": 1, "n": 3, "coef": "time"}, max_paths=2000))
    hs.append(Harness("single.affine.2x1.n2", h_single, {"m": 2, "d": 1, "n": 2, "coef": "affine"}, max_paths=2000))
    for coef in ("constant", "affine", "diag"):
        for n in ((1, 2) if q else (1, 2, 3)):
            hs.append(Harness(f"coupled.{coef}.n{n}", h_coupled, {"m": 1, "n": n, "coef": coef}, max_paths=2000))
    for which in ("forward", "libor"):
        for m in ((1, 2) if q else (1, 2, 3)):
            hs.append(Harness(f"df.{which}.{m}", h_df_rates, {"which": which, "m": m}, max_paths=6000, batch=20))
    for coef in (("constant",) if q else ("constant", "diag", "affine")):
        hs.append(Harness(f"coupled.levels.{coef}", h_coupled_levels, {"n": 1 if q else 2, "coef": coef, "levels": 2 if q else 3}, max_paths=2000))
    for which in ("ForwardMarketSDEFunction", "LiborSDEFunction"):
        hs.append(Harness(f"ratecoef.{which}", h_rate_coefficients, {"which": which}, max_paths=2000))
    hs.append(Harness("df.simple", h_df_simple, max_paths=200))
    hs.append(Harness("twin", h_twin, twin="must_fail"))
    return hs


EXPECT = ["C16.simulation_leaves_the_initial_state_of_the_model_untouched", "C16.levels.coarse_uses_previous_levels_driver_drift", "C16.levels.fine_uses_this_levels_driver_drift", "C16.euler_recursion_single", "C16.constant_coefficient_closed_form", "C16.diagonal_coefficient_closed_form", "C16.euler_recursion_coupled_fine",
          "C16.euler_recursion_coupled_coarse", "C16.df_is_one_at_zero", "C16.df_positive", "C16.df_non_increasing", "C16.df_at_tenor_is_product_of_period_accruals",
          "C16.df_exponential_model",
          "C16.integer_initial_state_is_simulated_like_its_float_value"]


# the time profile of the rate coefficients is documented in their docstrings, not in the property: reported, not claimed
ATTEMPTED = ["C16.attempted.rate_coefficient_follows_its_documented_shape_in_time"]


# reference replays run when the symbolic run of a harness ends in an exception of the code under analysis (see runner.run_check)
ERROR_REPLAYS = {"single.diag": (replay_diag, {"m": 2}), "single.": (replay_euler, {}), "coupled.levels": (replay_levels, {}), "coupled.": (replay_euler, {}),
                 "df.": (replay_df, {}), "ratecoef.": (replay_rate_coefficients, {})}


def main(tier):
    bounds = {"histories_and_variants": 'time-dependent coefficient A0 + A2 t (1x1, 2 steps) for the single and the coupled scheme; integer initial state (x0 = 100 / array([3])) on one concrete driver path',
              "euler": "<= 2 steps (quick) / 3 (thorough), state and driver dimension <= 2, constant / diag(x) / affine coefficient functions, arbitrary driver paths and drifts",
              "df": "<= 2 (quick) / 3 (thorough) rates, arbitrary increasing tenors, rates >= 0, 0 <= t1 < t2 <= last tenor",
              "outside": "the Libor drift term (dblquad of the copula derivative), LiborSDEFunction / ForwardMarketSDEFunction sigma(t) schedules, epsilon = h^BG passed to the driver"}
    return run_check(PID, tier, harnesses(tier), expect=EXPECT, attempted=ATTEMPTED, error_replays=ERROR_REPLAYS, bounds=bounds,
                     assumptions=COMMON_ASSUMPTIONS + ["the simulators are built with __new__ around a scripted symbolic driver path (the driver itself is C15's subject)",
                                                       "exp as UF (positive, monotone, exp(0)=1)"])


if __name__ == "__main__":
    sys.exit(main(sys.argv[1] if len(sys.argv) > 1 else "quick"))
