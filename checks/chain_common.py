"""Shared set-up for the chain-level checks (C01, C02 chain samplers, C03, C04, C19): symbolic grids, abstract models, shims."""
import math
import types
from fractions import Fraction

import numpy as np

from .common import *  # noqa
from .common import z3, V, shims, SymReal, SymBool, AND, OR, NOT, EQ, IMPLIES, Unsupported
from symx import abstract as A

import rpylib.distribution.samplingfactory as SF
import rpylib.distribution.pairing as P
import rpylib.distribution.variate.binarysearchtreeadapted as BSTA
import rpylib.distribution.variate.inversion as INV
import rpylib.distribution.variate.alias as ALIAS
import rpylib.distribution.variate.binarysearchtree as BST
import rpylib.distribution.variate.huffmantree as HUFF
import rpylib.distribution.variate.table as TABLE
import rpylib.distribution.univariate.uniform as UNI
import rpylib.grid.spatial as GS
import rpylib.grid.grid as GG
import rpylib.model.levymodel.levymodel as LM
import rpylib.model.levycopulamodel as LCM
import rpylib.numerical.tools as NT
import rpylib.distribution.levycopula as LC
import rpylib.process.markovchain.markovchain as MC
import rpylib.process.markovchain.markovchainlevycopula as MCLC
import rpylib.process.levyprocess as LP
from rpylib.distribution.sampling import SamplingMethod
from rpylib.model.levymodel.levymodel import LevyRepresentation
from rpylib.product.payoff import PayoffDates

INF = math.inf


class _FloatShim:
    def __call__(self, x=0.0):
        return shims.sym_float(x)

    def __instancecheck__(self, inst):
        return isinstance(inst, float)


class _IntShim:
    def __call__(self, x=0, *a):
        return shims.sym_int(x, *a)

    def __instancecheck__(self, inst):
        return isinstance(inst, int)


shims.install_np(SF, P, BSTA, INV, ALIAS, BST, HUFF, TABLE, UNI, GS, GG, LM, LCM, NT, LC, MC, MCLC, LP)
shims.install(LM, float=_FloatShim())
shims.install(SF, max=shims.sym_max)  # max(state_mass, 0) as an If-term instead of a fork
shims.register_singledispatch(NT.sign)
shims.register_singledispatch(GS.CTMCGrid.__dict__["middle"])
shims.install(P, floor=shims.sym_floor, sqrt=shims.sym_sqrt, isqrt=lambda x: (SymInt(shims.sym_sqrt(x).m) if V.is_sym(x) else math.isqrt(x)))

REPS = {"ONEONE": LevyRepresentation.ONEONE, "ZERO": LevyRepresentation.ZERO, "CENTER": LevyRepresentation.CENTER, "TILDE": LevyRepresentation.TILDE}


def sym_axis(ctx, nl, nr, name="x", h=None):
    """strictly increasing axis l_nl < ... < l_1 = -h < 0 < h = r_1 < ... < r_nr; returns (object array, h, pivot)"""
    if h is None:
        h = ctx.real(name + "_h")
        ctx.assume(h > 0)
    left = [-h]
    for i in range(2, nl + 1):
        v = ctx.real(f"{name}_l{i}")
        ctx.assume(v < left[-1])
        left.append(v)
    right = [h]
    for i in range(2, nr + 1):
        v = ctx.real(f"{name}_r{i}")
        ctx.assume(v > right[-1])
        right.append(v)
    vals = left[::-1] + [0.0] + right
    axis = np.empty(len(vals), dtype=object)
    for i, v in enumerate(vals):
        axis[i] = v
    return axis, h, nl


def make_grid(h, pivot, axes):
    return GS.CTMCGrid(h=h, origin_coordinate=pivot, axes=list(axes))


def cells(axis, pivot):
    """oracle, written from the definition: cell of state k is [ (x_{k-1}+x_k)/2, (x_k+x_{k+1})/2 ], the axis ends for the first / last"""
    n = len(axis)
    out = {}
    for k in range(n):
        if k == pivot:
            continue
        lo = axis[0] if k == 0 else (axis[k - 1] + axis[k]) / 2
        hi = axis[n - 1] if k == n - 1 else (axis[k] + axis[k + 1]) / 2
        out[k] = (lo, hi)
    return out


def cell_mass_term(nu, k, pivot, lo, hi, order=0):
    """oracle mass of a cell on one side of zero, directly from the cumulative functions of the abstract measure"""
    if k < pivot:
        return nu.neg_term(order, lo, hi)
    return nu.pos_term(order, lo, hi)


class StubPayoff:
    def __init__(self, kind=PayoffDates.DETERMINISTIC):
        self.payoff_dates_type = kind


class StubProduct:
    def __init__(self, kind=PayoffDates.DETERMINISTIC, maturity=1.0, times=None):
        self.payoff = StubPayoff(kind)
        self.maturity = maturity
        self._times = times

    def times_grid(self):
        return self._times


# ---- concrete models for replays


def concrete_models():
    import rpylib.model.levymodel.mixed.hem as HEM
    import rpylib.model.levymodel.purejump.cgmy as CGMY
    import rpylib.model.levymodel.purejump.variancegamma as VG

    out = {}
    out["hem"] = HEM.HEMModel(HEM.HEMParameters(sigma=0.1, p=0.4, eta1=20.0, eta2=25.0, intensity=3.0))
    out["cgmy_fv"] = CGMY.CGMYModel(CGMY.CGMYParameters(c=0.5, g=5.0, m=6.0, y=0.5))
    out["cgmy_iv"] = CGMY.CGMYModel(CGMY.CGMYParameters(c=0.1, g=5.0, m=6.0, y=1.2))
    return out


def concrete_axis(vals):
    return np.array([float(v) for v in vals])


def quad_mass(nu, a, b, order=0):
    from scipy.integrate import quad

    if a >= b:
        return 0.0
    return quad(lambda x: x**order * nu(x), a, b, limit=200)[0]
