"""CLI: ./vcheck CNN quick|thorough ; ./vcheck replay <file>"""
import importlib
import json
import os
import sys
import glob


def find_module(pid):
    here = os.path.dirname(__file__)
    hits = glob.glob(os.path.join(here, pid.lower() + "_*.py"))
    if not hits:
        raise SystemExit(f"no check module for {pid}")
    return "checks." + os.path.basename(hits[0])[:-3]


def main(argv):
    if len(argv) >= 2 and argv[0] == "replay":
        payload = json.load(open(argv[1]))
        modname, fn = payload["replay_fn"].split(":")
        mod = importlib.import_module(modname)
        try:
            ok, detail = getattr(mod, fn)(payload["scenario"])
        except Exception as e:  # a reference replay in which the code under analysis itself raises reproduces the report (DESIGN 2.9b)
            from symx import explorer

            site = explorer._raise_site(e)
            if site is None:
                raise
            ok, detail = True, f"the code under analysis raises {type(e).__name__}: {str(e)[:200]} at {site[0]}:{site[1]} ({site[2]})"
        print(("REPRODUCED " if ok else "NOT-REPRODUCED ") + f"property={payload['property']} obligation={payload['obligation']}: {detail}")
        return 1 if ok else 0
    if len(argv) < 1:
        raise SystemExit(__doc__)
    pid = argv[0].upper()
    tier = argv[1] if len(argv) > 1 else os.environ.get("VERIF_TIER", "quick")
    mod = importlib.import_module(find_module(pid))
    return mod.main(tier)


if __name__ == "__main__":
    sys.exit(main(sys.argv[1:]))
