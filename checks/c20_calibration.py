"""C20 - calibration reprices its target; derived parameters stay in sync with updates.

Real parameter classes under symbolic assignment histories + initialisation(); real calibrate_model_parameter /
calibrate_model_parameter_to_atm_call / run_default_calibration with brentq and the COS pricer as contract stubs (the price is an
uninterpreted function of the observable parameter state of the model it is given).
"""
import copy
import itertools
import sys
from fractions import Fraction

import numpy as np

from .common import *  # noqa
from .common import z3, V, shims, Harness, run_check, SymReal, SymInt, SymBool, AND, OR, NOT, EQ, IMPLIES, COMMON_ASSUMPTIONS, Unsupported, PathAbort
from symx import special as S
from symx.values import SymComplex
from .c19_credit import BrentStub, _OptShim

import rpylib.model.utils as MU
import rpylib.model.levymodel.levymodel as LM
import rpylib.model.levymodel.exponentialoflevymodel as EM
import rpylib.model.levymodel.mixed.hem as HEM
import rpylib.model.levymodel.mixed.merton as MER
import rpylib.model.levymodel.mixed.blackscholes as BS
import rpylib.model.levymodel.purejump.cgmy as CGMY
import rpylib.model.levymodel.purejump.variancegamma as VG
from rpylib.model.model import ModelType

PID = "C20"


class _SpecialShim:
    def gamma(self, x):
        if V.is_sym(x):
            return S.generic_uf("gamma", x)
        import scipy.special

        return scipy.special.gamma(x)

    def __getattr__(self, n):
        import scipy.special

        return getattr(scipy.special, n)


class _SpShim:
    special = _SpecialShim()


shims.install_np(MU, LM, EM, HEM, MER, BS, CGMY, VG)
shims.install(CGMY, sp=_SpShim())
BRENT = BrentStub()

PARAMS = {
    "HEM": (HEM.HEMParameters, dict(sigma=0.05, p=0.6, eta1=20.0, eta2=25.0, intensity=3.0), ["_xi"],
            {"sigma": ">=0", "p": ">0", "eta1": ">0", "eta2": ">0", "intensity": ">=0"}),
    "MERTON": (MER.MertonParameters, dict(sigma=0.05, mu_j=0.03, sigma_j=0.05, intensity=3.0), [],
               {"sigma": ">=0", "mu_j": ">=0", "sigma_j": ">0", "intensity": ">=0"}),
    "CGMY": (CGMY.CGMYParameters, dict(c=1.0, g=15.0, m=20.0, y=0.5), ["_CGammamY", "_MpowerY", "_GpowerY"],
             {"c": ">0", "g": ">=0", "m": ">=0", "y": "<2"}),
    "VG": (VG.VGParameters, dict(sigma=0.1, nu=0.06, theta=0.1), ["_c", "_lambda_p", "_lambda_m"], {"sigma": ">=0"}),
    "BS": (BS.BlackScholesParameters, dict(sigma=0.1), ["variance"], {"sigma": ">=0"}),
}


def _admissible(ctx, x, spec):
    op, val = spec[:-1] if spec[-1].isdigit() and not spec[:-1][-1].isdigit() else spec, None
    if spec.startswith(">="):
        ctx.assume(x >= float(spec[2:]))
    elif spec.startswith(">"):
        ctx.assume(x > float(spec[1:]))
    elif spec.startswith("<"):
        ctx.assume(x < float(spec[1:]))


def _violating(x, spec):
    if spec.startswith(">="):
        return x < float(spec[2:])
    if spec.startswith(">"):
        return x <= float(spec[1:])
    if spec.startswith("<"):
        return x >= float(spec[1:])
    raise ValueError(spec)


def replay_sync(sc):
    cls, defaults, cached, cons = PARAMS[sc["model"]]
    p = cls(**defaults)
    final = dict(defaults)
    for name, val in sc["assignments"]:
        setattr(p, name, val)
        final[name] = val
    p.initialisation()
    q = cls(**final)
    bad = [(f, getattr(p, f), getattr(q, f)) for f in cached if abs(getattr(p, f) - getattr(q, f)) > 1e-12 * max(1.0, abs(getattr(q, f)))]
    return bool(bad), f"{sc['model']} parameters after assignments {sc['assignments']} + initialisation(): cached fields differ from a fresh object: {bad}"


def h_sync(ctx, model, order):
    """assign the fields listed in `order` (symbolic admissible values), re-initialise, compare every cached field with a fresh object"""
    cls, defaults, cached, cons = PARAMS[model]
    p = cls(**defaults)
    final = dict(defaults)
    vals = []
    for k, name in enumerate(order):
        x = ctx.real(f"{name}_{k}")
        if name in cons:
            _admissible(ctx, x, cons[name])
        elif name in ("nu",):
            ctx.assume(x > 0)
        if model == "CGMY" and name in ("g", "m"):
            ctx.assume(x > 0)  # m**y, g**y with a zero base are infinite for y < 0
        if model == "HEM" and name == "eta1":
            ctx.assume(x > 1)
        if model == "VG" and name == "sigma":
            ctx.assume(x > 0)
        setattr(p, name, x)
        final[name] = x
        vals.append((name, x))
    p.initialisation()
    q = cls(**final)
    rp = (replay_sync, lambda m: {"model": model, "assignments": [(n, m.f(x)) for n, x in vals]})
    for f in cached:
        ctx.prove("C20.cached_fields_follow_assignments_after_initialisation", EQ(getattr(p, f), getattr(q, f)), info={"model": model, "order": order, "field": f}, replay=rp)
    for name in defaults:
        ctx.prove("C20.plain_fields_hold_last_assignment", EQ(getattr(p, name), final[name]), info={"model": model})


def h_constraints(ctx, model, field):
    cls, defaults, cached, cons = PARAMS[model]
    x = ctx.real("bad_value")
    ctx.assume(_violating(x, cons[field]))
    kw = dict(defaults)
    kw[field] = x
    try:
        cls(**kw)
        raised = False
    except ValueError:
        raised = True
    except ZeroDivisionError:
        raised = True
    ctx.prove("C20.constraint_enforced_at_construction", raised, info={"model": model, "field": field})
    p = cls(**defaults)
    try:
        setattr(p, field, x)
        raised = False
    except ValueError:
        raised = True
    ctx.prove("C20.constraint_enforced_on_assignment", raised, info={"model": model, "field": field})
    ctx.prove("C20.rejected_assignment_leaves_value_unchanged", getattr(p, field) == defaults[field], info={"model": model, "field": field})


# ---- calibration wiring


def observable_state(model):
    """what a pricer can see of an exponential model: plain and cached parameter fields, omega, the simulation drift"""
    prm = model.levy_model.parameters
    names = sorted(k for k in vars(prm))
    out = [getattr(prm, k) for k in names]
    out += [model.omega, model.process_drift(), model.spot, model.r, model.d]
    return names + ["omega", "process_drift", "spot", "r", "d"], out


class PricerStub:
    """COSPricer contract: price(product) is a function of the observable state of the model it was built on"""

    calls = []

    def __init__(self, model, *a, **kw):
        self.model = model

    def price(self, product):
        names, st = observable_state(self.model)
        val = S.generic_uf(f"price_{type(self.model).__name__}", *st)
        PricerStub.calls.append((self.model, val))
        # the real pricer returns one value per strike: an array of shape (1,) for a scalar strike, (k,) for k strikes
        out = np.empty(max(1, np.size(product.payoff.strike)), dtype=object)
        out.fill(val)
        return out


def replay_calibration(sc):
    """real COS pricer and Brent: calibrate the default parameter of the model to several Black-Scholes volatilities (the largest ones have
    their root beyond the configured interval: the only legitimate outcome there is the ValueError) and reprice"""
    from rpylib.numerical.cosmethod import COSPricer
    from rpylib.numerical.closedform.cfblackscholes import CFBlackScholes

    mt = getattr(ModelType, sc["model"])
    conf = MU.default_calibration[mt]
    a, b = conf.parameter_interval
    details = []
    for bs_sigma in sc.get("bs_sigmas", [0.12, 0.8, 1.2]):
        model = MU.create_exponential_of_levy_model(mt)(spot=90.0, r=0.05, d=0.03)
        before = copy.deepcopy(vars(model.levy_model.parameters))
        try:
            cal = MU.run_default_calibration(model, maturity=1.0, bs_sigma=bs_sigma)
        except ValueError:
            continue  # no solution in the default interval
        except TypeError as e:
            return True, f"{sc['model']}: run_default_calibration(model, maturity=1.0, bs_sigma={bs_sigma}) raises TypeError: {e}"
        call = MU.Product(payoff_underlying=MU.Spot(), payoff=MU.Vanilla(strike=model.spot, payoff_type=MU.PayoffType.CALL), maturity=1.0)
        got = COSPricer(cal).price(product=call)
        bs = MU.create_exponential_of_levy_model(ModelType.BLACKSCHOLES)(spot=model.spot, r=model.r, d=model.d, sigma=bs_sigma)
        want = CFBlackScholes(bs).call(strike=model.spot, maturity=1.0)
        if abs(got - want) > 1e-6:
            details.append(f"bs_sigma={bs_sigma}: calibrated ATM call {got!r} vs Black-Scholes target {want!r}")
        x = getattr(cal.levy_model.parameters, conf.parameter)
        if not (a <= x <= b):
            details.append(f"bs_sigma={bs_sigma}: calibrated {conf.parameter} = {x!r} outside the configured interval {conf.parameter_interval}")
        if vars(model.levy_model.parameters) != before:
            details.append(f"bs_sigma={bs_sigma}: the input model's parameters were modified")
        if type(cal) is not type(model):
            details.append(f"bs_sigma={bs_sigma}: returned {type(cal).__name__}")
    return bool(details), f"{sc['model']}: " + "; ".join(details[:3])


def h_calibrate(ctx, mt_name):
    mt = getattr(ModelType, mt_name)
    model = MU.create_exponential_of_levy_model(mt)(spot=90.0, r=0.05, d=0.03)  # non-default market data: the target must use them
    conf = MU.default_calibration[mt]
    before = dict(vars(model.levy_model.parameters))
    PricerStub.calls = []
    undo1 = shims.install(MU, COSPricer=PricerStub, scipy=_OptShim(BRENT))
    try:
        type_error = None
        try:
            cal = MU.run_default_calibration(model, maturity=1.0, bs_sigma=0.12)
            raised = False
        except ValueError:
            raised = True
        except TypeError as e:
            type_error = e
    finally:
        undo1()
    rp = (replay_calibration, lambda m: {"model": mt_name})
    info = {"model": mt_name, "parameter": conf.parameter}
    ctx.prove("C20.objective_handed_to_the_root_search_is_scalar_valued", type_error is None, info=dict(info, raised=str(type_error)), replay=rp)
    if type_error is not None:
        return
    ctx.prove("C20.input_model_untouched", all(before[k] == v if not V.is_sym(v) else False for k, v in vars(model.levy_model.parameters).items()), info=info, replay=rp)
    if raised:
        # legitimate only when the bracket does not straddle a root: the stub raises exactly then
        ctx.prove("C20.calibration_returns_or_raises", True, info=info)
        return
    a, b = conf.parameter_interval
    x = getattr(cal.levy_model.parameters, conf.parameter)
    ctx.prove("C20.returns_model_of_same_type_with_value_in_interval", AND(type(cal) is type(model), x >= a, x <= b), info=info, replay=rp)
    # the root handed back by the stub satisfies price(model rebuilt in the objective) == market; the returned model must be observably the same model
    obj_model, obj_price = PricerStub.calls[-1]
    names, st_obj = observable_state(obj_model)
    _, st_ret = observable_state(cal)
    fresh_params = type(model.levy_model.parameters)(**{k: (x if k == conf.parameter else v) for k, v in before.items() if not k.startswith("_") and k != "variance"})
    fresh = type(model)(spot=model.spot, r=model.r, d=model.d, parameters=fresh_params)
    _, st_fresh = observable_state(fresh)
    for n, u, w, z in zip(names, st_obj, st_ret, st_fresh):
        ctx.prove("C20.objective_prices_the_reinitialised_model", EQ(u, z) if (V.is_sym(u) or V.is_sym(z)) else u == z, info=dict(info, field=n), replay=rp)
        ctx.prove("C20.returned_model_equals_directly_constructed_model", EQ(w, z) if (V.is_sym(w) or V.is_sym(z)) else w == z, info=dict(info, field=n), replay=rp)
    from rpylib.numerical.closedform.cfblackscholes import CFBlackScholes

    bs = MU.create_exponential_of_levy_model(ModelType.BLACKSCHOLES)(spot=model.spot, r=model.r, d=model.d, sigma=0.12)
    target = CFBlackScholes(bs).call(strike=model.spot, maturity=1.0)
    ctx.prove("C20.calibrated_model_reprices_the_black_scholes_target", EQ(obj_price, target), info=info, replay=rp)


def h_twin(ctx):
    p = HEM.HEMParameters(sigma=0.05, p=0.6, eta1=20.0, eta2=25.0, intensity=3.0)
    x = ctx.real("eta1_new")
    ctx.assume(x > 1)
    p.eta1 = x  # no initialisation(): the cached field must be stale
    q = HEM.HEMParameters(sigma=0.05, p=0.6, eta1=x, eta2=25.0, intensity=3.0)
    ctx.prove("C20.twin.stale_without_initialisation", EQ(p._xi, q._xi))


def concrete_validation():
    ok, d = replay_sync({"model": "HEM", "assignments": [("eta1", 30.0), ("p", 0.3)]})
    return [("C20.concrete.sync", not ok, d)]


def harnesses(tier):
    q = tier == "quick"
    hs = [Harness("concrete", concrete_validation, concrete=True)]
    for model, (cls, defaults, cached, cons) in PARAMS.items():
        fields = list(defaults)
        maxlen = 2 if q else 3
        orders = [o for k in range(1, maxlen + 1) for o in itertools.permutations(fields, k)]
        if q:
            orders = orders[:: max(1, len(orders) // 6)]
        for o in orders:
            hs.append(Harness(f"sync.{model}.{'-'.join(o)}", h_sync, {"model": model, "order": o}, max_paths=500))
        for f in cons:
            hs.append(Harness(f"constraint.{model}.{f}", h_constraints, {"model": model, "field": f}, max_paths=200))
    for mt in ("HEM", "CGMY"):
        hs.append(Harness(f"calibrate.{mt}", h_calibrate, {"mt_name": mt}, max_paths=500))
    hs.append(Harness("twin", h_twin, twin="must_fail"))
    return hs


EXPECT = ["C20.cached_fields_follow_assignments_after_initialisation", "C20.constraint_enforced_at_construction", "C20.constraint_enforced_on_assignment",
          "C20.returns_model_of_same_type_with_value_in_interval", "C20.objective_prices_the_reinitialised_model", "C20.returned_model_equals_directly_constructed_model",
          "C20.calibrated_model_reprices_the_black_scholes_target", "C20.input_model_untouched"]


# reference replays run when the symbolic run of a harness ends in an exception of the code under analysis (see runner.run_check)
ERROR_REPLAYS = {"calibrate.HEM": (replay_calibration, {"model": "HEM"}), "calibrate.CGMY": (replay_calibration, {"model": "CGMY"}),
                 "calibrate.MERTON": (replay_calibration, {"model": "MERTON"}), "calibrate.VG": (replay_calibration, {"model": "VG"})}


def main(tier):
    bounds = {"parameters": "HEM, Merton, CGMY, VG, Black-Scholes parameter classes; assignment sequences of length <= 2 (quick) / 3 (thorough) over distinct fields, admissible symbolic values",
              "calibration": "run_default_calibration (-> calibrate_model_parameter_to_atm_call -> calibrate_model_parameter) for HEM (sigma) and CGMY (c) on the default models",
              "outside": "that the COS series actually reprices to tolerance and Brent's iterations (contract stubs; see C18); Merton / VG default calibrations (complex exp / log of a symbolic argument)"}
    return run_check(PID, tier, harnesses(tier), expect=EXPECT, error_replays=ERROR_REPLAYS, bounds=bounds,
                     assumptions=COMMON_ASSUMPTIONS + ["brentq contract: some root inside the bracket, ValueError when the end values have the same sign",
                                                       "COS price = uninterpreted function of the observable parameter state (fields, cached fields, omega, simulation drift) of the model given to the pricer",
                                                       "gamma, pow as uninterpreted functions"])


if __name__ == "__main__":
    sys.exit(main(sys.argv[1] if len(sys.argv) > 1 else "quick"))
