"""C10 - exponent, triplet, cumulants and simulation drifts describe one same process.

levy_exponent_pure_jump of each model runs on a truncated Taylor jet (order 6) around 0 with symbolic parameters: the stated cumulants
are t * kappa^(n)(0), and kappa^(n)(0) equals the model's own closed-form moment integral (n = 1, 2).  LevyTriplet.set_representation
runs on abstract moments for every sequence of representations.  Martingale: characteristic function at -i and the drift used for
direct simulation.
"""
import itertools
import math
import sys
from fractions import Fraction

import numpy as np

from .common import *  # noqa
from .common import z3, V, shims, Harness, run_check, SymReal, SymInt, SymBool, AND, OR, NOT, EQ, IMPLIES, COMMON_ASSUMPTIONS, Unsupported, PathAbort, EQ_RATIONAL
from symx import ad as AD
from symx import special as S
from symx import abstract as A
from symx.ad import Jet
from symx.values import SymComplex
from .c09_integrals import _Scipy, _Special

import rpylib.model.levymodel.levymodel as LM
import rpylib.model.levymodel.exponentialoflevymodel as EM
import rpylib.model.levymodel.mixed.hem as HEM
import rpylib.model.levymodel.mixed.merton as MER
import rpylib.model.levymodel.mixed.blackscholes as BS
import rpylib.model.levymodel.purejump.variancegamma as VG
import rpylib.model.levymodel.purejump.cgmy as CGMY
from rpylib.model.levymodel.levymodel import LevyRepresentation

PID = "C10"
INF = math.inf
shims.install_np(LM, EM, HEM, MER, BS, VG, CGMY)
for _m in (LM, EM, HEM, MER, BS, VG, CGMY):  # float(x) on a real number is the identity, also on a symbolic one
    shims.install(_m, float=shims.sym_float)


class _Sp:
    special = _Special()


shims.install(CGMY, sp=_Sp())
REPS = [LevyRepresentation.ONEONE, LevyRepresentation.ZERO, LevyRepresentation.CENTER, LevyRepresentation.TILDE]
FACT = {1: 1, 2: 2, 3: 6, 4: 24, 5: 120, 6: 720}


def make_params(ctx, model):
    if model == "HEM":
        lam, p, e1, e2, sg = ctx.real("intensity"), ctx.real("p"), ctx.real("eta1"), ctx.real("eta2"), ctx.real("sigma")
        ctx.assume(AND(lam > 0, p > 0, p < 1, e1 > 1, e2 > 0, sg >= 0))
        return HEM.HEMParameters(sigma=sg, p=p, eta1=e1, eta2=e2, intensity=lam)
    if model == "MERTON":
        lam, mu, sj, sg = ctx.real("intensity"), ctx.real("mu_j"), ctx.real("sigma_j"), ctx.real("sigma")
        ctx.assume(AND(lam > 0, mu >= 0, sj > 0, sg >= 0))
        return MER.MertonParameters(sigma=sg, mu_j=mu, sigma_j=sj, intensity=lam)
    if model == "VG":
        sg, nu, th = ctx.real("sigma"), ctx.real("nu"), ctx.real("theta")
        ctx.assume(AND(sg > 0, nu > 0))
        return VG.VGParameters(sigma=sg, nu=nu, theta=th)
    if model == "CGMY":
        c, g, m, y = ctx.real("c"), ctx.real("g"), ctx.real("m"), ctx.real("y")
        ctx.assume(AND(c > 0, g > 0, m > 0, y < 2, y != 0, y != 1))
        return CGMY.CGMYParameters(c=c, g=g, m=m, y=y)
    raise ValueError(model)


MODELS = {"HEM": HEM.HEMModel, "MERTON": MER.MertonModel, "VG": VG.VarianceGammaModel, "CGMY": CGMY.CGMYModel}
EXPMODELS = {"HEM": HEM.ExponentialOfHEMModel, "MERTON": MER.ExponentialOfMertonModel, "BS": BS.BlackScholesModel}


def concrete_params(model):
    return {"HEM": lambda: HEM.HEMParameters(sigma=0.05, p=0.6, eta1=20.0, eta2=25.0, intensity=3.0),
            "MERTON": lambda: MER.MertonParameters(sigma=0.05, mu_j=0.03, sigma_j=0.05, intensity=3.0),
            "VG": lambda: VG.VGParameters(sigma=0.1, nu=0.06, theta=0.1),
            "CGMY": lambda: CGMY.CGMYParameters(c=1.0, g=15.0, m=20.0, y=0.5), "BS": lambda: BS.BlackScholesParameters(sigma=0.1)}[model]()


def replay_cumulant(sc):
    """cumulant_n(1) vs a finite-difference derivative of the model's own exponent at 0 (real argument)"""
    import mpmath as mp

    model = MODELS[sc["model"]](concrete_params(sc["model"]))
    n = sc["n"]
    a, sig = model.levy_triplet.a, model.levy_triplet.sigma

    def kappa(s):
        return a * s + 0.5 * sig**2 * s**2 + complex(model.levy_exponent_pure_jump(complex(s, 0))).real

    mp.mp.dps = 40
    h = 1e-2
    # central finite differences of order n
    from math import comb

    d = sum((-1) ** k * comb(n, k) * kappa((n / 2 - k) * h) for k in range(n + 1)) / h**n
    got = getattr(model.cumulant, f"cumulant{n}")(1.0)
    tol = 5e-2 * max(abs(d), 1e-6) + 1e-6
    return abs(got - d) > tol, f"{sc['model']}: cumulant{n}(1) = {got!r} vs d^{n}/ds^{n} of the exponent at 0 = {d!r} (finite differences)"


def h_cumulants(ctx, model, order):
    Jet.ORDER = order
    prm = make_params(ctx, model)
    mdl = MODELS[model](prm)
    s = Jet.variable(0.0)
    pj = mdl.levy_exponent_pure_jump(s)
    pj = Jet.lift(pj)
    a, sig = mdl.levy_triplet.a, mdl.levy_triplet.sigma
    t = ctx.real("t", 0)
    info = {"model": model}
    ctx.prove("C10.exponent_vanishes_at_zero", EQ_RATIONAL(pj.c[0], 0.0), info=info)
    kappa = {1: a + pj.c[1], 2: sig * sig + 2 * pj.c[2]}
    for n in range(3, order + 1):
        kappa[n] = FACT[n] * pj.c[n]
    for n in (1, 2, 4, 6):
        if n > order:
            continue
        try:
            cn = getattr(mdl.cumulant, f"cumulant{n}")(t)
        except NotImplementedError:
            continue
        ctx.prove("C10.cumulant_is_t_times_derivative_of_exponent_at_zero", EQ_RATIONAL(cn, t * kappa[n]), info=dict(info, n=n),
                  replay=(replay_cumulant, lambda m, n=n: {"model": model, "n": n}), timeout_ms=60000)
    return mdl, pj, kappa


def h_moments(ctx, model, reinit=False):
    """kappa'(0), kappa''(0) of the pure-jump exponent equal the model's own closed-form moment integrals over the whole line,
    with the compensator of the declared representation"""
    Jet.ORDER = 2
    prm = make_params(ctx, model)
    if reinit:
        # the parameter object is updated in place and re-initialised (what the calibration does) before the model is built: exponent and
        # jump measure must both describe the new values, whatever the object held before
        new = make_params(ctx, model)
        for name in [k for k in vars(new) if not k.startswith("_")]:
            setattr(prm, name, getattr(new, name))
        prm.initialisation()
    mdl = MODELS[model](prm)
    pj = Jet.lift(mdl.levy_exponent_pure_jump(Jet.variable(0.0)))
    nu = mdl.levy_triplet.nu
    rep = mdl.levy_triplet.representation
    M1 = nu.integrate_against_x(-INF, INF)
    M2 = nu.integrate_against_xx(-INF, INF)
    info = {"model": model, "representation": rep.name, "reinitialised": reinit}
    want1 = M1 if rep == LevyRepresentation.ZERO else 0.0  # CENTER: fully compensated; ZERO: no compensator
    ctx.prove("C10.first_derivative_of_exponent_is_first_moment_in_declared_representation", EQ_RATIONAL(pj.c[1], want1), info=info, timeout_ms=60000)
    ctx.prove("C10.second_derivative_of_exponent_is_second_moment", EQ_RATIONAL(2 * pj.c[2], M2), info=info, timeout_ms=60000)


def replay_cgmy_first(sc):
    """real CGMY model at a special activity index: derivative at 0 of the pure-jump exponent (central difference) against the first
    moment that its declared representation leaves uncompensated (quadrature of x nu(x) for ZERO, 0 for CENTER)"""
    from scipy.integrate import quad

    y = {"y0": 0.0, "y1": 1.0, "neg": -0.5}[sc["case"]]
    mdl = CGMY.CGMYModel(CGMY.CGMYParameters(c=0.3, g=6.0, m=9.0, y=y))
    h = 1e-4
    d1 = (complex(mdl.levy_exponent_pure_jump(complex(h, 0))).real - complex(mdl.levy_exponent_pure_jump(complex(-h, 0))).real) / (2 * h)
    rep = mdl.levy_triplet.representation
    nu = mdl.levy_triplet.nu
    if rep == LevyRepresentation.ZERO:
        want = quad(lambda x: x * nu(x), -np.inf, -1e-12)[0] + quad(lambda x: x * nu(x), 1e-12, np.inf)[0]
    else:
        want = 0.0
    return abs(d1 - want) > 1e-5, (f"CGMY(c=0.3, g=6, m=9, y={y}) declared {rep.name}: d/du of the pure-jump exponent at 0 = {d1!r}, first moment left "
                                   f"uncompensated by that representation = {want!r}")


def h_cgmy_first(ctx, case):
    """CGMY at the activity indices with their own code branch (y = 0, y = 1) and for y < 0: the first derivative of the pure-jump exponent
    at 0 is the first moment the declared representation leaves uncompensated (0 for CENTER, the full first moment for ZERO)"""
    Jet.ORDER = 2
    c, g, m = ctx.real("c"), ctx.real("g"), ctx.real("m")
    ctx.assume(AND(c > 0, g > 0, m > 0))
    if case == "y0":
        y = 0.0
    elif case == "y1":
        y = 1.0
    else:
        y = ctx.real("y")
        ctx.assume(AND(y < 0, y > -1))
    mdl = CGMY.CGMYModel(CGMY.CGMYParameters(c=c, g=g, m=m, y=y))
    pj = Jet.lift(mdl.levy_exponent_pure_jump(Jet.variable(0.0)))
    rep = mdl.levy_triplet.representation
    rp = (replay_cgmy_first, lambda mm: {"case": case})
    info = {"case": case, "representation": rep.name}
    ctx.prove("C10.exponent_vanishes_at_zero", EQ_RATIONAL(pj.c[0], 0.0), info=info, replay=rp)
    if rep == LevyRepresentation.CENTER:
        want1 = 0.0
    else:
        # ZERO: int x nu(dx) = c Gamma(1 - y) (m^(y-1) - g^(y-1))
        from symx import ad as _AD

        want1 = c * _AD.gamma(1 - y) * (S.sym_pow(m, y - 1) - S.sym_pow(g, y - 1))
    ctx.prove("C10.first_derivative_of_exponent_is_first_moment_in_declared_representation", EQ_RATIONAL(pj.c[1], want1), info=info, replay=rp, timeout_ms=60000)


def h_representations(ctx, seq, fv):
    """converting the drift between representations is path-independent and reversible (abstract moments)"""
    a0 = ctx.real("a0")
    nu = A.AbsMeasure(ctx, "nu", finite_activity=False, finite_variation=fv)
    reps = [REPS[i] for i in seq]
    if not fv and LevyRepresentation.ZERO in reps:
        raise PathAbort()
    trip = LM.LevyTriplet(sigma=0.0, nu=nu, a=a0, representation=reps[0])
    direct = LM.LevyTriplet(sigma=0.0, nu=nu, a=a0, representation=reps[0])
    for r in reps[1:]:
        trip.set_representation(r)
    direct.set_representation(reps[-1])
    info = {"sequence": [r.name for r in reps], "finite_variation": fv}
    ctx.prove("C10.representation_conversion_is_path_independent", EQ(trip.a, direct.a), info=info)
    for r in reversed(reps[:-1]):
        trip.set_representation(r)
    ctx.prove("C10.representation_conversion_is_reversible", AND(EQ(trip.a, a0), trip.representation == reps[0]), info=info)


def replay_exponent_history(sc):
    """real models: the exponent before and after the triplet is re-expressed in other representations (the law has not changed)"""
    out = []
    for model in [sc["model"]] if sc.get("model") else ["HEM", "MERTON", "VG", "CGMY"]:
        m = MODELS[model](concrete_params(model))
        xs = [0.7, -2.3, 11.0]
        before = [complex(m.levy_exponent(x)) for x in xs]
        start = m.levy_triplet.representation
        for rep in sc.get("reps") or ["CENTER", "ONEONE", "TILDE"]:
            try:
                m.levy_triplet.set_representation(LevyRepresentation[rep])
            except Exception:
                continue  # not available for this measure (ZERO with infinite variation)
            after = [complex(m.levy_exponent(x)) for x in xs]
            for x, b, a in zip(xs, before, after):
                if abs(a - b) > 1e-10 * max(1.0, abs(b)):
                    out.append(f"{model} declared {start.name}, re-expressed in {rep}: exponent at {x} is {a!r}, it was {b!r}")
    return bool(out), "; ".join(out[:3]) if out else "exponent unchanged by representation changes"


def h_exponent_history(ctx, model, reps):
    """the exponent of a model object does not depend on the representations its triplet has been re-expressed in since construction"""
    prm = make_params(ctx, model)
    mdl = MODELS[model](prm)
    # HEM: any real argument; Merton / VG (exp / log of a complex number with a symbolic imaginary part is outside the engine): the arguments
    # -i and -i/2, where the exponent is the real cumulant generating function at 1 and 1/2
    xs = [ctx.real("x")] if model == "HEM" else [-1j, -0.5j]
    if model == "VG":  # the generating function exists at s iff 1 - theta nu s - sigma^2 nu s^2 / 2 > 0
        for sv in (1, Fraction(1, 2)):
            ctx.assume(1 - prm.theta * prm.nu * sv - prm.sigma * prm.sigma * prm.nu * sv * sv / 2 > 0)
    before = [mdl.levy_exponent(x) for x in xs]
    rp = (replay_exponent_history, lambda m: {"model": model, "reps": list(reps)})
    for rep in reps:
        mdl.levy_triplet.set_representation(LevyRepresentation[rep])
    after = [mdl.levy_exponent(x) for x in xs]
    for x, b, a in zip(xs, before, after):
        b, a = SymComplex.lift(b), SymComplex.lift(a)
        ctx.prove("C10.exponent_unchanged_by_representation_changes", AND(EQ(a.re, b.re), EQ(a.im, b.im)), info={"model": model, "reps": list(reps), "x": str(x)}, replay=rp)


def replay_drift(sc):
    m = EXPMODELS[sc["model"]](spot=100.0, r=0.03, d=0.01, parameters=concrete_params(sc["model"]))
    sig = m.levy_triplet.sigma
    pj = complex(m.levy_model.levy_exponent_pure_jump(1.0 + 0j)).real
    got = m.process_drift() + 0.5 * sig**2 + pj
    return abs(got - 0.02) > 1e-12, f"{sc['model']}: process_drift + sigma^2/2 + phi(1) = {got!r}, r - d = 0.02"


def h_martingale(ctx, model):
    spot = ctx.real("spot")
    r, d = ctx.real("r", 0), ctx.real("d", 0)
    ctx.assume(spot > 0)
    if model == "BS":
        sg = ctx.real("sigma", 0)
        prm = BS.BlackScholesParameters(sigma=sg)
    else:
        prm = make_params(ctx, model)
    m = EXPMODELS[model](spot=spot, r=r, d=d, parameters=prm)
    a_declared = m.levy_model.levy_triplet.a  # the drift the model declares, read before anything can re-express the triplet
    sig = m.levy_triplet.sigma
    one = SymComplex(1.0, 0.0)
    pj = m.levy_model.levy_exponent_pure_jump(one)
    pj = pj.re if isinstance(pj, SymComplex) else pj
    info = {"model": model}
    rp = (replay_drift, lambda mm: {"model": model})
    ctx.prove("C10.direct_simulation_drift_makes_discounted_spot_a_martingale", EQ_RATIONAL(m.process_drift() + sig * sig / 2 + pj, r - d), info=info, replay=rp)
    # route 1: omega = -kappa(1) with kappa(1) = a + sigma^2/2 + phi(1)
    a = a_declared
    ctx.prove("C10.omega_is_minus_exponent_at_one", EQ_RATIONAL(m.omega, -(a + sig * sig / 2 + pj)), info=info)
    ctx.prove("C10.model_drift_is_r_minus_d_plus_omega", EQ_RATIONAL(m.drift(), r - d + m.omega), info=info)
    t = ctx.real("t", 0)
    cf = m.log_characteristic_function(t, -1j)
    ctx.prove("C10.characteristic_function_at_minus_i_is_real", cf.is_real() if isinstance(cf, SymComplex) else True, info=info)
    fwd = cf.re if isinstance(cf, SymComplex) else cf
    # E[S_t] = exp(log S0 + t (r - d + omega)) * exp(t kappa(1)): with omega = -kappa(1) the exponents add up to log S0 + t (r - d)
    e1 = shims.sym_exp(shims.sym_log(spot) + t * (r - d))
    shims.sym_exp(shims.sym_log(spot))
    ctx.prove("C10.forward_from_characteristic_function", EQ(fwd, e1), info=info, timeout_ms=60000)


def h_twin(ctx):
    prm = make_params(ctx, "HEM")
    mdl = HEM.HEMModel(prm)
    t = ctx.real("t", 0)
    Jet.ORDER = 2
    pj = Jet.lift(mdl.levy_exponent_pure_jump(Jet.variable(0.0)))
    ctx.prove("C10.twin.cumulant2_without_factor_two", EQ_RATIONAL(mdl.cumulant.cumulant2(t), t * (mdl.levy_triplet.sigma**2 + pj.c[2])))


def concrete_validation():
    out = []
    for model in ("HEM", "MERTON", "VG", "CGMY"):
        for n in (2, 4):
            ok, d = replay_cumulant({"model": model, "n": n})
            out.append((f"C10.concrete.{model}.{n}", not ok, d))
    return out


def harnesses(tier):
    q = tier == "quick"
    hs = [Harness("concrete", concrete_validation, concrete=True)]
    for model in ("HEM", "MERTON", "VG", "CGMY"):
        hs.append(Harness(f"cumulants.{model}", h_cumulants, {"model": model, "order": 6}, max_paths=400, timeout_ms=90000))
    for model in ("HEM", "MERTON", "VG"):
        hs.append(Harness(f"moments.{model}", h_moments, {"model": model}, max_paths=400, timeout_ms=90000))
        hs.append(Harness(f"moments.{model}.reinitialised", h_moments, {"model": model, "reinit": True}, max_paths=400, timeout_ms=90000))
    for case in ("y0", "y1", "neg"):
        hs.append(Harness(f"cgmy.first.{case}", h_cgmy_first, {"case": case}, max_paths=400, timeout_ms=90000))
    L = 2 if q else 3
    for k in range(2, L + 1):
        for seq in itertools.product(range(4), repeat=k):
            if any(seq[i] == seq[i + 1] for i in range(k - 1)):
                continue
            for fv in (True, False):
                hs.append(Harness(f"reps.{''.join(map(str, seq))}.{int(fv)}", h_representations, {"seq": seq, "fv": fv}, max_paths=400))
    for model in ("HEM", "MERTON", "VG"):
        for reps in (("CENTER",), ("ONEONE", "ZERO")) if q else (("CENTER",), ("ONEONE",), ("TILDE",), ("ONEONE", "ZERO"), ("CENTER", "ONEONE")):
            hs.append(Harness(f"history.{model}.{'-'.join(reps)}", h_exponent_history, {"model": model, "reps": reps}, max_paths=400, timeout_ms=60000))
    for model in ("BS", "HEM", "MERTON"):
        hs.append(Harness(f"martingale.{model}", h_martingale, {"model": model}, max_paths=400, timeout_ms=90000))
    hs.append(Harness("twin", h_twin, twin="must_fail"))
    return hs


EXPECT = ["C10.cumulant_is_t_times_derivative_of_exponent_at_zero", "C10.exponent_vanishes_at_zero", "C10.first_derivative_of_exponent_is_first_moment_in_declared_representation",
          "C10.second_derivative_of_exponent_is_second_moment", "C10.representation_conversion_is_path_independent", "C10.representation_conversion_is_reversible",
          "C10.direct_simulation_drift_makes_discounted_spot_a_martingale", "C10.omega_is_minus_exponent_at_one", "C10.forward_from_characteristic_function",
          "C10.exponent_unchanged_by_representation_changes"]


def main(tier):
    bounds = {"histories_and_variants": 'exponent before/after 1-2 representation changes (HEM: symbolic real argument; Merton, VG: arguments -i and -i/2); moments also for parameter objects updated in place and re-initialised (one update)',
              "cumulants": "HEM, Merton, VG, CGMY (y not in {0,1}) with all parameters symbolic; Taylor order 6 (cumulants 1, 2, 4, 6 of every model)",
              "representations": "every sequence of length <= 2 (quick) / 3 (thorough) of the four representations, finite and infinite variation",
              "martingale": "Black-Scholes, HEM, Merton exponential models, all parameters, all t",
              "outside": "equality of the exponent with the Lévy-Khintchine integral away from its Taylor data at 0 (a transcendental integral identity); "
                         "CGMY/VG first-moment link for generic y (CGMY y = 0, y = 1 and y < 0: first derivative against the declared representation is covered); direct simulation of VG/CGMY (not offered)"}
    return run_check(PID, tier, harnesses(tier), expect=EXPECT, bounds=bounds,
                     assumptions=COMMON_ASSUMPTIONS + ["Taylor arithmetic of exp/log/pow (series coefficients) and the gamma/pow functional equations Gamma(s+1) = s Gamma(s), x^a = x^b x^k",
                                                       "abstract measure for the representation conversions"])


if __name__ == "__main__":
    sys.exit(main(sys.argv[1] if len(sys.argv) > 1 else "quick"))
