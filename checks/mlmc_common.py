"""Scripted coupling process / product / criteria driving the real multilevel engine (C05, C06).

The engine, path managers, statistics and results code are the real ones.  The coupling process is a duck-typed stand-in whose
every sample carries fresh symbolic payoffs (f_j, c_j); the convergence-criteria callbacks return solver-chosen sample sizes and
booleans.  Uninitialised numpy cells (np.empty) are fresh symbols, so a placeholder surviving in a result makes an identity fail.
"""
import copy
import math
from fractions import Fraction

import numpy as np

from .common import *  # noqa
from .common import z3, V, shims, SymReal, SymInt, SymBool, AND, OR, NOT, EQ, IMPLIES, Unsupported, PathAbort

import rpylib.montecarlo.multilevel.engine as ME
import rpylib.montecarlo.multilevel.criteria as CR
import rpylib.montecarlo.statistic.statistic as ST
import rpylib.montecarlo.statistic.tools as TOOLS
import rpylib.montecarlo.path as PATH
import rpylib.montecarlo.configuration as CFG
import rpylib.product.product as PROD
import rpylib.product.underlying as UND
from rpylib.montecarlo.statistic.statistic import PT
from rpylib.process.markovchain.markovchainsde import MarkovChainSDE
from rpylib.process.process import ProcessRepresentation


class _ScipyStats:
    @staticmethod
    def moment(samples, moment=1, axis=0):
        a = np.asarray(samples, dtype=object) if shims._has_sym(samples) else None
        if a is None:
            import scipy.stats

            return scipy.stats.moment(samples, moment=moment, axis=axis)
        n = a.shape[0]
        mu = sum(a) / n
        return sum((x - mu) ** moment for x in a) / n


class _ScipyShim:
    stats = _ScipyStats()


class _RangeShim:
    def __call__(self, *args):
        return range(*[a.__index__() if isinstance(a, SymInt) else a for a in args])


shims.install_np(ME, CR, ST, TOOLS, PATH, CFG, PROD)
shims.install(TOOLS, scipy=_ScipyShim())


class Registry:
    """shared by all deep copies of the scripted process"""

    def __init__(self, ctx):
        self.ctx = ctx
        self.samples = {}  # level -> list of (f, c)
        self.calls = []  # (event, level, ...)
        self.costs = {}
        self.next_level_calls = []
        self.max_level_simulated = -1

    def __deepcopy__(self, memo):
        return self


class ScriptedPath:
    """stands for a StochasticJumpPath: value() returns the payoff driver(s)"""

    def __init__(self, value):
        self._v = value

    def times(self):
        return np.array([0.0, 1.0])

    def value(self):
        return self._v

    def value_jump(self):
        return self._v


class ScriptedFine(MarkovChainSDE):
    """isinstance(..., MarkovChainSDE) keeps Engine.initialisation away from the COS pricer"""

    def __init__(self, df):
        self.process_representation = ProcessRepresentation.IDENDITY
        self._df = df

    def deterministic_path(self, times):
        return 0.0

    def df(self, t):
        return self._df


class ScriptedModel:
    process_representation = ProcessRepresentation.IDENDITY

    def dimension_model(self):
        return 1

    def dimension(self):
        return 1


class ScriptedCoupling:
    def __init__(self, reg, df):
        self.reg = reg
        self.model = ScriptedModel()
        self.fine_process = ScriptedFine(df)
        self.level = 0

    def initialisation(self, product, max_step_epsilon=None):
        self.reg.calls.append(("initialisation", self.level))

    def pre_computation(self, mc_paths, product):
        self.reg.calls.append(("pre_computation", self.level, mc_paths))

    def reset_one_simulation_cost(self):
        pass

    def one_simulation_cost(self, product):
        if self.level not in self.reg.costs:
            c = self.reg.ctx.real(f"cost{self.level}", 0)
            self.reg.costs[self.level] = c
        return self.reg.costs[self.level]

    def next_level(self, mc_paths, path_managers, product, max_step_epsilon=None):
        self.level += 1
        self.reg.next_level_calls.append(self.level)
        if path_managers is not None:
            pm = copy.deepcopy(path_managers[-1])
            pm.deterministic_path = lambda times: 0.0
            path_managers.append(pm)

    def simulate_one_path(self):
        ctx = self.reg.ctx
        lst = self.reg.samples.setdefault(self.level, [])
        f = ctx.real(f"f[{self.level},{len(lst)}]")
        lst.append((f, 0.0))
        self.reg.max_level_simulated = max(self.reg.max_level_simulated, self.level)
        return ScriptedPath(f)

    def simulate_one_path_with_coupling(self):
        ctx = self.reg.ctx
        lst = self.reg.samples.setdefault(self.level, [])
        f = ctx.real(f"f[{self.level},{len(lst)}]")
        c = ctx.real(f"c[{self.level},{len(lst)}]")
        lst.append((f, c))
        self.reg.max_level_simulated = max(self.reg.max_level_simulated, self.level)
        arr = np.empty(2, dtype=object)
        arr[PT.FP], arr[PT.CP] = f, c
        return ScriptedPath(arr)


class ScriptedUnderlying:
    def check_consistency(self, process_dimension):
        pass

    def update(self, rep):
        pass


class ScriptedPayoff:
    def __init__(self, dim=1):
        self._dim = dim

    def dimension(self):
        return self._dim


class ScriptedProduct:
    """payoff = identity of the driver value carried by the scripted path, scaled by a symbolic notional"""

    def __init__(self, notional, dim=1):
        self.payoff_underlying = ScriptedUnderlying()
        self.payoff = ScriptedPayoff(dim)
        self.maturity = 1.0
        self.notional = notional

    def update(self, rep):
        pass

    def underlying_value(self, times, path, jump_path):
        return path

    def __call__(self, underlying):
        return self.notional * underlying


class ScriptedCriteria:
    """ConvergenceCriteria whose callbacks are chosen by the solver (bounded)"""

    def __init__(self, ctx, bound, force_first=None, offset=0):
        self.ctx = ctx
        self.bound = bound
        self.offset = offset  # answers are offset + [0, bound]
        self.ns_calls = []
        self.criteria_calls = []
        self.force_first = force_first

    def compute_mc_paths(self, rmse, vl, cl):
        k = len(self.ns_calls)
        n = len(vl)
        if self.force_first is not None and k == 0:
            out = np.array(self.force_first[:n] + [0] * (n - len(self.force_first)), dtype=object)
        else:
            out = np.empty(n, dtype=object)
            for i in range(n):
                out[i] = self.offset + self.ctx.int(f"Ns[{k},{i}]", 0, self.bound).__index__()
        self.ns_calls.append((len(vl), list(out)))
        return out

    def criteria(self, alpha, ml, rmse):
        k = len(self.criteria_calls)
        b = bool(self.ctx.bool(f"converged[{k}]"))
        self.criteria_calls.append((len(ml), b))
        return b


class ScriptedControlUnderlying(ScriptedUnderlying):
    """the control is written on the product's own (scripted) underlying: its value is the payoff underlying handed over"""

    def imply_from_payoff_underlying(self, payoff_underlying_type):
        return lambda times, path, jump_path, payoff_underlying: payoff_underlying


def make_engine(ctx, initial_level, n0, level_max, bound, nb_of_processes=1, offset=0, control_variates=None):
    reg = Registry(ctx)
    df = ctx.real("df", 0)
    notional = ctx.real("notional")
    crit = ScriptedCriteria(ctx, bound, offset=offset)
    cc = CR.ConvergenceCriteria(criteria=crit.criteria, compute_mc_paths=crit.compute_mc_paths)
    cfg = CFG.ConfigurationMultiLevel(convergence_rates=CFG.ConvergenceRates(alpha=1.0, beta=1.0, gamma=1.0), convergence_criteria=cc,
                                      initial_level=initial_level, maximum_level=level_max, initial_mc_paths=n0, seed=None,
                                      nb_of_processes=nb_of_processes, control_variates=control_variates)
    cfg.initialisation_seed = lambda multiprocessing=False: None  # seeding is C08's subject
    eng = ME.Engine(cfg, ScriptedCoupling(reg, df))
    prod = ScriptedProduct(notional)
    return eng, prod, reg, crit, df, notional
