"""Shared set-up for the check modules: import rpylib from /repo with the import-only stubs."""
import importlib
import os
import sys

os.environ.setdefault("SYMPY_GROUND_TYPES", "python")
os.environ.setdefault("MPLBACKEND", "Agg")

VERIF = os.path.dirname(os.path.dirname(os.path.abspath(__file__)))
REPO = os.environ.get("RPYLIB_REPO", "/repo")
for p in (os.path.join(VERIF, "stubs"), REPO):
    if p not in sys.path:
        sys.path.insert(0, p)

import numpy as np  # noqa: E402
import sys as _sys

_sys.set_int_max_str_digits(0)  # rational model values can have thousands of digits
import z3  # noqa: E402

from symx import values as V  # noqa: E402
from symx import shims, special  # noqa: E402
from symx.explorer import Context, PathAbort  # noqa: E402
from symx.runner import Harness, run_check  # noqa: E402
from symx.values import SymReal, SymInt, SymBool, Unsupported, is_sym, term_of, ite  # noqa: E402

COMMON_ASSUMPTIONS = [
    "exact real/integer arithmetic: IEEE rounding is outside the claim unless an obligation says otherwise",
    "numpy object-array semantics (elementwise python operators) for the ufuncs rpylib calls; allocation/ufunc shims are "
    "the identity on concrete inputs (validated by the concrete translator-validation harnesses)",
    "import-only stubs for gmpy2.qdiv (exact rational division) and tqdm (identity iterator), absent from /venv",
    "z3 is trusted for unsat answers; sat answers are replayed on the real code before being reported",
]


def _concrete():
    return getattr(V.get_context(), "concrete", False)


def AND(*xs):
    return V.sym_and(*xs)


def OR(*xs):
    return V.sym_or(*xs)


def NOT(x):
    return V.sym_not(x)


def IMPLIES(a, b):
    return SymBool(z3.Implies(V._bterm(a), V._bterm(b)))


def EQ(a, b):
    """symbolic equality without forking"""
    if not is_sym(a) and not is_sym(b):
        if _concrete() and (isinstance(a, (float, np.floating)) or isinstance(b, (float, np.floating))):
            return bool(abs(a - b) <= 1e-9 * (1.0 + abs(a) + abs(b)))  # float re-execution of a counterexample
        return a == b
    ta, tb, _ = V._both(a, b)
    return SymBool(ta == tb)


def eq_tuple(xs, ys):
    if len(xs) != len(ys):
        return False
    return AND(*[EQ(x, y) for x, y in zip(xs, ys)]) if xs else True


def fl(x):
    """float of a model value or python number"""
    return float(x)


def EQ_RATIONAL(a, b):
    """a == b for rational expressions: cross-multiplied to a polynomial identity (numerator of a - b, sum-of-monomials normal form),
    so that no division reaches the solver; the denominators are non-zero by the harness' assumptions"""
    from symx import measure as M

    if _concrete():
        return EQ(float(a) if not is_sym(a) else a, float(b) if not is_sym(b) else b)
    num, den = M.frac(V.term_of(a) - V.term_of(b))
    num = z3.simplify(num, som=True)
    return SymBool(num == 0)
