"""C09 - closed-form Lévy-measure integrals equal integrals of the model's own density.

The real integrate / integrate_against_x / _xx / _xn methods of the HEM, Merton and Variance-Gamma measures (and tools.integral) run on
symbolic parameters and end points with forward-mode AD (symx/ad.py): dF/db = b^n nu(b), dF/da = -a^n nu(a), F(a,a) = 0 on every
branch, additivity across branches, truncated measures.  By the fundamental theorem of calculus (meta-step) these identities give
F(a,b) = int_a^b x^n nu(x) dx on each branch.
"""
import math
import sys
from fractions import Fraction

import numpy as np

from .common import *  # noqa
from .common import z3, V, shims, Harness, run_check, SymReal, SymInt, SymBool, AND, OR, NOT, EQ, IMPLIES, COMMON_ASSUMPTIONS, Unsupported, PathAbort, EQ_RATIONAL
from symx import ad as AD
from symx import special as S
from symx.ad import Dual, val, der

import rpylib.model.levymodel.levymodel as LM
import rpylib.model.levymodel.mixed.hem as HEM
import rpylib.model.levymodel.mixed.merton as MER
import rpylib.model.levymodel.purejump.variancegamma as VG
import rpylib.tools.integral as TI
import rpylib.model.levymodel.purejump.cgmy as CGMY

PID = "C09"
INF = math.inf


class _Special:
    erf = staticmethod(AD.erf)
    erfc = staticmethod(AD.erfc)
    exp1 = staticmethod(AD.exp1)
    gamma = staticmethod(AD.gamma)
    gammaincc = staticmethod(AD.gammaincc)
    gammainc = staticmethod(AD.gammainc)

    def __getattr__(self, n):
        import scipy.special

        return getattr(scipy.special, n)


class _Scipy:
    special = _Special()


class _ExactFactorial:
    """scipy.special.factorial on a concrete integer array, under exploration: exact integer constants (so that 1.0 / k! is the
    exact rational and not its nearest double: IEEE rounding is outside the claim)"""

    @staticmethod
    def factorial(arr, *a, **kw):
        import scipy.special

        if V.get_context() is None or getattr(V.get_context(), "concrete", False):
            return scipy.special.factorial(arr, *a, **kw)
        flat = np.asarray(arr).reshape(-1)
        out = np.empty(flat.size, dtype=object)
        for i, k in enumerate(flat):
            out[i] = SymReal(z3.RealVal(math.factorial(int(k))))
        return out.reshape(np.shape(arr))

    def __getattr__(self, n):
        import scipy.special

        return getattr(scipy.special, n)


class _ScipyTI:
    special = _ExactFactorial()


shims.install_np(LM, HEM, MER, VG, TI)
shims.install(TI, scipy=_ScipyTI())
shims.install(MER, scipy=_Scipy())
shims.install(VG, spp=_Special())
shims.install_np(CGMY)
shims.install(CGMY, scipy=_Scipy(), sp=_Scipy())


def make_measure(ctx, model):
    if model == "HEM":
        lam = ctx.real("intensity")
        p = ctx.real("p")
        e1, e2 = ctx.real("eta1"), ctx.real("eta2")
        ctx.assume(AND(lam > 0, p > 0, p < 1, e1 > 1, e2 > 0))
        prm = HEM.HEMParameters(sigma=0.1, p=p, eta1=e1, eta2=e2, intensity=lam)
        return HEM._HEMLevyMeasure(prm)
    if model == "MERTON":
        lam, mu, sj = ctx.real("intensity"), ctx.real("mu_j"), ctx.real("sigma_j")
        ctx.assume(AND(lam > 0, mu >= 0, sj > 0))
        prm = MER.MertonParameters(sigma=0.1, mu_j=mu, sigma_j=sj, intensity=lam)
        return MER._MertonLevyMeasure(prm)
    if model == "VG":
        c, lm, lp = ctx.real("c"), ctx.real("lambda_m"), ctx.real("lambda_p")
        ctx.assume(AND(c > 0, lm > 0, lp > 0))
        prm = VG.VGParameters.__new__(VG.VGParameters)
        prm.__dict__.update({"sigma": 0.1, "nu": 1.0, "theta": 0.0, "_c": c, "_lambda_m": lm, "_lambda_p": lp})
        return VG._VGLevyMeasure(prm)
    if model.startswith("CGMY"):
        # CGMY.<branch>: the activity index y is symbolic inside the branch (or the concrete special value)
        c, g, m = ctx.real("c"), ctx.real("g"), ctx.real("m")
        ctx.assume(AND(c > 0, g > 0, m > 0))
        branch = model.split(".")[1]
        if branch == "y0":
            y = 0.0
        elif branch == "y1":
            y = 1.0
        elif branch == "ym1":
            y = -1.0  # a finite-activity index with integer-shaped special functions
        else:
            # one exactly representable value per branch of the activity index (a symbolic y makes every power a two-argument
            # uninterpreted function and the queries do not terminate): y in {-1/2, 1/2, 3/2}
            y = {"neg": -0.5, "01": 0.5, "12": 1.5}[branch]
        prm = CGMY.CGMYParameters.__new__(CGMY.CGMYParameters)
        prm.__dict__.update({"c": c, "g": g, "m": m, "y": y})
        return CGMY._CGMYLevyMeasure(prm)
    raise ValueError(model)


def concrete_measure(model, params=None):
    if model.startswith("CGMY"):
        y = {"neg": -0.5, "01": 0.5, "12": 1.5, "y0": 0.0, "y1": 1.0, "ym1": -1.0}[model.split(".")[1]]
        return CGMY._CGMYLevyMeasure(CGMY.CGMYParameters(c=0.5, g=5.0, m=6.0, y=y))
    if params:
        try:
            if model == "HEM":
                return HEM._HEMLevyMeasure(HEM.HEMParameters(sigma=0.1, p=params["p"], eta1=params["eta1"], eta2=params["eta2"], intensity=params["intensity"]))
            if model == "MERTON":
                return MER._MertonLevyMeasure(MER.MertonParameters(sigma=0.1, mu_j=params["mu_j"], sigma_j=params["sigma_j"], intensity=params["intensity"]))
            prm = VG.VGParameters.__new__(VG.VGParameters)
            prm.__dict__.update({"sigma": 0.1, "nu": 1.0, "theta": 0.0, "_c": params["c"], "_lambda_m": params["lambda_m"], "_lambda_p": params["lambda_p"]})
            return VG._VGLevyMeasure(prm)
        except Exception:
            pass
    if model == "HEM":
        return HEM._HEMLevyMeasure(HEM.HEMParameters(sigma=0.1, p=0.4, eta1=20.0, eta2=25.0, intensity=3.0))
    if model == "MERTON":
        return MER._MertonLevyMeasure(MER.MertonParameters(sigma=0.1, mu_j=0.03, sigma_j=0.05, intensity=3.0))
    return VG._VGLevyMeasure(VG.VGParameters(sigma=0.1, nu=0.06, theta=0.1))


def moment_fn(nu, n, via_xn=False):
    if via_xn:
        return lambda a, b: nu.integrate_against_xn(a, b, n)
    return {0: nu.integrate, 1: nu.integrate_against_x, 2: nu.integrate_against_xx}[n]


def replay_moment(sc):
    from scipy.integrate import quad

    n, via = sc["n"], sc.get("via_xn", False)
    out = []
    pts = {"neg": [(-0.5, -0.2), (-1.0, -0.05)], "pos": [(0.1, 0.4), (0.05, 1.0)], "str": [(-0.3, 0.2)], "neginf": [(-INF, -0.1)], "posinf": [(0.1, INF)],
           "neg0": [(-0.4, 0.0), (-2.0, 0.0)], "pos0": [(0.0, 0.3), (0.0, 2.5)]}[sc["kind"]]
    cases = [(concrete_measure(sc["model"]), pt) for pt in pts]
    if sc.get("interval"):  # the solver's own parameters and interval first
        cases.insert(0, (concrete_measure(sc["model"], sc.get("params")), tuple(sc["interval"])))
    for nu, (a, b) in cases:
        F = moment_fn(nu, n, via)
        try:
            got = float(F(a, b))
        except Exception as e:
            out.append(f"{sc['model']}: moment n={n} over [{a},{b}] raises {type(e).__name__}: {e}")
            continue
        want = quad(lambda x: x**n * nu(x), a, b, limit=200, points=None)[0] if not (a < 0 < b) else \
            quad(lambda x: x**n * nu(x), a, 0, limit=200)[0] + quad(lambda x: x**n * nu(x), 0, b, limit=200)[0]
        if abs(got - want) > 1e-7 * max(1.0, abs(want)):
            out.append(f"{sc['model']}: int_[{a},{b}] x^{n} nu = {want!r} by quadrature of the density, closed form{' (integrate_against_xn)' if via else ''} gives {got!r}")
    return bool(out), "; ".join(out[:2]) if out else "closed forms agree with quadrature"


def ends(ctx, kind):
    if kind == "neg":
        a, b = ctx.real("a"), ctx.real("b")
        ctx.assume(AND(a < b, b < 0))
    elif kind == "pos":
        a, b = ctx.real("a"), ctx.real("b")
        ctx.assume(AND(0 < a, a < b))
    elif kind == "str":
        a, b = ctx.real("a"), ctx.real("b")
        ctx.assume(AND(a < 0, 0 < b))
    elif kind == "neg0":
        a, b = ctx.real("a"), 0.0
        ctx.assume(a < 0)
    elif kind == "pos0":
        a, b = 0.0, ctx.real("b")
        ctx.assume(b > 0)
    elif kind == "neginf":
        a, b = -INF, ctx.real("b")
        ctx.assume(b < 0)
    else:
        a, b = ctx.real("a"), INF
        ctx.assume(a > 0)
    return a, b


def h_moment(ctx, model, n, kind, via_xn=False, attempt=False):
    nu = make_measure(ctx, model)
    F = moment_fn(nu, n, via_xn)
    a, b = ends(ctx, kind)
    def scenario(m):
        sc = {"model": model, "n": n, "kind": kind, "via_xn": via_xn}
        try:
            sc["params"] = {k: m.f(k) for k in ("intensity", "p", "eta1", "eta2", "mu_j", "sigma_j", "c", "lambda_m", "lambda_p") if k in m.symbols}
            sc["interval"] = [a if isinstance(a, float) else m.f(a), b if isinstance(b, float) else m.f(b)]
        except Exception:
            pass
        return sc

    rp = (replay_moment, scenario)
    info = {"model": model, "n": n, "kind": kind, "via_xn": via_xn}
    tag = "C09.xn" if via_xn else ("C09.attempted" if attempt else "C09")
    if kind in ("neg0", "pos0"):
        # an interval ending exactly at 0 (n >= 1): one-sided limit of the open-interval formula, checked through additivity and the derivative in the other end
        x = ctx.real("x")
        ctx.assume(AND(x > a, x < 0) if kind == "neg0" else AND(x > 0, x < b))
        ctx.prove(f"{tag}.interval_ending_at_zero_is_additive", EQ_RATIONAL(F(a, x) + F(x, b), F(a, b)), info=info, replay=rp)
    if not isinstance(b, float):
        Fb = F(a, Dual(b, 1.0))
        want = (b**n if n else 1) * nu(b)
        ctx.prove(f"{tag}.derivative_in_upper_end_is_integrand", EQ_RATIONAL(der(Fb), want), info=info, replay=rp, timeout_ms=30000)
    if not isinstance(a, float):
        Fa = F(Dual(a, 1.0), b)
        want = -(a**n if n else 1) * nu(a)
        ctx.prove(f"{tag}.derivative_in_lower_end_is_minus_integrand", EQ_RATIONAL(der(Fa), want), info=info, replay=rp, timeout_ms=30000)
    if kind in ("neg", "pos"):
        ctx.prove(f"{tag}.empty_interval_has_zero_integral", EQ_RATIONAL(F(a, a), 0.0), info=info, replay=rp)
        c = ctx.real("c")
        ctx.assume(AND(c > b) if kind == "pos" else AND(c > b, c < 0))
        ctx.prove(f"{tag}.additive_over_adjacent_intervals", EQ_RATIONAL(F(a, b) + F(b, c), F(a, c)), info=info, replay=rp)
    if kind == "neginf":
        a2 = ctx.real("a2")
        ctx.assume(a2 < b)
        ctx.prove(f"{tag}.additive_with_infinite_end", EQ_RATIONAL(F(-INF, a2) + F(a2, b), F(-INF, b)), info=info, replay=rp)
    if kind == "posinf":
        b2 = ctx.real("b2")
        ctx.assume(b2 > a)
        ctx.prove(f"{tag}.additive_with_infinite_end", EQ_RATIONAL(F(a, b2) + F(b2, INF), F(a, INF)), info=info, replay=rp)
    if kind == "str" and not (model.startswith("CGMY") and n == 2):  # CGMY second moment: only the straddling closed form; one-sided pieces are quad
        ctx.prove(f"{tag}.straddling_is_sum_of_the_two_sides", EQ_RATIONAL(F(a, b), F(a, 0.0) + F(0.0, b)), info=info, replay=rp)
    if n == 0 and kind in ("neg", "pos") and not via_xn and not model.startswith("CGMY"):
        ctx.prove("C09.mass_nonneg", F(a, b) >= 0, info=info, replay=rp)


def h_xn_dispatch(ctx, model, n):
    """integrate_against_xn(n) agrees with the dedicated moment function (n = 0, 1, 2)"""
    nu = make_measure(ctx, model)
    a, b = ends(ctx, "pos")
    rp = (replay_moment, lambda m: {"model": model, "n": n, "kind": "pos", "via_xn": True})
    ctx.prove("C09.xn_agrees_with_dedicated_moment", EQ_RATIONAL(nu.integrate_against_xn(a, b, n), moment_fn(nu, n)(a, b)), info={"model": model, "n": n}, replay=rp)
    a, b = ends(ctx, "neg")
    rp = (replay_moment, lambda m: {"model": model, "n": n, "kind": "neg", "via_xn": True})
    ctx.prove("C09.xn_agrees_with_dedicated_moment", EQ_RATIONAL(nu.integrate_against_xn(a, b, n), moment_fn(nu, n)(a, b)), info={"model": model, "n": n, "side": "neg"}, replay=rp)


def h_truncated(ctx, model, n):
    nu = make_measure(ctx, model)
    l, r = ctx.real("l"), ctx.real("r")
    ctx.assume(AND(l < 0, r > 0))
    t = LM.TruncatedLevyMeasure(nu, (l, r))
    a, b = ctx.real("a"), ctx.real("b")
    ctx.assume(a < b)
    kinds = AND(OR(b < 0, a > 0))
    ctx.assume(kinds)
    F = moment_fn(t, n)
    G = moment_fn(nu, n)
    aa, bb = V.smax(V.smin(a, r), l), V.smin(V.smax(b, l), r)
    got = F(a, b)
    # the truncated integral is the integral over the intersection [a,b] n [l,r] (empty intersection -> 0)
    lo = a if bool(a >= l) else l
    hi = b if bool(b <= r) else r
    if bool(lo < hi):
        want = G(lo, hi)
    else:
        want = 0.0
    ctx.prove("C09.truncated_integral_is_integral_over_intersection", EQ_RATIONAL(got, want), info={"model": model, "n": n})
    x = ctx.real("x")
    ctx.assume(x != 0)
    dens = t(x)
    outside = bool(OR(x < l, x > r))
    ctx.prove("C09.truncated_density_vanishes_outside", (dens == 0.0) if outside else EQ_RATIONAL(dens, nu(x)), info={"model": model})


def h_twin(ctx):
    nu = make_measure(ctx, "HEM")
    a, b = ends(ctx, "pos")
    Fb = nu.integrate_against_x(a, Dual(b, 1.0))
    ctx.prove("C09.twin.wrong_power", EQ_RATIONAL(der(Fb), b * b * nu(b)))


def concrete_validation():
    out = []
    for model in ("HEM", "MERTON", "VG"):
        for n in (1, 2):
            ok, d = replay_moment({"model": model, "n": n, "kind": "pos"})
            out.append((f"C09.concrete.{model}.{n}", not ok, d))
    return out


def harnesses(tier):
    q = tier == "quick"
    hs = [Harness("concrete", concrete_validation, concrete=True)]
    for model in ("HEM", "MERTON", "VG"):
        for n in (0, 1, 2):
            kinds = ["neg", "pos", "neginf", "posinf"]
            if model in ("HEM", "MERTON") or n >= 1:
                kinds.append("str")
            for kind in kinds:
                # Merton second moment: non-linear identities with erf / exp / sqrt(2 pi) atoms are decided only sometimes within the budget: attempted, not claimed
                att = (model, n) == ("MERTON", 2)
                hs.append(Harness(f"{model}.n{n}.{kind}", h_moment, {"model": model, "n": n, "kind": kind, "attempt": att}, max_paths=400, timeout_ms=12000 if att else 40000))
        for n in (1, 2):
            if (model, n) == ("MERTON", 2):
                continue
            hs.append(Harness(f"trunc.{model}.n{n}", h_truncated, {"model": model, "n": n}, max_paths=2000, batch=20))
    for n in ((1, 2, 3, 4) if q else (1, 2, 3, 4, 5, 6, 7)):
        for kind in ("neg", "pos", "neginf", "posinf", "str", "neg0", "pos0"):
            hs.append(Harness(f"VG.xn{n}.{kind}", h_moment, {"model": "VG", "n": n, "kind": kind, "via_xn": True}, max_paths=400, timeout_ms=40000))
    for model in ("HEM", "MERTON", "VG"):
        for n in (1, 2):
            if (model, n) == ("MERTON", 2):
                continue
            for kind in ("neg0", "pos0"):
                hs.append(Harness(f"{model}.n{n}.{kind}", h_moment, {"model": model, "n": n, "kind": kind}, max_paths=400, timeout_ms=40000))
    # CGMY at the two special activity indices (closed forms in E1 / incomplete gamma with integer shape); other y: see bounds
    for br in ("y0", "y1"):
        for n, kinds in ((0, ("pos", "neg", "neginf", "posinf")), (1, ("pos", "neg", "neginf", "posinf", "str", "neg0", "pos0")), (2, ("str",))):
            for kind in kinds:
                hs.append(Harness(f"CGMY.{br}.n{n}.{kind}", h_moment, {"model": f"CGMY.{br}", "n": n, "kind": kind}, max_paths=400, timeout_ms=40000))
    # CGMY with a negative activity index (finite activity: the mass of intervals touching or containing 0 is finite), y = -1
    for kind in ("pos", "neg", "pos0", "neg0", "str"):
        hs.append(Harness(f"CGMY.ym1.n0.{kind}", h_moment, {"model": "CGMY.ym1", "n": 0, "kind": kind}, max_paths=400, timeout_ms=40000))
    for model in ("HEM", "VG"):
        for n in (0, 1, 2):
            hs.append(Harness(f"xn_dispatch.{model}.{n}", h_xn_dispatch, {"model": model, "n": n}, max_paths=400))
    hs.append(Harness("twin", h_twin, twin="must_fail"))
    return hs


EXPECT = ["C09.derivative_in_upper_end_is_integrand", "C09.derivative_in_lower_end_is_minus_integrand", "C09.empty_interval_has_zero_integral",
          "C09.additive_over_adjacent_intervals", "C09.additive_with_infinite_end", "C09.straddling_is_sum_of_the_two_sides", "C09.mass_nonneg",
          "C09.truncated_integral_is_integral_over_intersection", "C09.xn.derivative_in_upper_end_is_integrand", "C09.xn_agrees_with_dedicated_moment"]
ATTEMPTED = ["C09.attempted." + s for s in ("derivative_in_upper_end_is_integrand", "derivative_in_lower_end_is_minus_integrand", "empty_interval_has_zero_integral",
                                            "additive_over_adjacent_intervals", "additive_with_infinite_end", "straddling_is_sum_of_the_two_sides")]


def _error_replays(tier):
    """reference scenario of every moment harness (same model / order / interval kind), run when its symbolic paths end in an exception"""
    out = {}
    for h in harnesses(tier):
        if h.fn is h_moment:
            out[h.name] = (replay_moment, {"model": h.params["model"], "n": h.params["n"], "kind": h.params["kind"], "via_xn": h.params.get("via_xn", False)})
    return out


def main(tier):
    bounds = {"histories_and_variants": 'VG n = 0 through integrate_against_xn; CGMY y = -1 masses (see CGMY_finite_activity)',
              "models": "HEM, Merton, Variance-Gamma: every parameter value (symbolic), n = 0, 1, 2 (dedicated functions), VG n <= 4 (quick) / 7 (thorough) through integrate_against_xn (one side, infinite ends, straddling, intervals ending exactly at 0)",
              "intervals": "negative side, positive side, straddling zero (where finite), infinite ends; truncation bounds anywhere",
              "CGMY_finite_activity": "activity index y = -1 (every c, g, m): mass of one-sided intervals, of intervals ending exactly at 0 and of straddling intervals",
              "CGMY": "activity index y = 0 and y = 1 (every c, g, m): mass and first moment on one-sided, infinite, straddling and zero-ended intervals, second moment over "
                      "straddling intervals (closed form)",
              "outside": "CGMY for other activity indices (powers with fractional / symbolic exponents: the queries do not terminate) and every generic quadrature fallback "
                         "(scipy.integrate.quad is C code); "
                         "n >= 3 for HEM / Merton (fallback to quad); signs of odd moments"}
    return run_check(PID, tier, harnesses(tier), error_replays=_error_replays(tier), expect=EXPECT, attempted=ATTEMPTED, bounds=bounds,
                     assumptions=COMMON_ASSUMPTIONS + ["derivative rules of exp, erf, E1 (symx/ad.py DERIVATIVE_RULES); exp / sqrt axioms; pi as a constant in (3.14159, 3.1416)",
                                                       "meta-step: F(a,a) = 0 and dF/db = integrand on a branch imply F = integral on that branch (fundamental theorem of calculus)"])


if __name__ == "__main__":
    sys.exit(main(sys.argv[1] if len(sys.argv) > 1 else "quick"))
