"""C13 - state grids are well formed and refinement nests them.

Real CTMCUniformGrid / CTMCGridGeometric / CTMCCredit constructors (truncation root search and geomspace replaced by contract stubs),
CTMCGrid.__init__ / refine on symbolic axes.
"""
import sys
from fractions import Fraction

import numpy as np

from .chain_common import *  # noqa
from .chain_common import (z3, V, shims, A, GS, GG, sym_axis, make_grid, SymReal, SymInt, SymBool, AND, OR, NOT, EQ, IMPLIES, INF, Unsupported, _IntShim)
from .common import Harness, run_check, COMMON_ASSUMPTIONS, PathAbort

PID = "C13"
shims.install(GS, int=_IntShim())


class StubModel:
    def __init__(self, d=1):
        self._d = d

    def dimension_model(self):
        return self._d

    def dimension(self):
        return self._d


_TRUNC = {"lr": None}
_REAL_TRUNC = GS.compute_truncation


def _trunc_stub(model, h, truncation_probability=0.99999):
    if V.get_context() is None or _TRUNC["lr"] is None:
        return _REAL_TRUNC(model=model, h=h, truncation_probability=truncation_probability)
    _TRUNC["seen"] = truncation_probability
    return _TRUNC["lr"]


def replay_truncation_probability(sc):
    """real constructors on a HEM model: the reported end points are the bounds of the requested truncation probability"""
    import rpylib.model.levymodel.mixed.hem as HEM

    model = HEM.HEMModel(HEM.HEMParameters(sigma=0.1, p=0.4, eta1=25.0, eta2=30.0, intensity=3.0))
    out = []
    for prob in (0.9, 0.999):
        want = _REAL_TRUNC(model=model, h=0.01, truncation_probability=prob)
        for name, build in (("CTMCUniformGrid", lambda: GS.CTMCUniformGrid(h=0.01, model=model, truncation_probability=prob)),
                            ("CTMCGridGeometric", lambda: GS.CTMCGridGeometric(h=0.01, model=model, nb_of_points_on_each_side=4, truncation_probability=prob))):
            ax = np.asarray(build().axes[0], dtype=float)
            # the uniform grid rounds the bounds to multiples of h: within h of the requested bounds; the geometric grid ends exactly on them
            tol = 0.01 + 1e-12 if name == "CTMCUniformGrid" else 1e-9
            if abs(ax[0] - want[0]) > tol or abs(ax[-1] - want[1]) > tol:
                out.append(f"{name}(h=0.01, HEM, truncation_probability={prob}): end points ({ax[0]:.5f}, {ax[-1]:.5f}), bounds of that probability ({want[0]:.5f}, {want[1]:.5f})")
    return bool(out), "; ".join(out[:2]) if out else "end points follow the requested truncation probability"


GS.compute_truncation = _trunc_stub


def sym_truncation(ctx, h, max_ratio):
    """contract of compute_truncation: l <= -h/2 < h/2 <= r (roots bracketed by the central cell); bounded so that point counts are small"""
    l, r = ctx.real("l"), ctx.real("r")
    ctx.assume(AND(l < -h / 2, r > h / 2, l > -max_ratio * h, r < max_ratio * h))
    return l, r


def well_formed(ctx, grid, h, l, r, oid, info, rp=None, regions=None):
    ok_all = True
    for ax_i, axis in enumerate(grid.axes):
        piv = grid.origin_coordinate.value if grid.dimension == 1 else grid.origin_coordinate.value[ax_i]
        n = len(axis)
        conds = []
        conds += [axis[i] < axis[i + 1] for i in range(n - 1)]
        if not (0 < piv < n - 1):
            ctx.prove(oid + ".origin_has_both_neighbours", False, info=dict(info, axis=ax_i, points=n, pivot=piv), replay=rp, regions=regions)
            ok_all = False
            continue
        ctx.prove(oid + ".origin_has_both_neighbours", True)
        ctx.prove(oid + ".strictly_increasing", AND(*conds) if conds else True, info=dict(info, axis=ax_i), replay=rp, regions=regions)
        ctx.prove(oid + ".zero_at_origin_index_with_pm_h_neighbours", AND(EQ(axis[piv], 0), EQ(axis[piv - 1], -h), EQ(axis[piv + 1], h)), info=dict(info, axis=ax_i), replay=rp, regions=regions)
        if l is not None:
            ctx.prove(oid + ".ends_at_reported_truncations", AND(EQ(axis[0], l), EQ(axis[n - 1], r), EQ(grid.truncations[ax_i][0], axis[0]), EQ(grid.truncations[ax_i][1], axis[n - 1])),
                      info=dict(info, axis=ax_i), replay=rp, regions=regions)
    ctx.prove(oid + ".step_is_h", EQ(grid.h, h), info=info)
    return ok_all


def replay_uniform(sc):
    import rpylib.model.levymodel.mixed.hem as HEM

    model = HEM.HEMModel(HEM.HEMParameters(sigma=0.1, p=0.4, eta1=20.0, eta2=25.0, intensity=3.0))
    out = []
    for h in (0.2, 0.3, 0.45, 0.6):
        try:
            g = GS.CTMCUniformGrid(h=h, model=model)
        except Exception as e:
            out.append(f"h={h}: raises {type(e).__name__}: {e}")
            continue
        ax, piv = g.axes[0], g.origin_coordinate.value
        if not (0 < piv < len(ax) - 1) or abs(ax[piv - 1] + h) > 1e-12 or abs(ax[piv + 1] - h) > 1e-12:
            out.append(f"CTMCUniformGrid(h={h}, HEM): axis={ax.round(4).tolist()} origin index {piv}: the neighbours of 0 are not -h/+h")
    return bool(out), "; ".join(out[:2]) if out else "uniform grids well formed on HEM for h in 0.2..0.6"


def h_uniform(ctx, d):
    h = ctx.real("h")
    ctx.assume(h > 0)
    l, r = sym_truncation(ctx, h, 4)
    _TRUNC["lr"] = (l, r)
    prob = ctx.real("truncation_probability", 0, 1, lo_strict=True, hi_strict=True)
    try:
        grid = GS.CTMCUniformGrid(h=h, model=StubModel(d), truncation_probability=prob)
    finally:
        _TRUNC["lr"] = None
    ctx.prove("C13.bounds_are_computed_for_the_requested_truncation_probability", _TRUNC.get("seen") is prob or EQ(_TRUNC.get("seen"), prob), info={"grid": "uniform", "d": d},
              replay=(replay_truncation_probability, lambda m: {}))
    nl = grid.origin_coordinate.value if d == 1 else grid.origin_coordinate.value[0]
    nr = len(grid.axes[0]) - nl - 1
    regions = {"fewer_than_two_points_on_a_side": nl < 2 or nr < 2}
    well_formed(ctx, grid, h, l, r, "C13.uniform", {"d": d, "left": nl, "right": nr}, rp=(replay_uniform, lambda m: {}), regions=regions)


def h_fixed(ctx, nb, d):
    h = ctx.real("h")
    ctx.assume(h > 0)
    grid = GS.CTMCUniformGrid.create_from_fixed_nb_of_points(h=h, nb_of_points=nb, dimension=d)
    well_formed(ctx, grid, h, -(nb // 2) * h, (nb // 2) * h, "C13.fixed_size", {"nb": nb, "d": d})
    ax = grid.axes[0]
    ctx.prove("C13.fixed_size.uniform_spacing", AND(*[EQ(ax[i + 1] - ax[i], h) for i in range(len(ax) - 1)]), info={"nb": nb})


def h_geometric(ctx, npts, d, with_bounds):
    h = ctx.real("h")
    ctx.assume(h > 0)
    l, r = ctx.real("l"), ctx.real("r")
    ctx.assume(AND(l < -h, r > h))
    if with_bounds:
        grid = GS.CTMCGridGeometric.create_with_bounds(h=h, truncations=(l, r), dimension=d, nb_of_points_on_each_side=npts)
    else:
        _TRUNC["lr"] = (l, r)
        prob = ctx.real("truncation_probability", 0, 1, lo_strict=True, hi_strict=True)
        try:
            grid = GS.CTMCGridGeometric(h=h, model=StubModel(d), nb_of_points_on_each_side=npts, truncation_probability=prob)
        finally:
            _TRUNC["lr"] = None
        ctx.prove("C13.bounds_are_computed_for_the_requested_truncation_probability", _TRUNC.get("seen") is prob or EQ(_TRUNC.get("seen"), prob), info={"grid": "geometric", "d": d},
                  replay=(replay_truncation_probability, lambda m: {}))
    well_formed(ctx, grid, h, l, r, "C13.geometric", {"npts": npts, "d": d, "with_bounds": with_bounds})
    ctx.prove("C13.geometric.points_per_side", len(grid.axes[0]) == 2 * npts + 1, info={"npts": npts})


def replay_credit(sc):
    import rpylib.model.levymodel.mixed.hem as HEM

    model = HEM.HEMModel(HEM.HEMParameters(sigma=0.1, p=0.4, eta1=20.0, eta2=25.0, intensity=3.0))
    out = []
    for h, a in ((0.05, -0.02), (0.05, -0.04), (0.01, -0.3)):
        try:
            g = GS.CTMCCredit(h=h, level_a=a, model=model)
        except Exception as e:
            out.append(f"h={h}, a={a}: raises {type(e).__name__}: {e}")
            continue
        ax = g.axes[0]
        if not all(x < y for x, y in zip(ax, ax[1:])):
            out.append(f"CTMCCredit(h={h}, level_a={a}, HEM): axis {ax.round(5).tolist()} is not strictly increasing")
    return bool(out), "; ".join(out[:2]) if out else "credit grids increasing"


def replay_credit_mirror(sc):
    import rpylib.model.levymodel.mixed.hem as HEM
    import rpylib.model.levycopulamodel as LCM
    from rpylib.distribution.levycopula import ClaytonCopula

    ms = [HEM.HEMModel(HEM.HEMParameters(sigma=0.1, p=0.2, eta1=40.0, eta2=10.0, intensity=3.0)) for _ in range(2)]
    lcm = LCM.LevyCopulaModel(models=ms, copula=ClaytonCopula(theta=0.7, eta=0.3))
    l, r = _REAL_TRUNC(model=lcm, h=0.05)
    a = 0.8 * l
    try:
        g = GS.CTMCCredit(h=0.05, level_a=[a, a], model=lcm, symmetric_grid=True)
    except Exception as e:
        return False, f"raises {type(e).__name__}: {e}"
    ax = g.axes[0]
    bad = not all(x < y for x, y in zip(ax, ax[1:]))
    return bad, f"CTMCCredit(h=0.05, level_a=[{a:.4f}]*2, HEM(p=0.2, eta1=40, eta2=10) x 2, symmetric): truncation ({l:.4f}, {r:.4f}), axis {ax.round(4).tolist()} is not strictly increasing"


def h_credit(ctx, d, symmetric):
    h = ctx.real("h")
    ctx.assume(h > 0)
    l, r = ctx.real("l"), ctx.real("r")
    ctx.assume(AND(l < -h, r > h))
    if d == 1:
        a = ctx.real("a")
        ctx.assume(AND(a < 0, a > l))
        level = a
        thresholds = [a]
        # level_a must be a float for the isinstance check of the constructor
        shim_float = True
    else:
        thresholds = [ctx.real(f"a{i}") for i in range(d)]
        for a in thresholds:
            ctx.assume(AND(a < 0, a > l))
        level = thresholds
    _TRUNC["lr"] = (l, r)
    try:
        grid = GS.CTMCCredit(h=h, level_a=level, model=StubModel(d), symmetric_grid=symmetric)
    finally:
        _TRUNC["lr"] = None
    below = OR(*[a >= -h for a in thresholds])
    tight_r = OR(*[-a + V.smin(abs(l - a), abs(a + h)) / 2 >= r for a in thresholds]) if (d > 1 and symmetric) else False
    regions = {"threshold_inside_the_first_step": below, "mirror_threshold_beyond_right_truncation": tight_r}
    rp = (replay_credit, lambda m: {})
    for i, axis in enumerate(grid.axes):
        n = len(axis)
        ctx.prove("C13.credit.strictly_increasing", AND(*[axis[k] < axis[k + 1] for k in range(min(n - 1, 6))]), info={"d": d, "symmetric": symmetric, "axis": i}, replay=rp,
                  regions={"threshold_inside_the_first_step": below})
        if n > 7:
            ctx.prove("C13.credit.mirror_part_strictly_increasing", AND(*[axis[k] < axis[k + 1] for k in range(5, n - 1)]), info={"d": d, "axis": i},
                      replay=(replay_credit_mirror, lambda m: {}), regions={"mirror_threshold_beyond_right_truncation": OR(tight_r, below)})
        ctx.prove("C13.credit.zero_at_origin_index_with_pm_h_neighbours", AND(EQ(axis[4], 0), EQ(axis[3], -h), EQ(axis[5], h)), info={"d": d})
        ctx.prove("C13.credit.ends_at_reported_truncations", AND(EQ(axis[0], l), EQ(axis[n - 1], r)), info={"d": d})
        a = thresholds[i]
        ctx.prove("C13.credit.threshold_on_cell_boundary", EQ(grid.middle(axis[1], axis[2]), a), info={"d": d, "axis": i})


def h_refine(ctx, nl, nr, d, k):
    axis, h, pivot = sym_axis(ctx, nl, nr)
    old = list(axis)
    grid = make_grid(h, pivot, [axis] * d if d > 1 else [axis])
    trunc0 = list(grid.truncations)
    for _ in range(k):
        grid.refine()
    f = 2**k
    for i, ax in enumerate(grid.axes):
        piv = grid.origin_coordinate.value if d == 1 else grid.origin_coordinate.value[i]
        ctx.prove("C13.refine.origin_index_doubles", piv == pivot * f, info={"k": k, "d": d})
        ctx.prove("C13.refine.size", len(ax) == (len(old) - 1) * f + 1, info={"k": k})
        ctx.prove("C13.refine.old_states_kept_at_scaled_index", AND(*[EQ(ax[j * f], old[j]) for j in range(len(old))]), info={"k": k, "d": d})
        ctx.prove("C13.refine.strictly_increasing", AND(*[ax[j] < ax[j + 1] for j in range(len(ax) - 1)]), info={"k": k, "d": d})
        if k >= 1:
            # one refinement step earlier: every new state is the grid's own middle of its neighbours
            ctx.prove("C13.refine.new_states_are_cell_boundaries", AND(*[EQ(ax[j], grid.middle(ax[j - 1], ax[j + 1])) for j in range(1, len(ax) - 1, 2)]), info={"k": k, "d": d})
        ctx.prove("C13.refine.truncations_unchanged", AND(EQ(grid.truncations[i][0], trunc0[i][0]), EQ(grid.truncations[i][1], trunc0[i][1]), EQ(ax[0], old[0]), EQ(ax[len(ax) - 1], old[-1])), info={"k": k})
    ctx.prove("C13.refine.h_halves", EQ(grid.h * f, h), info={"k": k})
    if d > 1:
        ctx.prove("C13.refine.axes_refined_independently", all(grid.axes[i] is not grid.axes[j] for i in range(d) for j in range(i)), info={"d": d})


class RootStub:
    """scipy.optimize.root_scalar contract: some root of f inside the bracket (f changes sign on it)"""

    class optimize:
        @staticmethod
        def root_scalar(f, bracket=None, **kw):
            ctx = V.get_context()
            if ctx is None:
                import scipy.optimize as so

                return so.root_scalar(f, bracket=bracket, **kw)
            a, b = bracket
            x = ctx.real("root")
            ctx.assume(AND(x > a, x < b))
            ctx.assume(EQ(f(x), 0))

            class _Sol:
                root = x

            return _Sol


shims.install(GS, scipy=RootStub)


def replay_pstep(sc):
    """the real CTMCGridProbabilityStep on a Merton model: after one refinement the neighbours of 0 are +-h and every new state
    away from the origin splits the mass of its gap in two equal halves"""
    from rpylib.model.levymodel.mixed.merton import MertonModel, MertonParameters

    model = MertonModel(parameters=MertonParameters(sigma=0.1, intensity=2.0, mu_j=0.1, sigma_j=0.3))
    grid = GS.CTMCGridProbabilityStep(h=0.1, model=model, minimum_probability_step=0.2)
    nu = model.levy_triplet.nu.integrate
    bad = []
    for step in range(max(1, sc.get("k", 2))):
        old = np.array(grid.axes[0], dtype=float)
        grid.refine()
        ax = np.array(grid.axes[0], dtype=float)
        if np.any(np.diff(ax) <= 0):
            bad.append(f"after {step + 1} refinement(s) the axis is not strictly increasing around the origin: {ax[max(0, len(ax) // 2 - 4):len(ax) // 2 + 5].round(5).tolist()}")
            break
    piv = int(grid.origin_coordinate.value)
    if not (abs(ax[piv]) < 1e-12 and abs(ax[piv + 1] - grid.h) < 1e-9 and abs(ax[piv - 1] + grid.h) < 1e-9):
        bad.append(f"neighbours of the origin are {ax[piv - 1]!r}, {ax[piv + 1]!r} with h = {grid.h!r}")
    for j in range(1, len(ax) - 1, 2):
        if j in (piv - 1, piv + 1):
            continue
        lm, rm = nu(ax[j - 1], ax[j]), nu(ax[j], ax[j + 1])
        if abs(lm - rm) > 1e-6 * (lm + rm):
            bad.append(f"new state {ax[j]!r} in ({ax[j - 1]!r}, {ax[j + 1]!r}): masses {lm!r} | {rm!r}")
    return bool(bad), "CTMCGridProbabilityStep(h=0.1, Merton, min step 0.2).refine(): " + "; ".join(bad[:3])


def h_refine_pstep(ctx, nl, nr, k):
    """refinement of a probability-step grid (its own `middle`: +-h/2 next to the origin, the equal-mass point elsewhere, found by a
    root search modelled by its contract) over an abstract Lévy measure"""
    axis, h, pivot = sym_axis(ctx, nl, nr)
    model = A.abs_levy_model(ctx, "nu", sigma=0.0, a=0.0, finite_activity=True)
    nu = model.levy_triplet.nu
    # the real constructor, with the two axis builders (root searches over the measure) replaced by the given strictly increasing half axes
    saved = GS.compute_left_axis, GS.compute_right_axis
    GS.compute_left_axis = lambda h, levy_measure, minimum_probability_step: np.array(list(axis[:pivot]), dtype=object)
    GS.compute_right_axis = lambda h, levy_measure, minimum_probability_step: np.array(list(axis[pivot + 1:]), dtype=object)
    try:
        grid = GS.CTMCGridProbabilityStep(h=h, model=model, minimum_probability_step=0.05)
    finally:
        GS.compute_left_axis, GS.compute_right_axis = saved
    ctx.assume(grid.intensity_of_jumps > 0)
    axis = grid.axes[0]
    # positive mass on every gap (otherwise the equal-mass point is not unique and the grid is degenerate)
    for j in range(len(axis) - 1):
        if j not in (pivot - 1, pivot):
            ctx.assume(SymReal((nu.neg_term if j < pivot else nu.pos_term)(0, axis[j], axis[j + 1])) > 0)
    rp = (replay_pstep, lambda m: {"k": k})
    info = {"nl": nl, "nr": nr, "k": k}
    hk = h
    for step in range(k):
        old = list(grid.axes[0])
        grid.refine()
        hk = hk / 2
        ax = grid.axes[0]
        piv = grid.origin_coordinate.value
        ctx.prove("C13.pstep.refine.size_and_origin", AND(len(ax) == 2 * len(old) - 1, piv == pivot * 2 ** (step + 1)), info=info, replay=rp)
        if len(ax) != 2 * len(old) - 1:
            return
        ctx.prove("C13.pstep.refine.old_states_kept_at_scaled_index", AND(*[EQ(ax[2 * j], old[j]) for j in range(len(old))]), info=info, replay=rp)
        ctx.prove("C13.pstep.refine.strictly_increasing", AND(*[ax[j] < ax[j + 1] for j in range(len(ax) - 1)]), info=info, replay=rp)
        ctx.prove("C13.pstep.refine.h_halves_and_origin_neighbours_are_pm_h", AND(EQ(grid.h, hk), EQ(ax[piv], 0), EQ(ax[piv + 1], grid.h), EQ(ax[piv - 1], -grid.h)), info=info, replay=rp)
        conds = []
        for j in range(1, len(ax) - 1, 2):
            if j in (piv - 1, piv + 1):
                continue
            term = nu.neg_term if j < piv else nu.pos_term
            conds.append(EQ(SymReal(term(0, ax[j - 1], ax[j])), SymReal(term(0, ax[j], ax[j + 1]))))
        ctx.prove("C13.pstep.refine.new_states_split_the_gap_mass_in_half", AND(*conds) if conds else True, info=info, replay=rp)


def replay_truncation(sc):
    """real compute_truncation on a 2-d model with different margins: every margin keeps at least the promised share of its mass on
    each side of the central cell"""
    import rpylib.model.levymodel.mixed.hem as HEM
    from rpylib.distribution.levycopula import ClaytonCopula
    import rpylib.model.levycopulamodel as LCMm

    ms = [HEM.HEMModel(HEM.HEMParameters(sigma=0.1, p=0.5, eta1=30.0, eta2=8.0, intensity=3.0)),
          HEM.HEMModel(HEM.HEMParameters(sigma=0.1, p=0.5, eta1=9.0, eta2=35.0, intensity=2.0))]
    lcm = LCMm.LevyCopulaModel(models=ms, copula=ClaytonCopula(theta=0.7, eta=0.3))
    h, prob = 0.05, 0.95
    l, r = _REAL_TRUNC(model=lcm, h=h, truncation_probability=prob)
    bad = []
    for i, m in enumerate(ms):
        nu = m.levy_triplet.nu.integrate
        right = nu(h / 2, r) / nu(h / 2, np.inf)
        left = nu(l, -h / 2) / nu(-np.inf, -h / 2)
        if right < prob - 1e-9 or left < prob - 1e-9:
            bad.append(f"margin {i}: keeps {left:.4f} of its left mass and {right:.4f} of its right mass inside [{l:.4f}, {r:.4f}]")
    return bool(bad), f"compute_truncation(2-d HEM margins with different tails, h={h}, probability {prob}) = ({l:.4f}, {r:.4f}): " + "; ".join(bad)


class _Margins:
    """what compute_truncation reads of a multi-dimensional model"""

    def __init__(self, models):
        self.models = models

    def dimension_model(self):
        return len(self.models)


def h_truncation(ctx, d):
    """the real compute_truncation (root search = root contract) over abstract measures: the bounds bracket the central cell and every
    margin keeps at least the requested share of its mass on each side (exactly the share in dimension 1)"""
    h = ctx.real("h")
    ctx.assume(h > 0)
    prob = Fraction(9, 10)
    models = [A.abs_levy_model(ctx, f"nu{i}", sigma=0.0, a=0.0, finite_activity=True) for i in range(d)]
    for m in models:  # the library divides by the mass of each side
        nu = m.levy_triplet.nu
        ctx.assume(AND(SymReal(nu.pos_term(0, h / 2, INF)) > 0, SymReal(nu.neg_term(0, -INF, -h / 2)) > 0))
    target = models[0] if d == 1 else _Margins(models)
    if d > 1:
        from rpylib.model.levycopulamodel import LevyCopulaModel  # noqa: F401 (isinstance checks inside compute_truncation)
    l, r = _REAL_TRUNC(model=target, h=h, truncation_probability=float(prob))
    rp = (replay_truncation, lambda m: {})
    info = {"d": d}
    ctx.prove("C13.truncation.bounds_bracket_the_central_cell", AND(l < -h / 2, r > h / 2), info=info, replay=rp)
    for i, m in enumerate(models):
        nu = m.levy_triplet.nu
        right_kept, right_all = SymReal(nu.pos_term(0, h / 2, r)), SymReal(nu.pos_term(0, h / 2, INF))
        left_kept, left_all = SymReal(nu.neg_term(0, l, -h / 2)), SymReal(nu.neg_term(0, -INF, -h / 2))
        pr = float(prob)
        if d == 1:
            ctx.prove("C13.attempted.truncation.keeps_exactly_the_promised_share.1d", AND(EQ(right_kept, pr * right_all), EQ(left_kept, pr * left_all)), info=info, replay=rp)
        ctx.prove("C13.truncation.every_margin_keeps_at_least_the_promised_share", AND(right_kept >= pr * right_all, left_kept >= pr * left_all), info=dict(info, margin=i), replay=rp)


def h_twin(ctx):
    axis, h, pivot = sym_axis(ctx, 2, 2)
    grid = make_grid(h, pivot, [axis])
    grid.refine()
    ctx.prove("C13.twin.h_unchanged", EQ(grid.h, h))


def replay_pstep_gaps(sc):
    """real CTMCGridProbabilityStep on HEM: every gap between consecutive states, except the two outermost ones of each side (built by the
    closing rule, not by the probability rule), carries the requested jump probability - on the negative half axis as on the positive one"""
    import rpylib.model.levymodel.mixed.hem as HEM

    model = HEM.HEMModel(HEM.HEMParameters(sigma=0.1, p=0.6, eta1=25.0, eta2=40.0, intensity=5.0))
    step = 0.1
    grid = GS.CTMCGridProbabilityStep(h=0.02, model=model, minimum_probability_step=step)
    ax, piv = np.asarray(grid.axes[0], dtype=float), grid.origin_coordinate.value
    lam = float(model.mass(-np.inf, -0.01) + model.mass(0.01, np.inf))
    out = []
    for side, idx in (("left", range(2, piv - 1)), ("right", range(piv + 1, len(ax) - 3))):
        for j in idx:
            pr = float(model.mass(ax[j], ax[j + 1])) / lam
            if abs(pr - step) > 1e-6:
                out.append(f"{side} gap [{ax[j]:.5f}, {ax[j + 1]:.5f}] carries probability {pr:.4f} (requested {step})")
    return bool(out), f"HEM, h=0.02, minimum_probability_step={step}, {len(ax)} states: " + ("; ".join(out[:3]) if out else "interior gaps carry the requested probability")


def concrete_validation():
    ok, d = replay_pstep_gaps({})
    return [("C13.concrete.pstep_interior_gaps_carry_the_probability_step", not ok, d)]


def harnesses(tier):
    q = tier == "quick"
    hs = [Harness("concrete", concrete_validation, concrete=True)]
    for d in (1, 2):
        hs.append(Harness(f"uniform.{d}", h_uniform, {"d": d}, max_paths=4000, batch=20))
    for nb in ((2, 3, 5) if q else (2, 3, 4, 5, 8, 9)):
        for d in (1, 3):
            hs.append(Harness(f"fixed.{nb}.{d}", h_fixed, {"nb": nb, "d": d}, max_paths=200))
    for npts in ((2, 3) if q else (2, 3, 4, 5)):
        for wb in (True, False):
            hs.append(Harness(f"geometric.{npts}.{wb}", h_geometric, {"npts": npts, "d": 2, "with_bounds": wb}, max_paths=2000))
    for d, sym in ((1, True), (2, True), (2, False), (3, True)):
        hs.append(Harness(f"credit.{d}.{sym}", h_credit, {"d": d, "symmetric": sym}, max_paths=6000, batch=20))
    for nl, nr, d, k in ([(2, 2, 1, 1), (1, 2, 1, 2), (2, 1, 2, 1)] if q else [(2, 2, 1, 1), (1, 2, 1, 2), (2, 1, 2, 1), (3, 3, 1, 2), (2, 2, 1, 3), (2, 2, 3, 2)]):
        hs.append(Harness(f"refine.{nl}.{nr}.{d}.{k}", h_refine, {"nl": nl, "nr": nr, "d": d, "k": k}, max_paths=2000))
    for d in (1, 2, 3):
        hs.append(Harness(f"truncation.{d}", h_truncation, {"d": d}, max_paths=2000))
    for nl, nr, k in (((2, 2, 1), (1, 2, 2)) if q else ((2, 2, 1), (1, 2, 2), (3, 2, 2), (2, 3, 3))):
        hs.append(Harness(f"pstep.refine.{nl}.{nr}.{k}", h_refine_pstep, {"nl": nl, "nr": nr, "k": k}, max_paths=2000))
    hs.append(Harness("twin", h_twin, twin="must_fail"))
    return hs


EXPECT = ["C13.truncation.every_margin_keeps_at_least_the_promised_share", "C13.pstep.refine.new_states_split_the_gap_mass_in_half", "C13.pstep.refine.h_halves_and_origin_neighbours_are_pm_h", "C13.uniform.strictly_increasing", "C13.uniform.zero_at_origin_index_with_pm_h_neighbours", "C13.fixed_size.strictly_increasing", "C13.geometric.strictly_increasing",
          "C13.credit.strictly_increasing", "C13.credit.threshold_on_cell_boundary", "C13.refine.old_states_kept_at_scaled_index", "C13.refine.new_states_are_cell_boundaries",
          "C13.refine.h_halves", "C13.refine.truncations_unchanged", "C13.bounds_are_computed_for_the_requested_truncation_probability"]


# stronger than the property ("a target tail probability" is met by keeping at least the share): reported, not claimed
ATTEMPTED = ["C13.attempted.truncation.keeps_exactly_the_promised_share.1d"]


def main(tier):
    bounds = {"histories_and_variants": 'truncation_probability symbolic in (0, 1) for the uniform and geometric constructors (what reaches compute_truncation)',
              "constructors": "uniform (|l|, r < 4h), fixed size (<= 5/9 points), geometric and geometric-with-bounds (<= 3/5 points per side), credit (d <= 3, symmetric and asymmetric); h, bounds, thresholds arbitrary reals",
              "refinement": "up to 3+3 points, up to 3 refinements, shared-axis storage in 2-d/3-d",
              "outside": "compute_truncation_helper (Brent root search) and np.geomspace are contract stubs; probability-step axes (unbounded root-search loops with bare except); promised tail / per-step probabilities"}
    return run_check(PID, tier, harnesses(tier), expect=EXPECT, attempted=ATTEMPTED, bounds=bounds,
                     assumptions=COMMON_ASSUMPTIONS + ["compute_truncation returns any l < -h/2 < h/2 < r (bracket of its root search)", "np.geomspace returns an arbitrary strictly monotone sequence with the given end points"])


if __name__ == "__main__":
    sys.exit(main(sys.argv[1] if len(sys.argv) > 1 else "quick"))
