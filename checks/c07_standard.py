"""C07 - standard Monte-Carlo price, error and control-variate adjustment are textbook.

The real standard Engine.price, MCPath.process/discount, Product / Forward / Vanilla payoffs, Spot underlying, Statistic, MCStatistics,
statistic.tools (mean, stddev, mc_stddev) and ControlVariates (process, helper_compute_coefficients, compute_coefficients) run against a
scripted process whose simulated paths end in symbolic spot values.
"""
import sys
from fractions import Fraction

import numpy as np

from .common import *  # noqa
from .common import EQ_RATIONAL, z3, V, shims, Harness, run_check, SymReal, SymInt, SymBool, AND, OR, NOT, EQ, IMPLIES, COMMON_ASSUMPTIONS, Unsupported, PathAbort

import rpylib.montecarlo.standard.engine as SE
import rpylib.montecarlo.statistic.statistic as ST
import rpylib.montecarlo.statistic.tools as TOOLS
import rpylib.montecarlo.path as PATH
import rpylib.montecarlo.configuration as CFG
import rpylib.product.product as PROD
import rpylib.product.payoff as PAY
import rpylib.product.underlying as UND
from rpylib.process.process import ProcessRepresentation, Process

shims.install_np(SE, ST, TOOLS, PATH, CFG, PROD, PAY, UND)

PID = "C07"


class SPath:
    def __init__(self, values):
        self._v = values

    def times(self):
        return np.array([0.0, 1.0])

    def value(self):
        return self._v

    def value_jump(self):
        return self._v


class SModel:
    def __init__(self, dim=1):
        self._d = dim

    def dimension(self):
        return self._d

    def dimension_model(self):
        return self._d


class SProcess:
    """public Process interface: every simulated path is (0, s_j) with s_j a fresh symbol"""

    def __init__(self, ctx, df, concrete=None):
        self.ctx = ctx
        self.model = SModel()
        self.process_representation = ProcessRepresentation.IDENDITY
        self._df = df
        self.handed = []
        self.concrete = concrete
        self.calls = []

    def dimension(self):
        return 1

    def initialisation(self, product, max_step_epsilon=None):
        self.calls.append("initialisation")

    def pre_computation(self, mc_paths, product):
        self.calls.append(("pre_computation", mc_paths))

    def deterministic_path(self, times):
        return 0.0

    def df(self, t):
        return self._df

    def simulate_one_path(self):
        j = len(self.handed)
        s = self.ctx.real(f"s{j}") if self.concrete is None else self.concrete[j]
        self.handed.append(s)
        arr = np.empty(2, dtype=object if (self.concrete is None or V.is_sym(s)) else float)
        arr[0], arr[1] = 0.0, s
        return SPath(arr)


def make(ctx, n, strikes, notional, df, cv=None, spot_stats=False, concrete=None, underlying=None):
    proc = SProcess(ctx, df, concrete)
    cfg = CFG.ConfigurationStandard(mc_paths=n, seed=None, control_variates=cv, activate_spot_statistics=spot_stats, nb_of_processes=1)
    cfg.initialisation_seed = lambda multiprocessing=False: None
    eng = SE.Engine(cfg, proc)
    if strikes is None:
        payoff = PAY.Forward(strike=0.0)
    elif len(strikes) == 1:
        payoff = PAY.Vanilla(strike=strikes[0], payoff_type=PAY.PayoffType.CALL)
    else:
        payoff = PAY.Vanilla(strike=np.array(strikes, dtype=object if (concrete is None or any(V.is_sym(k) for k in strikes)) else float), payoff_type=PAY.PayoffType.CALL)
    prod = PROD.Product(payoff_underlying=underlying if underlying is not None else UND.Spot(), payoff=payoff, maturity=1.0, notional=notional)
    return eng, prod, proc


def payoff_oracle(s, strikes, notional, df):
    if strikes is None:
        return [df * notional * s]
    return [df * notional * V.smax(s - k, 0.0) for k in strikes]


def replay_price(sc):
    n, strikes = sc["n"], sc["strikes"]
    ss = [0.8 + 0.37 * j for j in range(n)]
    eng, prod, proc = make(None, n, strikes, 2.0, 0.9, spot_stats=sc.get("spot", False), concrete=ss)
    stats = eng.price(prod)
    price = np.atleast_1d(stats.price())
    err = np.atleast_1d(stats.mc_stddev())
    details = []
    ks = [None] if strikes is None else strikes
    for c, k in enumerate(ks):
        ys = [0.9 * 2.0 * (s if k is None else max(s - k, 0.0)) for s in ss]
        m = sum(ys) / n
        if abs(price[c] - m) > 1e-12:
            details.append(f"component {c}: price {price[c]!r} vs mean of the discounted payoffs {m!r}")
        if n > 1:
            sd = (sum((y - m) ** 2 for y in ys) / (n - 1)) ** 0.5 / n**0.5
            if abs(err[c] - sd) > 1e-12 * max(1, sd):
                details.append(f"component {c}: mc_stddev {err[c]!r} vs sample stddev / sqrt(N) = {sd!r}")
    return bool(details), f"N={n} strikes={strikes} spots={ss}: " + "; ".join(details)


def h_price(ctx, n, ncomp, spot_stats=False):
    df = ctx.real("df", 0)
    notional = ctx.real("notional")
    strikes = None if ncomp == 0 else [ctx.real(f"k{i}") for i in range(ncomp)]
    eng, prod, proc = make(ctx, n, strikes, notional, df, spot_stats=spot_stats)
    stats = eng.price(prod)
    sc_strikes = None if ncomp == 0 else [0.9 + 0.4 * i for i in range(ncomp)]
    rp = (replay_price, lambda m: {"n": n, "strikes": sc_strikes, "spot": spot_stats})
    info = {"n": n, "components": max(ncomp, 1), "spot_stats": spot_stats}
    ctx.prove("C07.simulates_exactly_the_configured_number_of_paths", len(proc.handed) == n, info=info, replay=rp)
    price = np.atleast_1d(stats.price())
    err = np.atleast_1d(stats.mc_stddev()) if n > 1 else None
    ncols = max(ncomp, 1)
    ctx.prove("C07.one_price_per_payoff_component", len(price) == ncols, info=info, replay=rp)
    multi = ncols > 1
    for c in range(min(ncols, len(price))):
        ys = [payoff_oracle(s, strikes, notional, df)[c] for s in proc.handed]
        mean = sum(ys) / n
        ctx.prove("C07.price_is_discounted_mean_of_notional_scaled_payoff", EQ(price[c], mean), info=dict(info, component=c), replay=rp)
        if n > 1:
            var = sum((y - mean) * (y - mean) for y in ys) / (n - 1)
            e = err[c]
            ctx.prove("C07.mc_error_is_unbiased_stddev_over_sqrt_N", AND(e >= 0, EQ(e * e * n, var)), info=dict(info, component=c), replay=rp,
                      regions={"payoff_dimension_gt_1": multi})
    if spot_stats:
        sp = stats._spot_underlying_statistics.stats
        ctx.prove("C07.spot_statistics_hold_the_simulated_spots", AND(*[EQ(sp[j][0], proc.handed[j]) for j in range(n)]), info=info)


# ---- control variates


def replay_cv(sc):
    n = sc["n"]
    ss = [0.8 + 0.37 * j + 0.11 * (j % 2) for j in range(n)]
    xs_price = sc.get("px", 0.7)
    nx = sc.get("nx", 1.0)
    cvprod = PROD.Product(payoff_underlying=UND.Spot(), payoff=PAY.Forward(strike=0.2), maturity=1.0, notional=nx)
    cv = PROD.ControlVariates(products=[cvprod], prices=[xs_price])
    eng, prod, proc = make(None, n, [1.0], 2.0, 0.9, cv=cv, concrete=ss)
    stats = eng.price(prod)
    Y = np.array([0.9 * 2.0 * max(s - 1.0, 0.0) for s in ss])
    X = np.array([0.9 * nx * (s - 0.2) for s in ss])
    b = np.cov(X, Y, bias=True)[0, 1] / np.cov(X, Y, bias=True)[0, 0]
    want = float(np.mean(Y - b * (X - xs_price)))
    got = float(stats.price())
    return abs(got - want) > 1e-10, f"N={n}: control-variate price {got!r} vs mean(Y - b*(X - p)) = {want!r} (b* = {b!r})"


def h_cv(ctx, n):
    df = ctx.real("df", 0)
    notional = ctx.real("notional")
    kx = ctx.real("kx")
    px = ctx.real("price_x")
    nx = ctx.real("notional_x")
    cvprod = PROD.Product(payoff_underlying=UND.Spot(), payoff=PAY.Forward(strike=kx), maturity=1.0, notional=nx)
    cv = PROD.ControlVariates(products=[cvprod], prices=[px])
    eng, prod, proc = make(ctx, n, None, notional, df, cv=cv)
    stats = eng.price(prod)
    rp = (replay_cv, lambda m: {"n": n, "nx": 2.5})
    Y = [df * notional * s for s in proc.handed]
    X = [df * nx * (s - kx) for s in proc.handed]
    mx, my = sum(X) / n, sum(Y) / n
    sxx = sum((x - mx) * (x - mx) for x in X) / n
    sxy = sum((x - mx) * (y - my) for x, y in zip(X, Y)) / n
    ctx.assume(sxx > Fraction(1, 10**6))  # below 1e-12 the library switches the control off
    adj = stats.price()
    raw = stats.price(no_control_variates=True)
    ctx.prove("C07.cv.raw_price_unchanged", EQ(raw, my), info={"n": n}, replay=rp)
    # adjusted mean = mean(Y - b*(X - p)) with b* = sxy/sxx  <=>  (adj - my) * sxx == -sxy * (mx - px)
    ctx.prove("C07.cv.adjusted_price_is_mean_of_Y_minus_bstar_X_minus_price", EQ_RATIONAL((adj - my) * sxx, -sxy * (mx - px)), info={"n": n}, replay=rp)
    # consequence of the identity above (sxx > 0): mean(X) = price_X  =>  adjusted = raw
    ctx.prove("C07.cv.equals_raw_when_control_mean_equals_its_price", IMPLIES(AND(EQ((adj - my) * sxx, -sxy * (mx - px)), EQ(mx, px)), EQ(adj, my)), info={"n": n}, replay=rp)
    st = stats._payoff_statistics_with_cv.stats
    adjs = [st[j][0] for j in range(n)]
    madj = sum(adjs) / n
    var_adj = sum((a - madj) * (a - madj) for a in adjs) / n
    var_raw = sum((y - my) * (y - my) for y in Y) / n
    # Var(adjusted) = Var(Y) - sxy^2/sxx
    ctx.prove("C07.cv.adjusted_variance_is_raw_minus_explained", EQ_RATIONAL((var_raw - var_adj) * sxx, sxy * sxy), info={"n": n}, replay=rp, timeout_ms=60000)


def replay_cv_reuse(sc):
    """one ControlVariates object (a forward on the spot) used for two pricings: first a call on the spot, then a call on the log-spot; the
    second price is mean(Y - b*(X - p)) with X the control's own payoff on the second pricing's paths"""
    ss1, ss2 = [0.8, 1.3, 1.1, 1.9], [1.2, 2.5, 0.7, 1.6, 3.1]
    cvprod = PROD.Product(payoff_underlying=UND.Spot(), payoff=PAY.Forward(strike=0.2), maturity=1.0, notional=2.5)
    cv = PROD.ControlVariates(products=[cvprod], prices=[0.7])
    eng, prod, proc = make(None, len(ss1), [1.0], 2.0, 0.9, cv=cv, concrete=ss1)
    eng.price(prod)
    eng, prod, proc = make(None, len(ss2), [0.3], 2.0, 0.9, cv=cv, concrete=ss2, underlying=UND.LogSpot())
    stats = eng.price(prod)
    Y = np.array([0.9 * 2.0 * max(np.log(x) - 0.3, 0.0) for x in ss2])
    X = np.array([0.9 * 2.5 * (x - 0.2) for x in ss2])
    c = np.cov(X, Y, bias=True)
    want = float(np.mean(Y - c[0, 1] / c[0, 0] * (X - 0.7)))
    got = float(np.ravel(stats.price())[0])
    return abs(got - want) > 1e-9, (f"controls object first used for a call on the spot, then for a call on the log-spot (spots {ss2}): reported price {got!r}, "
                                    f"mean(Y - b*(X - price_X)) with X the forward on the spot = {want!r}")


class SProcess2(SProcess):
    """two assets: every path is ((0, s0_j), (0, s1_j))"""

    def __init__(self, ctx, df, concrete=None):
        super().__init__(ctx, df, concrete)
        self.model = SModel(2)

    def dimension(self):
        return 2

    def simulate_one_path(self):
        j = len(self.handed)
        pair = [self.ctx.real(f"s0_{j}"), self.ctx.real(f"s1_{j}")] if self.concrete is None else list(self.concrete[j])
        self.handed.append(pair)
        arr = np.empty((2, 2), dtype=object if self.concrete is None else float)
        arr[0, 0], arr[1, 0] = 0.0, 0.0
        arr[0, 1], arr[1, 1] = pair
        return SPath(arr)


class BasketForward(PAY.Payoff):
    """scalar payoff of a vector of terminal spots (a user-defined payoff through the public base class): s_0 + s_1 - strike"""

    def __init__(self, strike):
        super().__init__()
        self.strike = strike

    def evaluate(self, underlying):
        return underlying[0] + underlying[1] - self.strike


def _two_asset_run(ctx, n, k, notional, df, kx, nx, px, concrete=None):
    cvprod = PROD.Product(payoff_underlying=UND.NthSpot(1), payoff=PAY.Forward(strike=kx), maturity=1.0, notional=nx)
    cv = PROD.ControlVariates(products=[cvprod], prices=[px])
    proc = SProcess2(ctx, df, concrete)
    cfg = CFG.ConfigurationStandard(mc_paths=n, seed=None, control_variates=cv, nb_of_processes=1)
    cfg.initialisation_seed = lambda multiprocessing=False: None
    eng = SE.Engine(cfg, proc)
    prod = PROD.Product(payoff_underlying=UND.Spot(), payoff=BasketForward(strike=k), maturity=1.0, notional=notional)
    return eng.price(prod), proc


def replay_cv_nthspot(sc):
    """two assets, product = forward on the basket s_0 + s_1 (Spot underlying), control = forward on the first spot (NthSpot(1)): the run completes
    and the control samples are the control's payoff on each path"""
    pairs = [(0.8, 1.1), (1.3, 0.7), (1.1, 1.6), (1.9, 0.9)]
    try:
        stats, proc = _two_asset_run(None, len(pairs), 1.0, 2.0, 0.9, 0.2, 2.5, 0.7, concrete=pairs)
    except Exception as e:
        return True, f"standard engine, two assets, product on Spot, control on NthSpot(1): price() raises {type(e).__name__}: {str(e)[:160]}"
    X = np.asarray(stats._control_variates_statistics.stats, dtype=float).reshape(len(pairs), -1)[:, 0]
    want = np.array([0.9 * 2.5 * (a - 0.2) for a, b in pairs])
    return not np.allclose(X, want, atol=1e-12), f"control samples {X.tolist()} vs the control's payoff on the paths {want.tolist()}"


def h_cv_nthspot(ctx, n=2):
    """a single-asset control (NthSpot) next to a product on all spots: the control is valued from the product's payoff underlying"""
    df, notional, k = ctx.real("df", 0), ctx.real("notional"), ctx.real("k")
    kx, nx, px = ctx.real("kx"), ctx.real("notional_x"), ctx.real("price_x")
    rp = (replay_cv_nthspot, lambda m: {})
    npx = PROD.np
    orig_cov = npx.cov

    def cov_hook(m, y=None, rowvar=True, bias=False, ddof=None, **kw):
        if V.get_context() is None:
            return orig_cov(m, y=y, rowvar=rowvar, bias=bias, ddof=ddof, **kw)
        S = np.empty((2, 2), dtype=object)
        c = len(ctx.symbols)
        S[0, 0], S[1, 1] = ctx.real(f"sxx_{c}"), ctx.real(f"syy_{c}", 0)
        S[0, 1] = S[1, 0] = ctx.real(f"sxy_{c}")
        ctx.assume(S[0, 0] > Fraction(1, 10**6))
        return S

    npx.cov = cov_hook
    try:
        stats, proc = _two_asset_run(ctx, n, k, notional, df, kx, nx, px)
    finally:
        del npx.cov
    X = np.asarray(stats._control_variates_statistics.stats, dtype=object).reshape(n, -1)[:, 0]
    ctx.prove("C07.cv.control_samples_are_the_controls_payoff_on_each_path", AND(*[EQ(X[j], df * nx * (proc.handed[j][0] - kx)) for j in range(n)]), info={"n": n, "control": "NthSpot(1) forward"}, replay=rp)
    raw = np.asarray(stats.price(no_control_variates=True), dtype=object).reshape(-1)
    ctx.prove("C07.cv.raw_price_unchanged", EQ(raw[0], sum(df * notional * (proc.handed[j][0] + proc.handed[j][1] - k) for j in range(n)) / n), info={"payoff": "basket forward"}, replay=rp)


def replay_cv_vector(sc):
    """real standard engine, call with two strikes, two controls (calls with two strikes each, vector prices): the stored control samples are
    [path, control, strike] = the control's payoff for that strike on that path"""
    ss = [0.8, 1.3, 1.1, 1.9, 0.6]
    kx = [[0.9, 1.2], [0.7, 1.5]]
    nxs = [1.0, 1.5]
    cvs = [PROD.Product(payoff_underlying=UND.Spot(), payoff=PAY.Vanilla(strike=np.array(kx[c]), payoff_type=PAY.PayoffType.CALL), maturity=1.0, notional=nxs[c]) for c in range(2)]
    cv = PROD.ControlVariates(products=cvs, prices=[np.array([0.3, 0.2]), np.array([0.5, 0.1])])
    try:
        eng, prod, proc = make(None, len(ss), [1.0, 1.4], 2.0, 0.9, cv=cv, concrete=ss)
        stats = eng.price(prod)
    except Exception as e:
        return True, f"call with two strikes and two vector-strike controls: price() raises {type(e).__name__}: {str(e)[:150]}"
    X = np.asarray(stats._control_variates_statistics.stats, dtype=float)
    want = np.array([[[0.9 * nxs[c] * max(x - kx[c][k], 0.0) for k in range(2)] for c in range(2)] for x in ss])
    bad = X.shape != want.shape or not np.allclose(X, want, atol=1e-12)
    return bad, (f"call with strikes (1.0, 1.4), two controls with strikes {kx}: stored control samples of the first path {X[0].tolist() if X.ndim == 3 else X.shape}, "
                 f"the controls' payoffs [control][strike] on it {want[0].tolist()}")


def h_cv_vector(ctx, n=2):
    """control variates together with a vector of strikes: two strikes, two controls with two strikes each; the covariance matrices the
    regression uses are fresh symbols (cov hook); what is proved is the layout of the stored control samples and the raw price"""
    df, notional = ctx.real("df", 0), ctx.real("notional")
    ks = [ctx.real("k0"), ctx.real("k1")]
    kx = [[ctx.real(f"kx{c}{k}") for k in range(2)] for c in range(2)]
    nxs = [ctx.real("notional_x0"), ctx.real("notional_x1")]
    prices = [np.array([ctx.real(f"px{c}{k}") for k in range(2)], dtype=object) for c in range(2)]
    cvs = [PROD.Product(payoff_underlying=UND.Spot(), payoff=PAY.Vanilla(strike=np.array(kx[c], dtype=object), payoff_type=PAY.PayoffType.CALL), maturity=1.0, notional=nxs[c]) for c in range(2)]
    cv = PROD.ControlVariates(products=cvs, prices=prices)
    spots = [ctx.real(f"s{j}") for j in range(n)]
    ctx.fork_max = True
    eng, prod, proc = make(ctx, n, ks, notional, df, cv=cv, concrete=spots)
    rp = (replay_cv_vector, lambda m: {})
    npx = PROD.np
    orig_cov = npx.cov
    cnt = [0]

    def cov_hook(m, y=None, rowvar=True, bias=False, ddof=None, **kw):
        if V.get_context() is None:
            return orig_cov(m, y=y, rowvar=rowvar, bias=bias, ddof=ddof, **kw)
        cnt[0] += 1
        S = np.empty((3, 3), dtype=object)
        for i in range(3):
            for j in range(i, 3):
                S[i, j] = S[j, i] = ctx.real(f"sig{cnt[0]}_{i}{j}")
        ctx.assume(AND(S[0, 0] > Fraction(1, 10**6), S[1, 1] > Fraction(1, 10**6), S[0, 0] * S[1, 1] - S[0, 1] * S[0, 1] > Fraction(1, 10**6)))
        return S

    npx.cov = cov_hook
    try:
        stats = eng.price(prod)
    finally:
        del npx.cov
    X = np.asarray(stats._control_variates_statistics.stats, dtype=object)
    ok = X.shape == (n, 2, 2)
    terms = []
    if ok:
        for j in range(n):
            for c in range(2):
                for k in range(2):
                    terms.append(EQ(X[j, c, k], df * nxs[c] * shims._smax_fork(spots[j] - kx[c][k], 0.0)))
    ctx.prove("C07.cv.control_samples_are_the_controls_payoff_on_each_path", ok and AND(*terms), info={"n": n, "strikes": 2, "controls": 2}, replay=rp)
    raw = np.asarray(stats.price(no_control_variates=True), dtype=object).reshape(-1)
    for k in range(2):
        ctx.prove("C07.cv.raw_price_unchanged", EQ(raw[k], sum(df * notional * shims._smax_fork(s - ks[k], 0.0) for s in spots) / n), info={"strike": k}, replay=rp)


def replay_cv_log(sc):
    """process simulated in log-spot, product on the spot, control = forward on the log-spot (another underlying type than the product's):
    reported price = mean(Y - b*(X - price_X)) with X the control's own payoff df * notional_x * (log S_T - K)"""
    ls = [-0.2, 0.3, 0.1, 0.6, -0.5]
    cvprod = PROD.Product(payoff_underlying=UND.LogSpot(), payoff=PAY.Forward(strike=0.05), maturity=1.0, notional=2.5)
    cv = PROD.ControlVariates(products=[cvprod], prices=[0.1])
    eng, prod, proc = make(None, len(ls), [1.0], 2.0, 0.9, cv=cv, concrete=ls)
    proc.process_representation = ProcessRepresentation.LOG
    stats = eng.price(prod)
    Y = np.array([0.9 * 2.0 * max(np.exp(x) - 1.0, 0.0) for x in ls])
    X = np.array([0.9 * 2.5 * (x - 0.05) for x in ls])
    c = np.cov(X, Y, bias=True)
    want = float(np.mean(Y - c[0, 1] / c[0, 0] * (X - 0.1)))
    got = float(np.ravel(stats.price())[0])
    return not (abs(got - want) <= 1e-9), (f"log-simulated process (log-spots {ls}), call on the spot, control = forward on the log-spot: reported price {got!r}, "
                                    f"mean(Y - b*(X - price_X)) = {want!r}")


def h_cv_comp(ctx, n, reuse=False, log_process=False):
    """one control, compositional (fast in both directions): (a) the covariance entries the library computes are the biased sample
    covariances; (b) over an arbitrary covariance matrix sigma (fresh symbols) the adjusted samples are Y_j - (sigma_xy/sigma_xx)(X_j - p):
    adjusted mean and adjusted variance follow as polynomial identities of low degree."""
    df = ctx.real("df", 0)
    notional = ctx.real("notional")
    kx, px, nx = ctx.real("kx"), ctx.real("price_x"), ctx.real("notional_x")
    cvprod = PROD.Product(payoff_underlying=UND.Spot(), payoff=PAY.Forward(strike=kx), maturity=1.0, notional=nx)
    cv = PROD.ControlVariates(products=[cvprod], prices=[px])
    spots = [ctx.real(f"s{j}") for j in range(n)]
    k0 = ctx.real("k0")
    ctx.fork_max = True
    if reuse:
        # history: the same controls object has served an earlier pricing of a product on another payoff underlying (the spot); the product
        # priced now is written on the log-spot, the control still is a forward on the spot
        eng0, prod0, proc0 = make(ctx, 2, [1.0], 1.0, df, cv=cv, concrete=[1.0, 2.0])
        eng0.price(prod0)
        for sp in spots:
            ctx.assume(sp > 0)
        eng, prod, proc = make(ctx, n, [k0], notional, df, cv=cv, concrete=spots, underlying=UND.LogSpot())
        rp = (replay_cv_reuse, lambda m: {})
        info = {"n": n, "controls": 1, "reuse": True}
        Y = [df * notional * shims._smax_fork(shims.sym_log(sp) - k0, 0.0) for sp in spots]
    elif log_process:
        # the process is simulated in log-spot (the handed-out values are log S_T); the product is written on the spot, the control on the
        # log-spot: both must be valued in the representation of the process
        cvprod.payoff_underlying = UND.LogSpot()
        eng, prod, proc = make(ctx, n, [k0], notional, df, cv=cv, concrete=spots)
        proc.process_representation = ProcessRepresentation.LOG
        rp = (replay_cv_log, lambda m: {})
        info = {"n": n, "controls": 1, "log_process": True}
        Y = [df * notional * shims._smax_fork(shims.sym_exp(s) - k0, 0.0) for s in spots]
    else:
        eng, prod, proc = make(ctx, n, [k0], notional, df, cv=cv, concrete=spots)
        rp = (replay_cv, lambda m: {"n": max(n, 4), "nx": 2.5})
        info = {"n": n, "controls": 1}
        Y = [df * notional * shims._smax_fork(s - k0, 0.0) for s in spots]
    X = [df * nx * (s - kx) for s in spots]
    mean = lambda v: sum(v) / n
    cov = lambda u, v: sum((a - mean(u)) * (b - mean(v)) for a, b in zip(u, v)) / n
    rows = [X, Y]
    sig = {}
    npx = PROD.np
    orig_cov = npx.cov

    def cov_hook(m, y=None, rowvar=True, bias=False, ddof=None, **kw):
        C = orig_cov(m, y=y, rowvar=rowvar, bias=bias, ddof=ddof, **kw)
        if V.get_context() is None:
            return C  # a replay is running inside an obligation of this harness: plain numpy
        ok = np.shape(C) == (2, 2)
        ctx.prove("C07.cv.covariances_are_biased_sample_covariances", ok and AND(*[EQ(C[i][j], cov(rows[i], rows[j])) for i in range(2) for j in range(2)]), info=info, replay=rp)
        S = np.empty((2, 2), dtype=object)
        for i in range(2):
            for j in range(i, 2):
                S[i, j] = S[j, i] = sig.setdefault((i, j), ctx.real(f"sigma{i}{j}"))
        ctx.assume(S[0, 0] > Fraction(1, 10**6))
        return S

    npx.cov = cov_hook
    try:
        stats = eng.price(prod)
    finally:
        del npx.cov
    sxx, sxy = sig[(0, 0)], sig[(0, 1)]
    my, mx = mean(Y), mean(X)
    adj = stats.price()
    ctx.prove("C07.cv.raw_price_unchanged", EQ(stats.price(no_control_variates=True), my), info=info, replay=rp)
    ctx.prove("C07.cv.adjusted_price_is_mean_of_Y_minus_bstar_X_minus_price", EQ_RATIONAL((adj - my) * sxx, -sxy * (mx - px)), info=info, replay=rp)
    ctx.prove("C07.cv.equals_raw_when_control_mean_equals_its_price", IMPLIES(AND(EQ((adj - my) * sxx, -sxy * (mx - px)), EQ(mx, px)), EQ(adj, my)), info=info, replay=rp)
    st = stats._payoff_statistics_with_cv.stats
    ctx.prove("C07.cv.adjusted_samples_are_Y_minus_bstar_X_minus_price", AND(*[EQ_RATIONAL((st[j][0] - Y[j]) * sxx, -sxy * (X[j] - px)) for j in range(n)]), info=info, replay=rp)


def replay_cv2(sc):
    n = sc["n"]
    ss = [0.8, 1.3, 1.1, 1.9, 0.6, 1.45][:n]
    p = sc.get("p", [0.7, 0.25])
    cv1 = PROD.Product(payoff_underlying=UND.Spot(), payoff=PAY.Forward(strike=0.2), maturity=1.0, notional=1.0)
    cv2 = PROD.Product(payoff_underlying=UND.Spot(), payoff=PAY.Vanilla(strike=1.2, payoff_type=PAY.PayoffType.CALL), maturity=1.0, notional=1.5)
    out = []
    for scale in sc.get("scales", [1.0, 1e-4]):
        # the controls (and their given prices) in units `scale` times smaller: the estimator is invariant under a rescaling of a control
        cv1 = PROD.Product(payoff_underlying=UND.Spot(), payoff=PAY.Forward(strike=0.2), maturity=1.0, notional=1.0 * scale)
        cv2 = PROD.Product(payoff_underlying=UND.Spot(), payoff=PAY.Vanilla(strike=1.2, payoff_type=PAY.PayoffType.CALL), maturity=1.0, notional=1.5 * scale)
        ps = [x * scale for x in p]
        cv = PROD.ControlVariates(products=[cv1, cv2], prices=list(ps))
        eng, prod, proc = make(None, n, [1.0], 2.0, 0.9, cv=cv, concrete=ss)
        stats = eng.price(prod)
        Y = np.array([0.9 * 2.0 * max(s - 1.0, 0.0) for s in ss])
        X = np.array([[0.9 * scale * (s - 0.2) for s in ss], [0.9 * 1.5 * scale * max(s - 1.2, 0.0) for s in ss]])
        c = np.cov(X / scale, Y, bias=True)
        b = (np.linalg.inv(c[:2, :2]) @ c[:2, 2]) / scale
        want = float(np.mean(Y - b @ (X - np.array(ps)[:, None])))
        got = float(stats.price())
        out.append((abs(got - want) > 1e-9, f"two controls (forward K=0.2, notional {scale:g}, at price {ps[0]:g}; call K=1.2, notional {1.5 * scale:g}, at price {ps[1]:g}), spots {ss}: "
                                              f"reported price {got!r}, textbook mean(Y - b*.(X - prices)) = {want!r} with b* = {b.tolist()}"))
    bad = [d for f, d in out if f]
    return bool(bad), (bad[0] if bad else out[0][1])


def replay_cv2_uncorrelated(sc):
    """two controls whose samples are exactly uncorrelated (and each correlated with the payoff)"""
    import numpy as _np

    ss = [1.0, 2.0, 3.0, 4.0]

    class _Und(UND.Spot):
        pass

    # controls as functions of the spot: X1 = (+1,-1,-1,+1)-pattern, X2 = (+1,+1,-1,-1)-pattern through piecewise payoffs is not available;
    # use forward controls on two scripted spot components instead: the scripted process hands out (s, x1, x2) and the controls read x1 / x2
    x1 = [1.0, -1.0, 1.0, -1.0]
    x2 = [1.0, 1.0, -1.0, -1.0]
    y = [2.0 + 0.5 * a + 0.25 * b for a, b in zip(x1, x2)]
    X = _np.array([x1, x2])
    Y = _np.array(y)
    got = PROD.ControlVariates.helper_compute_coefficients(x=X.T.copy(), y=Y.copy(), prices=_np.array([0.3, -0.2]))
    c = _np.cov(X, Y, bias=True)
    b = _np.linalg.inv(c[:2, :2]) @ c[:2, 2]
    want = Y - b @ (X - _np.array([0.3, -0.2])[:, None])
    bad = not _np.allclose(got, want, atol=1e-12)
    return bad, (f"helper_compute_coefficients on exactly uncorrelated controls X1={x1}, X2={x2} (sample covariance 0), Y={y}, prices (0.3, -0.2): adjusted samples "
                 f"{_np.asarray(got).tolist()} vs Y - b*.(X - prices) = {want.tolist()} with b* = {b.tolist()}")


def h_cv2(ctx, n, uncorrelated=False):
    """two controls (forward and call, both with a notional) with plain-float prices.  Compositional: (a) the covariance matrix the
    library computes equals the textbook biased sample covariances entry by entry; (b) with the matrix replaced by fresh symbols
    sigma_ij (any symmetric matrix the library does not switch off), the reported price is my - b*.(mx - prices), b* = Sigma_X^-1 Sigma_XY."""
    df = ctx.real("df", 0)
    notional = ctx.real("notional")
    k1, k2 = ctx.real("kx1"), ctx.real("kx2")
    p1, p2 = ctx.real("price_x1"), ctx.real("price_x2")
    n2 = ctx.real("notional_x2")
    cv1 = PROD.Product(payoff_underlying=UND.Spot(), payoff=PAY.Forward(strike=k1), maturity=1.0, notional=1.0)
    cv2 = PROD.Product(payoff_underlying=UND.Spot(), payoff=PAY.Vanilla(strike=k2, payoff_type=PAY.PayoffType.CALL), maturity=1.0, notional=n2)
    cv = PROD.ControlVariates(products=[cv1, cv2], prices=[p1, p2])
    spots = [ctx.real(f"s{j}") for j in range(n)]
    k0 = ctx.real("k0")
    ctx.fork_max = True  # one path per in/out-of-the-money pattern: every obligation is a polynomial identity
    eng, prod, proc = make(ctx, n, [k0], notional, df, cv=cv, concrete=spots)
    rp = (replay_cv2, lambda m: {"n": max(n, 4)}) if not uncorrelated else (replay_cv2_uncorrelated, lambda m: {})
    info = {"n": n, "controls": 2, "uncorrelated": uncorrelated}
    Y = [df * notional * shims._smax_fork(s - k0, 0.0) for s in spots]
    X1 = [df * (s - k1) for s in spots]
    X2 = [df * n2 * shims._smax_fork(s - k2, 0.0) for s in spots]
    mean = lambda v: sum(v) / n
    cov = lambda u, v: sum((a - mean(u)) * (b - mean(v)) for a, b in zip(u, v)) / n
    rows = [X1, X2, Y]
    sig = {}
    npx = PROD.np
    orig_cov = npx.cov

    def cov_hook(m, y=None, rowvar=True, bias=False, ddof=None, **kw):
        C = orig_cov(m, y=y, rowvar=rowvar, bias=bias, ddof=ddof, **kw)
        if V.get_context() is None:
            return C  # a replay is running inside an obligation of this harness: plain numpy
        ok = np.shape(C) == (3, 3)
        ctx.prove("C07.cv.covariances_are_biased_sample_covariances",
                  ok and AND(*[EQ(C[i][j], cov(rows[i], rows[j])) for i in range(3) for j in range(3)]), info=info, replay=rp)
        S = np.empty((3, 3), dtype=object)
        for i in range(3):
            for j in range(i, 3):
                S[i, j] = S[j, i] = sig.setdefault((i, j), ctx.real(f"sigma{i}{j}"))
        # a control of (numerically) zero variance cannot be used: the library switches the controls off below a variance of 1e-12.  Anything
        # above that with an invertible Sigma_X (positive determinant, however small: rescaling a control must not change the estimator) is in
        eps = Fraction(1, 10**11)
        if uncorrelated:
            S[0, 1] = S[1, 0] = 0.0  # the two controls have zero sample covariance: Sigma_X is diagonal and perfectly invertible
            ctx.assume(AND(S[0, 0] > eps, S[1, 1] > eps))
        else:
            ctx.assume(AND(S[0, 0] > eps, S[1, 1] > eps, S[0, 0] * S[1, 1] - S[0, 1] * S[0, 1] > 0))
        return S

    npx.cov = cov_hook
    try:
        stats = eng.price(prod)
    finally:
        del npx.cov
    adj = stats.price()
    my = mean(Y)
    ctx.prove("C07.cv.raw_price_unchanged", EQ(stats.price(no_control_variates=True), my), info=info, replay=rp)
    s11, s12, s22, s1y, s2y = sig[(0, 0)], (0.0 if uncorrelated else sig[(0, 1)]), sig[(1, 1)], sig[(0, 2)], sig[(1, 2)]
    det = s11 * s22 - s12 * s12
    # b* = Sigma_X^-1 Sigma_XY (Cramer): adjusted mean = my - b1 (mx1 - p1) - b2 (mx2 - p2)
    b1n, b2n = s22 * s1y - s12 * s2y, s11 * s2y - s12 * s1y
    ctx.prove("C07.cv.adjusted_price_is_mean_of_Y_minus_bstar_X_minus_price",
              EQ_RATIONAL((adj - my) * det, -(b1n * (mean(X1) - p1) + b2n * (mean(X2) - p2))), info=info, replay=rp, timeout_ms=90000)


def replay_twice(sc):
    n, k = sc["n"], sc.get("calls", 2)
    ss = [0.8 + 0.37 * j for j in range(n * k)]
    eng, prod, proc = make(None, n, [1.0], 2.0, 0.9, concrete=ss)
    details = []
    for c in range(k):
        stats = eng.price(prod)
        want = sum(0.9 * 2.0 * max(s - 1.0, 0.0) for s in ss[c * n:(c + 1) * n]) / n
        got = float(stats.price())
        if abs(got - want) > 1e-12:
            details.append(f"pricing call {c + 1} on the same Product: price {got!r} vs discounted mean of its own {n} paths {want!r}")
    if prod.notional != 2.0:
        details.append(f"Product.notional changed from 2.0 to {prod.notional!r}")
    return bool(details), f"df=0.9, notional=2: " + "; ".join(details)


def h_twice(ctx, n):
    """the same engine and Product priced twice: every call is the discounted mean of its own paths (nothing carried over)"""
    df = ctx.real("df", 0)
    notional = ctx.real("notional")
    k = ctx.real("k0")
    eng, prod, proc = make(ctx, n, [k], notional, df)
    rp = (replay_twice, lambda m: {"n": n})
    for call in range(2):
        stats = eng.price(prod)
        mine = proc.handed[call * n:(call + 1) * n]
        ctx.prove("C07.simulates_exactly_the_configured_number_of_paths", len(proc.handed) == (call + 1) * n, info={"n": n, "call": call}, replay=rp)
        mean = sum(payoff_oracle(s, [k], notional, df)[0] for s in mine) / n
        ctx.prove("C07.repeated_pricing_uses_only_its_own_paths", EQ(np.atleast_1d(stats.price())[0], mean), info={"n": n, "call": call}, replay=rp)
    ctx.prove("C07.pricing_leaves_the_product_unchanged", AND(EQ(prod.notional, notional), EQ(prod.payoff.strike, k)), info={"n": n}, replay=rp)


def h_twin(ctx):
    eng, prod, proc = make(ctx, 2, None, ctx.real("notional"), ctx.real("df", 0))
    stats = eng.price(prod)
    ctx.prove("C07.twin.sum_instead_of_mean", EQ(stats.price(), proc.handed[0] + proc.handed[1]))


def concrete_validation():
    ok, d = replay_price({"n": 3, "strikes": [1.0]})
    ok2, d2 = replay_cv({"n": 4})
    ok3, d3 = replay_cv({"n": 4, "nx": 2.5})
    ok4, d4 = replay_twice({"n": 3, "calls": 3})
    return [("C07.concrete.price", not ok, d or "price/error equal textbook values on floats"), ("C07.concrete.cv", not ok2, d2),
            ("C07.concrete.cv_notional", not ok3, d3), ("C07.concrete.repeated_pricing", not ok4, d4 or "three pricings of one Product agree with their own paths")]


def harnesses(tier):
    q = tier == "quick"
    hs = [Harness("concrete", concrete_validation, concrete=True)]
    for n in ((1, 2, 3) if q else (1, 2, 3, 4)):
        for ncomp in (0, 1, 2):
            hs.append(Harness(f"price.N{n}.c{ncomp}", h_price, {"n": n, "ncomp": ncomp}, max_paths=4000, batch=10))
    hs.append(Harness("price.spotstats", h_price, {"n": 2, "ncomp": 1, "spot_stats": True}, max_paths=2000))
    for n in ((2,) if q else (2, 3)):
        hs.append(Harness(f"cv.N{n}", h_cv, {"n": n}, max_paths=2000, timeout_ms=90000))
    for n in ((2, 3) if q else (2, 3, 4, 5)):
        hs.append(Harness(f"cv1.N{n}", h_cv_comp, {"n": n}, max_paths=4000, timeout_ms=60000))
    for n in ((3,) if q else (3, 4)):
        hs.append(Harness(f"cv2.N{n}", h_cv2, {"n": n}, max_paths=2000, timeout_ms=120000))
    hs.append(Harness("cvn.N2.single_asset_control_next_to_a_two_asset_product", h_cv_nthspot, {"n": 2}, max_paths=2000, timeout_ms=60000))
    hs.append(Harness("cvv.N1.two_strikes_two_controls", h_cv_vector, {"n": 1}, max_paths=4000, timeout_ms=60000))
    hs.append(Harness("cv1.N2.log_process", h_cv_comp, {"n": 2, "log_process": True}, max_paths=4000, timeout_ms=60000))
    hs.append(Harness("cv1.N2.controls_object_reused", h_cv_comp, {"n": 2, "reuse": True}, max_paths=4000, timeout_ms=60000))
    hs.append(Harness("cv2.uncorrelated.N3", h_cv2, {"n": 3, "uncorrelated": True}, max_paths=2000, timeout_ms=120000))
    for n in ((1, 2) if q else (1, 2, 3)):
        hs.append(Harness(f"twice.N{n}", h_twice, {"n": n}, max_paths=2000))
    hs.append(Harness("twin", h_twin, twin="must_fail"))
    return hs


EXPECT = ["C07.price_is_discounted_mean_of_notional_scaled_payoff", "C07.mc_error_is_unbiased_stddev_over_sqrt_N", "C07.simulates_exactly_the_configured_number_of_paths",
          "C07.cv.adjusted_price_is_mean_of_Y_minus_bstar_X_minus_price", "C07.cv.equals_raw_when_control_mean_equals_its_price",
          "C07.cv.adjusted_variance_is_raw_minus_explained", "C07.cv.covariances_are_biased_sample_covariances", "C07.cv.adjusted_samples_are_Y_minus_bstar_X_minus_price", "C07.repeated_pricing_uses_only_its_own_paths", "C07.pricing_leaves_the_product_unchanged",
          "C07.cv.control_samples_are_the_controls_payoff_on_each_path"]


# reference replays run when the symbolic run of a harness ends in an exception of the code under analysis (see runner.run_check)
ERROR_REPLAYS = {"cv2.uncorrelated": (replay_cv2_uncorrelated, {}), "cv2.": (replay_cv2, {"n": 4}), "cv1.N2.controls_object_reused": (replay_cv_reuse, {}), "cv1.N2.log_process": (replay_cv_log, {}), "cvn.": (replay_cv_nthspot, {}), "cvv.": (replay_cv_vector, {}), "cv": (replay_cv, {"n": 4, "nx": 2.5}),
                 "price.": (replay_price, {"n": 3, "strikes": [0.9, 1.3]}), "twice.": (replay_twice, {"n": 2})}


def main(tier):
    bounds = {"histories_and_variants": 'one ControlVariates object used for two pricings (spot product with 2 concrete paths, then log-spot product with N = 2 symbolic paths); log-simulated process with a control on another underlying type (N = 2); two assets with a scalar basket payoff and a single-asset control (N = 2)',
              "paths": "N <= 3 (quick) / 4 (thorough)", "payoff": "forward, call with scalar strike, call with a vector of 2 strikes; notional, discount factor, strikes arbitrary reals",
              "controls": "one control (forward on the spot, arbitrary notional, strike and price): direct identities N = 2 (quick) / 2, 3 (thorough), compositional N <= 3 / 5; two controls (forward and call with a notional, "
                          "plain-float prices, 2x2 inverse), N = 3 (quick) / 3, 4 (thorough)",
              "repeated pricing": "the same engine and Product priced twice, N <= 2/3",
              "outside": "three or more controls and vector-strike payoffs with controls; worker pools (C08)"}
    return run_check(PID, tier, harnesses(tier), expect=EXPECT, bounds=bounds, error_replays=ERROR_REPLAYS,
                     assumptions=COMMON_ASSUMPTIONS + ["scripted process (public Process interface) handing out fresh symbolic terminal spots", "sqrt as UF with sqrt(t)^2 = t",
                                                       "np.cov / np.std replaced by their definitions on symbolic samples"])


if __name__ == "__main__":
    sys.exit(main(sys.argv[1] if len(sys.argv) > 1 else "quick"))
