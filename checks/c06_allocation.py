"""C06 - sample allocation meets the variance budget; runs stop only on stated criteria.

Pure part: the real compute_mc_paths_giles / criteria_giles on symbolic variance/cost vectors (sqrt as UF with sqrt(t)^2 = t).
Loop part: the real multilevel Engine.price driven by the scripted process and solver-chosen criteria answers (mlmc_common.py).
"""
import sys
from fractions import Fraction

import numpy as np

from .mlmc_common import *  # noqa
from .mlmc_common import (z3, V, shims, SymReal, SymInt, SymBool, AND, OR, NOT, EQ, IMPLIES, Unsupported, PathAbort, make_engine, ME, CR, CFG, ST, PT)
from .common import Harness, run_check, COMMON_ASSUMPTIONS
from .c05_mlmc import _limited, replay_run, _scenario, MAX_PASSES

PID = "C06"


def theta_of_allocation():
    """theta used by compute_mc_paths_giles, read off its behaviour: N(V=C=1, eps=1) = ceil(1/(1-theta)), the argument of ceil is captured"""
    cap = []
    import numpy as _np

    if isinstance(getattr(CR, "THETA", None), float):
        return Fraction(CR.THETA).limit_denominator(10**6)
    orig = CR.np

    class Cap:
        def __getattr__(self, n):
            return getattr(_np, n)

        def ceil(self, x):
            cap.append(_np.array(x, dtype=float))
            return _np.ceil(x)

    CR.np = Cap()
    try:
        CR.compute_mc_paths_giles(1.0, _np.array([1.0]), _np.array([1.0]))
    finally:
        CR.np = orig
    x = float(_np.atleast_1d(cap[0])[0])
    return (1 - 1 / Fraction(x)).limit_denominator(10**6)


def replay_alloc(sc):
    vl = np.array([float(Fraction(v)) for v in sc["V"]])
    cl = np.array([float(Fraction(v)) for v in sc["C"]])
    eps = float(Fraction(sc["eps"]))
    theta = float(Fraction(sc["theta"]))
    N = CR.compute_mc_paths_giles(eps, vl, cl)
    if any(n == 0 and v > 0 for n, v in zip(N, vl)):
        return True, f"compute_mc_paths_giles(eps={eps}, V={vl.tolist()}, C={cl.tolist()}) = {N.tolist()}: a level with positive variance gets 0 samples"
    var = sum(v / n for v, n in zip(vl, N) if n > 0)
    ok = var > (1 - theta) * eps**2 * (1 + 1e-9)
    msg = f"compute_mc_paths_giles(eps={eps}, V={vl.tolist()}, C={cl.tolist()}) = {N.tolist()}: sum V/N = {var!r} vs (1-theta) eps^2 = {(1 - theta) * eps ** 2!r}"
    if all(c > 0 for c in cl):
        x = np.sqrt(vl / cl) * np.sum(np.sqrt(vl * cl)) / ((1 - theta) * eps**2)
        wrong = [i for i in range(len(x)) if not (x[i] * (1 - 1e-12) <= N[i] < x[i] * (1 + 1e-12) + 1)]
        if wrong:
            ok = True
            msg += f"; real-valued optimal sizes {x.tolist()} are not rounded up to {N.tolist()}"
    return ok, msg


def replay_budget(sc):
    theta = float(Fraction(sc["theta"]))
    # tolerance of the bias test: largest rem accepted by criteria_giles for the target rmse (alpha = 1), found by bisection on the real function
    worst = None
    for rmse in [float(Fraction(sc["rmse"]))] if sc.get("rmse") else [1.0, 0.25, 0.01]:
        lo, hi = 0.0, 10.0 * max(1.0, rmse)
        for _ in range(80):
            mid = (lo + hi) / 2
            if CR.criteria_giles(1.0, np.array([mid, mid, mid]), rmse):
                lo = mid
            else:
                hi = mid
        tau = lo / rmse
        tot = tau**2 + (1 - theta)
        if worst is None or tot > worst[0]:
            worst = (tot, tau, rmse)
    tot, tau, rmse = worst
    return tot > 1 + 1e-9, (f"rmse = {rmse!r}: bias tolerance of criteria_giles = {tau:.6f}*rmse, variance share of compute_mc_paths_giles = {1 - theta:.4f}: "
                            f"(tau^2 + (1-theta)) = {tot:.6f} (must be <= 1)")


def h_alloc(ctx, n, zero_cost):
    theta = theta_of_allocation()
    eps = ctx.real("eps")
    ctx.assume(eps > 0)
    Vs = [ctx.real(f"V{i}", 0) for i in range(n)]
    Cs = [ctx.real(f"C{i}", 0) for i in range(n)]
    if not zero_cost:
        for c in Cs:
            ctx.assume(c > 0)
    vl = np.array(Vs, dtype=object)
    cl = np.array(Cs, dtype=object)
    N = CR.compute_mc_paths_giles(eps, vl, cl)
    rp = (replay_alloc, lambda m: {"V": [str(m.frac(f"V{i}")) for i in range(n)], "C": [str(m.frac(f"C{i}")) for i in range(n)], "eps": str(m.frac("eps")), "theta": str(theta)})
    some_zero_cost = OR(*[EQ(c, 0) for c in Cs]) if zero_cost else False
    regions = {"some_level_has_zero_cost": some_zero_cost}
    # no level with positive variance is left without samples; then the variance budget
    for i in range(n):
        ctx.prove("C06.positive_variance_gets_samples", IMPLIES(Vs[i] > 0, N[i] >= 1), info={"n": n, "level": i}, replay=rp, regions=regions)
    if zero_cost:
        return
    # real-valued optimal sizes (Lagrange): x_l = sqrt(V_l / C_l) * sum_j sqrt(V_j C_j) / ((1 - theta) eps^2), written here from the definition
    root = shims.NP.sqrt
    lagr = sum(root(Vs[j] * Cs[j]) for j in range(n)) / ((1 - theta) * eps * eps)
    x = [root(Vs[i] / Cs[i]) * lagr for i in range(n)]
    for i in range(n):
        ctx.prove("C06.sizes_are_rounded_up", AND(N[i] >= x[i], N[i] < x[i] + 1), info={"n": n}, replay=rp)
    # sum_l V_l / x_l == (1-theta) eps^2 on the levels with V_l > 0 (x_l > 0 there), hence sum V_l/N_l <= (1-theta) eps^2
    budget = (1 - theta) * eps * eps
    if not zero_cost:
        pos = [i for i in range(n)]
        cond = AND(*[Vs[i] > 0 for i in pos])
        ctx.assume(cond)  # levels with V_l = 0 contribute nothing; the all-positive case is the binding one
        tot = 0
        for i in pos:
            tot = tot + Vs[i] / x[i]
        ctx.prove("C06.real_valued_allocation_meets_budget_exactly", EQ(tot, budget), info={"n": n, "theta": str(theta)}, replay=rp, timeout_ms=60000)
        totN = 0
        for i in pos:
            totN = totN + Vs[i] / N[i]
        ctx.prove("C06.estimator_variance_within_budget", totN <= budget, info={"n": n, "theta": str(theta)}, replay=rp, timeout_ms=60000)


def h_budget(ctx, alpha):
    """tolerance of the bias test squared + variance share <= rmse^2"""
    theta = theta_of_allocation()
    rmse = ctx.real("rmse")
    ctx.assume(rmse > 0)
    ml = np.array([ctx.real(f"m{i}", 0) for i in range(3)], dtype=object)
    res = CR.criteria_giles(alpha, ml, rmse)
    t = res.t if isinstance(res, SymBool) else None
    if t is None or t.decl().kind() not in (z3.Z3_OP_LE, z3.Z3_OP_GE):
        raise Unsupported(f"criteria_giles did not return a comparison: {res}")
    lhs, rhs = t.children()  # the test is  rem <= tau  (raw, unsimplified comparison term built by the real function)
    if t.decl().kind() == z3.Z3_OP_GE:
        lhs, rhs = rhs, lhs
    rem_oracle = V.smax(V.smax(ml[2], ml[1] / 2**alpha), ml[0] / 2 ** (2 * alpha)) / (2**alpha - 1)
    ctx.prove("C06.bias_test_compares_scaled_last_three_means", EQ(SymReal(lhs), rem_oracle), info={"alpha": alpha})

    def mentions(term, names):
        if z3.is_const(term) and term.decl().kind() == z3.Z3_OP_UNINTERPRETED:
            return term.decl().name() in names
        return any(mentions(c, names) for c in term.children())

    tau = SymReal(rhs)
    rp = (replay_budget, lambda m: {"theta": str(theta), "rmse": str(m.frac("rmse"))})
    ctx.prove("C06.tolerance_depends_only_on_rmse", not mentions(rhs, {"m0", "m1", "m2"}), info={"alpha": alpha})
    ctx.prove("C06.bias_tolerance_squared_plus_variance_share_within_rmse_squared", tau * tau + (1 - theta) * rmse * rmse <= rmse * rmse,
              info={"alpha": alpha, "theta": str(theta)}, replay=rp)


def replay_criteria_short(sc):
    """the real criteria_giles with fewer than three level means (runs started at initial_level 0 or 1 reach their first bias test so)"""
    out = []
    for n in (1, 2):
        ml = np.array([0.4, 0.1][:n])
        try:
            small, large = CR.criteria_giles(1.0, ml, 10.0), CR.criteria_giles(1.0, ml, 1e-6)
        except Exception as e:
            out.append(f"criteria_giles(alpha=1, ml={ml.tolist()}, rmse) raises {type(e).__name__}: {e}")
            continue
        if not bool(small) or bool(large):
            out.append(f"criteria_giles(alpha=1, ml={ml.tolist()}, .) is {bool(small)} for rmse=10 and {bool(large)} for rmse=1e-6")
    return bool(out), "; ".join(out) if out else "bias test defined for 1 and 2 level means"


def h_criteria_short(ctx, n, alpha=1):
    """a run started at initial_level < 2 reaches its first bias test with fewer than three level means: the test is still a comparison of the
    (available) scaled means with a tolerance that depends on rmse only - the run does not die in the stopping test"""
    rmse = ctx.real("rmse")
    ctx.assume(rmse > 0)
    ml = np.array([ctx.real(f"m{i}", 0) for i in range(n)], dtype=object)
    rp = (replay_criteria_short, lambda m: {})
    try:
        res = CR.criteria_giles(alpha, ml, rmse)
    except IndexError as e:
        ctx.prove("C06.bias_test_is_defined_for_every_number_of_levels", False, info={"levels": n, "raised": repr(e)[:100]}, replay=rp)
        return
    ctx.prove("C06.bias_test_is_defined_for_every_number_of_levels", True)
    t = res.t if isinstance(res, SymBool) else None
    if t is None or t.decl().kind() not in (z3.Z3_OP_LE, z3.Z3_OP_GE):
        raise Unsupported(f"criteria_giles did not return a comparison: {res}")
    lhs, rhs = t.children()
    if t.decl().kind() == z3.Z3_OP_GE:
        lhs, rhs = rhs, lhs
    want = ml[n - 1]
    for k in range(1, n):
        want = V.smax(want, ml[n - 1 - k] / 2 ** (k * alpha))
    ctx.prove("C06.bias_test_compares_scaled_last_three_means", EQ(SymReal(lhs), want / (2**alpha - 1)), info={"alpha": alpha, "levels": n}, replay=rp)


def replay_loop(sc):
    ok, detail = replay_run(sc)
    return ok, detail


def h_loop(ctx, il, n0, lm, bound, passes=MAX_PASSES, offset=0):
    """offset: the sample-size answers are offset + [0, bound] (levels of about 100 samples: the 1% rule is per level, a level short of 2
    samples out of 100 is not complete even when the total over the levels is within 1%)"""
    eng, prod, reg, crit, df, notional = make_engine(ctx, il, n0, lm, bound, offset=offset)
    crit.max_calls = passes
    eng.configuration.convergence_criteria.compute_mc_paths = _limited(crit)
    rmse = ctx.real("rmse")
    ctx.assume(rmse > 0)
    import logging

    fell = []

    class H(logging.Handler):
        def emit(self, record):
            if "Initial number of Monte-Carlo paths" in record.getMessage():
                fell.append(1)

    hnd = H()
    logging.getLogger().addHandler(hnd)
    try:
        try:
            stats = eng.price(prod, rmse)
        except ZeroDivisionError:
            raise PathAbort()  # a level holding zero samples when results are computed: nan in float arithmetic, see C05
    finally:
        logging.getLogger().removeHandler(hnd)
    info = {"il": il, "n0": n0, "lm": lm, "passes": len(crit.ns_calls)}
    base_sc = _scenario(ctx, crit, il, n0, lm, bound, offset=offset)
    rp = (replay_loop_facts, lambda m: dict(base_sc(m), what="return"))
    ctx.prove("C06.never_simulates_above_maximum_level", reg.max_level_simulated <= lm, info=info, replay=(replay_loop_facts, lambda m: dict(base_sc(m), what="above_max")))
    nlev = (len(stats.mc_statistics) if stats is not None else max(reg.samples) + 1 if reg.samples else il + 1)
    last_conv = crit.criteria_calls[-1][1] if crit.criteria_calls else False
    tested_levels = crit.criteria_calls[-1][0] if crit.criteria_calls else 0
    proper = (last_conv or tested_levels == lm + 1) and not fell
    ctx.prove("C06.returns_only_when_bias_test_passes_or_maximum_level_reached", proper, info=dict(info, fell_through=bool(fell)), replay=rp,
              regions={"optimal_size_of_new_level_is_zero": bool(fell)})
    if proper and crit.ns_calls:
        n_last, ns_last = crit.ns_calls[-1]
        ok = all(max(0, int(ns_last[l]) - len(reg.samples.get(l, []))) <= 0.01 * len(reg.samples.get(l, [])) for l in range(n_last))
        ctx.prove("C06.every_level_has_its_optimal_size_within_1pct_on_return", ok, info=info, replay=(replay_sizes, _scenario(ctx, crit, il, n0, lm, bound, offset=offset)))


def h_config(ctx, il, n0, lm, passes=3):
    """initial_level above maximum_level: either the configuration is rejected, or no sample is ever simulated above the maximum level
    (checked when the run returns and also when it is cut off by the pass limit of this harness)"""
    try:
        eng, prod, reg, crit, df, notional = make_engine(ctx, il, n0, lm, 1)
    except ValueError:
        ctx.prove("C06.never_simulates_above_maximum_level", True)
        return
    crit.max_calls = passes
    eng.configuration.convergence_criteria.compute_mc_paths = _limited(crit)
    rmse = ctx.real("rmse")
    ctx.assume(rmse > 0)
    try:
        eng.price(prod, rmse)
    except (PathAbort, ZeroDivisionError, ValueError, IndexError):
        pass
    base_sc = _scenario(ctx, crit, il, n0, lm, 1)
    ctx.prove("C06.never_simulates_above_maximum_level", reg.max_level_simulated <= lm, info={"il": il, "n0": n0, "lm": lm, "configuration": "initial_level > maximum_level"},
              replay=(replay_loop_facts, lambda m: dict(base_sc(m), what="above_max")))


def replay_exit(sc):
    """real engine with the scenario's answers: did it leave through the 'paths probably too low' fall-through below maximum_level?"""
    import logging

    fell = []

    class H(logging.Handler):
        def emit(self, record):
            if "Initial number of Monte-Carlo paths" in record.getMessage():
                fell.append(1)

    hnd = H()
    logging.getLogger().addHandler(hnd)
    try:
        try:
            replay_run(sc)
        except ZeroDivisionError:
            pass
    finally:
        logging.getLogger().removeHandler(hnd)
    return bool(fell), f"initial_level={sc['initial_level']} N0={sc['n0']} level_max={sc['level_max']} answers={sc['ns']} {sc['conv']}: price() left the loop without a passing bias test below the maximum level (warning 'Initial number of Monte-Carlo paths is probably too low')"


def replay_loop_facts(sc):
    """real engine with the scenario's answers: highest level simulated, and whether the run returned on a passing bias test or at the
    maximum level"""
    import logging
    from .c05_mlmc import run_scenario

    fell = []

    class H(logging.Handler):
        def emit(self, record):
            if "Initial number of Monte-Carlo paths" in record.getMessage():
                fell.append(1)

    hnd = H()
    logging.getLogger().addHandler(hnd)
    try:
        try:
            stats, reg, crit = run_scenario(sc, keep_on_abort=sc.get("what") == "above_max")
        except (ZeroDivisionError, PathAbort):
            return False, "run did not complete"
        except ValueError as e:
            return False, f"configuration rejected: {e}"
    finally:
        logging.getLogger().removeHandler(hnd)
    lm = sc["level_max"]
    head = f"initial_level={sc['initial_level']} N0={sc['n0']} level_max={lm} answers={sc['ns']} {sc['conv']}: "
    if sc.get("what") == "above_max":
        return reg.max_level_simulated > lm, head + f"samples were simulated at level {reg.max_level_simulated}, above maximum_level = {lm}"
    last_conv = crit.criteria_calls[-1][1] if crit.criteria_calls else False
    tested = crit.criteria_calls[-1][0] if crit.criteria_calls else 0
    proper = (last_conv or tested == lm + 1) and not fell
    return (not proper), head + (f"price() returned with the last bias test {'passing' if last_conv else 'failing'} on {tested} level(s)"
                                 + (" through the 'Initial number of Monte-Carlo paths is probably too low' exit" if fell else ""))


def replay_sizes(sc):
    """real engine with the scenario's answers: on return, is every level within 1% of the allocation computed last?"""
    from .c05_mlmc import run_scenario

    try:
        stats, reg, crit = run_scenario(sc)
    except (ZeroDivisionError, PathAbort):
        return False, "run did not complete"
    if not crit.ns_calls:
        return False, "no allocation was computed"
    n_last, ns_last = crit.ns_calls[-1]
    bad = []
    for l in range(n_last):
        have = len(reg.samples.get(l, []))
        if max(0, int(ns_last[l]) - have) > 0.01 * have:
            bad.append(f"level {l}: {have} samples simulated, last allocation asks for {int(ns_last[l])}")
    return bool(bad), (f"initial_level={sc['initial_level']} N0={sc['n0']} level_max={sc['level_max']} answers={sc['ns']} {sc['conv']}: price() returned although "
                       + "; ".join(bad))


def h_twin(ctx):
    """sensitivity twin: a variance share of (1-theta/2) must break the budget identity"""
    theta = theta_of_allocation()
    eps = ctx.real("eps")
    ctx.assume(eps > 0)
    Vs = [ctx.real(f"V{i}") for i in range(2)]
    Cs = [ctx.real(f"C{i}") for i in range(2)]
    for v in Vs + Cs:
        ctx.assume(v > 0)
    root = shims.NP.sqrt
    lagr = sum(root(Vs[j] * Cs[j]) for j in range(2)) / ((1 - theta) * eps * eps)
    x = [root(Vs[i] / Cs[i]) * lagr for i in range(2)]
    ctx.prove("C06.twin.wrong_share", EQ(Vs[0] / x[0] + Vs[1] / x[1], (1 - theta / 2) * eps * eps))


def replay_regressed_rates(sc):
    """real engine with the convergence rates left to the regression (alpha = beta = gamma = None), three levels, one level whose
    differences are exactly zero (log2 of a zero mean / variance is -inf: the regressed rate falls back to its floor): the run returns a
    finite price equal to the sum of the level means.  (The regression itself - numpy lstsq - is outside the solver claim: concrete run.)"""
    from .mlmc_common import ScriptedCoupling, ScriptedProduct, Registry

    class Ctx:
        def __init__(self):
            self.k = 0

        def real(self, name, lo=None, hi=None):
            self.k += 1
            if name.startswith("cost"):
                return 1.0 + int(name[4:])
            if name.startswith("f[1") or name.startswith("c[1"):
                return 0.25  # level 1: fine == coarse on every path
            return float(np.sin(1.7 * self.k) + 0.3 * self.k % 1.3)

    reg = Registry(Ctx())
    cc = CR.ConvergenceCriteria(criteria=CR.criteria_giles, compute_mc_paths=CR.compute_mc_paths_giles)  # the library's own criteria
    cfg = CFG.ConfigurationMultiLevel(convergence_rates=CFG.ConvergenceRates(alpha=None, beta=None, gamma=None), convergence_criteria=cc,
                                      initial_level=2, maximum_level=3, initial_mc_paths=4, nb_of_processes=1)
    cfg.initialisation_seed = lambda multiprocessing=False: None
    eng = ME.Engine(cfg, ScriptedCoupling(reg, 0.9))
    try:
        stats = eng.price(ScriptedProduct(2.0), 50.0)
    except Exception as e:
        return True, f"rates regressed, level 1 with zero differences: price() raises {type(e).__name__}: {str(e)[:120]}"
    want = sum(sum(0.9 * 2.0 * (f - c) for f, c in S) / len(S) for S in reg.samples.values() if S)
    got = float(np.ravel(stats.price())[0])
    bad = not np.isfinite(got) or abs(got - want) > 1e-9 * max(1.0, abs(want))
    return bool(bad), f"rates regressed, level 1 with zero differences: price {got!r}, sum of the level means {want!r}, N_l = {np.asarray(stats.mlmc_results.Nl).tolist()}"


def concrete_validation():
    N = CR.compute_mc_paths_giles(0.1, np.array([1.0, 0.5]), np.array([1.0, 2.0]))
    th = float(theta_of_allocation())
    ok = sum(v / n for v, n in zip([1.0, 0.5], N)) <= (1 - th) * 0.01
    bad, detail = replay_regressed_rates({})
    return [("C06.concrete.allocation", bool(ok), f"shimmed module on floats: N={N.tolist()} theta={th}"),
            ("C06.concrete.regressed_rates_with_a_zero_level", not bad, detail)]


def harnesses(tier):
    q = tier == "quick"
    hs = [Harness("concrete", concrete_validation, concrete=True)]
    for n in ((1, 2) if q else (1, 2, 3)):
        hs.append(Harness(f"alloc.{n}", h_alloc, {"n": n, "zero_cost": False}, max_paths=2000, timeout_ms=90000))
        hs.append(Harness(f"alloc.zero.{n}", h_alloc, {"n": n, "zero_cost": True}, max_paths=4000))
    for alpha in (1, 2):
        hs.append(Harness(f"budget.{alpha}", h_budget, {"alpha": alpha}, max_paths=200))
    for n in (1, 2):
        hs.append(Harness(f"criteria.levels{n}", h_criteria_short, {"n": n}, max_paths=200))
    cfgs = [(0, 1, 1, 2, 4), (1, 1, 1, 2, 4), (1, 1, 2, 1, 4)] if q else \
        [(0, 1, 1, 3, 4), (0, 2, 1, 3, 4), (1, 1, 1, 3, 4), (1, 1, 2, 2, 3), (1, 2, 2, 3, 2), (2, 1, 3, 1, 4), (0, 1, 2, 2, 3), (0, 3, 0, 4, 5)]
    for il, n0, lm, b, ps in cfgs:
        hs.append(Harness(f"loop.L{il}.N{n0}.M{lm}.B{b}.P{ps}", h_loop, {"il": il, "n0": n0, "lm": lm, "bound": b, "passes": ps}, max_paths=120000 if not q else 30000, batch=10))
    hs.append(Harness("loop.large.L1.N100.M1.B2.P2", h_loop, {"il": 1, "n0": 100, "lm": 1, "bound": 2, "passes": 2, "offset": 100}, max_paths=30000, batch=4))
    for il, lm in ((1, 0), (2, 1)):
        hs.append(Harness(f"config.L{il}.M{lm}", h_config, {"il": il, "n0": 1, "lm": lm}, max_paths=4000, batch=10))
    hs.append(Harness("twin", h_twin, twin="must_fail"))
    return hs


EXPECT = ["C06.positive_variance_gets_samples", "C06.sizes_are_rounded_up", "C06.real_valued_allocation_meets_budget_exactly",
          "C06.estimator_variance_within_budget", "C06.bias_tolerance_squared_plus_variance_share_within_rmse_squared",
          "C06.never_simulates_above_maximum_level", "C06.every_level_has_its_optimal_size_within_1pct_on_return", "C06.returns_only_when_bias_test_passes_or_maximum_level_reached",
          "C06.bias_test_is_defined_for_every_number_of_levels"]


def main(tier):
    bounds = {"histories_and_variants": 'bias test with 1, 2 and 3 level means; loop with levels of 100 samples and answers 100 + [0, 2] (2 passes); concrete reference only (outside the solver claim): rates regressed by lstsq with one level of exactly zero differences',
              "allocation": "variance/cost vectors of length <= 2 (quick) / 3 (thorough), all non-negative reals incl. zeros, all rmse > 0",
              "loop": "as C05: initial_level <= 1/2, level_max <= initial+1/+2; quick: answers in [0,2] (two levels) / [0,1] (three levels), 4 passes; thorough: per configuration "
                      "(answers bound, passes) from ([0,3], 4) on one or two levels down to ([0,1], 4) / ([0,2], 3) / ([0,3], 2) on three and four levels",
              "outside": "termination for unbounded sample-size answers (needs a bound on the callbacks, not a property of the loop); regression of alpha"}
    return run_check(PID, tier, harnesses(tier), expect=EXPECT, bounds=bounds,
                     assumptions=COMMON_ASSUMPTIONS + ["sqrt as UF with sqrt(t)^2 = t, sqrt(t) >= 0", "theta is read off compute_mc_paths_giles itself (argument of ceil for V=C=eps=1)"])


if __name__ == "__main__":
    sys.exit(main(sys.argv[1] if len(sys.argv) > 1 else "quick"))
