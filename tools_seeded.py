"""Run the registered checks against every kept seeded change: apply /verif/seeded/<name>/patch.diff to /repo, run the quick (or
thorough) command of the property it breaks, undo (git checkout -- .).  Prints one line per seed and writes seeded/RESULTS.md.
usage: .venv/bin/python tools_seeded.py [quick|thorough] [name ...]
"""
import glob
import json
import os
import subprocess
import sys
import time

HERE = os.path.dirname(os.path.abspath(__file__))
REPO = "/repo"


def run(cmd, **kw):
    return subprocess.run(cmd, shell=True, capture_output=True, text=True, **kw)


def main():
    tier = "quick"
    names = []
    for a in sys.argv[1:]:
        if a in ("quick", "thorough"):
            tier = a
        else:
            names.append(a)
    assert run(f"git -C {REPO} status --porcelain").stdout.strip() == "", "/repo has uncommitted changes"
    rows = []
    for d in sorted(glob.glob(os.path.join(HERE, "seeded", "*"))):
        if not os.path.isdir(d) or (names and os.path.basename(d) not in names):
            continue
        meta = json.load(open(os.path.join(d, "meta.json")))
        patch = os.path.join(d, "patch.diff")
        r = run(f"git -C {REPO} apply {patch}")
        if r.returncode != 0:
            rows.append((os.path.basename(d), meta["property"], "patch does not apply", "", 0))
            continue
        try:
            props = meta.get("checks", [meta["property"]])
            verdicts = []
            t0 = time.time()
            for p in props:
                rr = run(f"./vcheck {p} {tier}", cwd=HERE, timeout=3600)
                viol = [l for l in rr.stdout.splitlines() if l.startswith("VIOLATION")]
                verdicts.append(f"{p}: exit {rr.returncode}, {len(viol)} VIOLATION line(s)" + (f" [{viol[0].split('replay=')[1].split('/')[-1][:60]}]" if viol else ""))
            caught = any("exit 1" in v for v in verdicts)
            rows.append((os.path.basename(d), meta["property"], "CAUGHT" if caught else "missed", "; ".join(verdicts), round(time.time() - t0, 1)))
        finally:
            run(f"git -C {REPO} checkout -- .")
        print(rows[-1], flush=True)
    with open(os.path.join(HERE, "seeded", f"RESULTS_{tier}.md"), "w") as fh:
        fh.write(f"| seeded change | property | {tier} verdict | details | s |\n|---|---|---|---|---|\n")
        for r in rows:
            fh.write("| " + " | ".join(str(x) for x in r) + " |\n")
    print(f"{sum(1 for r in rows if r[2] == 'CAUGHT')}/{len(rows)} caught")


if __name__ == "__main__":
    main()
