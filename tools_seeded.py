"""Run the registered checks against every kept seeded change.

Each seed (/verif/seeded/<name>/patch.diff) is applied to a scratch git worktree of /repo's HEAD under /tmp (never to /repo itself
while other checks may be reading it), the quick (or thorough) command of the property it breaks is run with RPYLIB_REPO pointing
at that worktree and VERIF_OUT at a scratch directory (so /verif/evidence is not overwritten by a run on modified code), and the
worktree is removed.  `--in-repo` does the same with `git -C /repo apply` / `git -C /repo checkout -- .` instead.
Prints one line per seed and writes seeded/RESULTS_<tier>.md.
usage: .venv/bin/python tools_seeded.py [quick|thorough] [--in-repo] [-j N] [name ...]
"""
import glob
import json
import os
import shutil
import subprocess
import sys
import tempfile
import time
from concurrent.futures import ThreadPoolExecutor

HERE = os.path.dirname(os.path.abspath(__file__))
REPO = "/repo"


def run(cmd, **kw):
    return subprocess.run(cmd, shell=True, capture_output=True, text=True, **kw)


def one(d, tier, in_repo):
    name = os.path.basename(d)
    meta = json.load(open(os.path.join(d, "meta.json")))
    patch = os.path.join(d, "patch.diff")
    scratch = tempfile.mkdtemp(prefix=f"seed_{name}_", dir="/tmp")
    wt = REPO if in_repo else os.path.join(scratch, "wt")
    try:
        if not in_repo:
            r = run(f"git -C {REPO} worktree add --detach {wt} HEAD")
            assert r.returncode == 0, r.stderr
        r = run(f"git -C {wt} apply {patch}")
        if r.returncode != 0:
            return (name, meta["property"], "patch does not apply", r.stderr.strip()[:80].replace("\n", " ").replace("|", "/"), 0)
        props = meta.get("checks", [meta["property"]])
        verdicts = []
        t0 = time.time()
        env = dict(os.environ, RPYLIB_REPO=wt, VERIF_OUT=os.path.join(scratch, "out"))
        for p in props:
            rr = run(f"./vcheck {p} {tier}", cwd=HERE, timeout=4 * 3600, env=env)
            viol = [l for l in rr.stdout.splitlines() if l.startswith("VIOLATION")]
            ids = []
            for l in viol:
                f = l.split("replay=")[1].strip()
                try:
                    ids.append(json.load(open(f)).get("obligation", os.path.basename(f)))
                except Exception:
                    ids.append(os.path.basename(f))
            verdicts.append(f"{p}: exit {rr.returncode}, {len(viol)} VIOLATION line(s)" + (f" [{', '.join(sorted(set(ids)))[:160]}]" if ids else ""))
        caught = any("exit 1" in v for v in verdicts)
        return (name, meta["property"], "CAUGHT" if caught else "missed", "; ".join(verdicts), round(time.time() - t0, 1))
    finally:
        if in_repo:
            run(f"git -C {REPO} checkout -- .")
        else:
            run(f"git -C {REPO} worktree remove --force {wt}")
        shutil.rmtree(scratch, ignore_errors=True)


def main():
    tier, names, in_repo, jobs = "quick", [], False, 2
    args = sys.argv[1:]
    while args:
        a = args.pop(0)
        if a in ("quick", "thorough"):
            tier = a
        elif a == "--in-repo":
            in_repo, jobs = True, 1
        elif a == "-j":
            jobs = int(args.pop(0))
        else:
            names.append(a)
    if in_repo:
        assert run(f"git -C {REPO} status --porcelain").stdout.strip() == "", "/repo has uncommitted changes"
        jobs = 1
    dirs = [d for d in sorted(glob.glob(os.path.join(HERE, "seeded", "*")))
            if os.path.isdir(d) and os.path.exists(os.path.join(d, "meta.json")) and (not names or os.path.basename(d) in names)]
    rows = []
    with ThreadPoolExecutor(jobs) as ex:
        for row in ex.map(lambda d: one(d, tier, in_repo), dirs):
            rows.append(row)
            print(row, flush=True)
    out = os.path.join(HERE, "seeded", f"RESULTS_{tier}.md")
    old = {}
    if names and os.path.exists(out):  # partial run: merge into the table
        for l in open(out).read().splitlines()[2:]:
            c = [x.strip() for x in l.strip("|").split(" | ")]
            old[c[0]] = tuple(c)
    for r in rows:
        old[r[0]] = r
    with open(out, "w") as fh:
        fh.write(f"| seeded change | property | {tier} verdict | details | s |\n|---|---|---|---|---|\n")
        for k in sorted(old):
            fh.write("| " + " | ".join(str(x) for x in old[k]) + " |\n")
    print(f"{sum(1 for r in rows if r[2] == 'CAUGHT')}/{len(rows)} caught")


if __name__ == "__main__":
    main()
