# per-check metadata consumed by tools_manifest.py (python, executed with check()/na() in scope)
TECH = "bounded symbolic execution of the real python functions (path forking at solver-decided branches) + SMT (z3, cvc5 fallback) on every obligation; counterexamples replayed on the unshimmed code; a path on which rpylib itself raises under the harness assumptions is solved for a model and re-run on plain numbers; auxiliary concrete reference runs flag code the symbolic harness cannot run (DESIGN 2.9b)"

check("C14",
      "Bounded model checking of the real pairing/projection/enumeration code on symbolic integers: for every integer inside the stated bounds "
      "(unbounded for the Szudzik / Rosenberg-Strong 2-d pairings, the N<->Z folding and PairingToZd in 2-d) the round-trip identities are "
      "discharged as unsat SMT queries; floating-point roots are covered by an IEEE error-model lemma. This is the right level because the "
      "property is a universally quantified integer identity whose failures sit at rare inputs (next to perfect squares/cubes, unequal sizes, "
      "last index) that sampling misses.",
      "Trusted: z3/cvc5 unsat answers; sqrt/cube root as exact real roots with integer-root constraints; IEEE sqrt error model (correctly rounded, "
      "rel. error 2^-53); range() havoc in lazy_indices_product; gmpy2.qdiv stub = exact rational division. Outside: HyperbolicPairing, libm pow "
      "accuracy, indices beyond the bounds in evidence.coverage.bounds.",
      TECH, "DESIGN.md section 3 C14")

na("C18", "numerical values of 10^4-term cosine series, a 2^18-point FFT and norm.cdf (shape, positivity, agreement within tolerance) are not encodable in SMT within reach; see DESIGN.md section 5")

check("C02",
      "Bounded model checking of the real sampler constructors and single-uniform entry points on a symbolic probability vector and a symbolic "
      "uniform: per construction path the solver proves that the Lebesgue measure of the uniforms sent to state k equals p_k (exact rational "
      "arithmetic over all real p), that no uniform reaches a zero-probability or out-of-range state, that results do not depend on earlier draws "
      "and that the batch entry equals the single-uniform entry. Right level: the law of a sampler is a statement about all u in [0,1) and all p; "
      "a histogram test cannot see a wrong interval of length 1e-6 or a failure at ties/zeros/multiples of 1/256.",
      "Trusted: z3/cvc5; the u-measure computation (leaf constraints affine in u with concrete coefficient, checked per constraint); Table method's "
      "32-bit integer modelled as (low byte, independent uniform); exact arithmetic (float rounding of cumulative sums outside). Bounds: vector "
      "length <= 3 quick / 4-5 thorough, Table slot-count patterns as listed in evidence, inversion on 1-d grids up to 2+3 states; the 1-d adapted "
      "binary search tree on an abstract Levy measure (up to 2+2 points, also after another chain was built and sampled on the same grid) and the n-d "
      "adapted tree (3x3, 5x5, 3x3x3) run here with C01's harness.",
      TECH, "DESIGN.md section 3 C02")

check("C12",
      "Bounded model checking of the real rectangle-mass code of LevyCopulaModel on an abstract Lévy copula (uninterpreted F) and abstract additive "
      "marginal measures with symbolic rectangle end points: fast 2-d/3-d paths == general recursion for every sign pattern, additivity under splits, "
      "margin sums, sub-margin masses == I-margin volumes, tail integrals, cache consistency and non-negativity from the d-increasing axiom are "
      "discharged by the solver for all real end points. Holds for every copula/marginal model satisfying the interface, which no finite set of test "
      "models can show.",
      "Trusted: z3; abstract copula/measure axioms (grounded, margins, additive cumulative functions). Bounds: d in {2,3}, interval kinds listed in "
      "evidence, including end points exactly at 0 and splits at zero (finite-activity margins there). Outside: equality with the integral of a joint "
      "density, inverse_tail_integral (root search in C), rectangles containing the origin.",
      TECH, "DESIGN.md section 3 C12")

check("C11",
      "Bounded model checking of the real copula classes on symbolic arguments (either sign, +-inf entries) in dimension 2 and 3: grounded and "
      "uniform-margin identities for Clayton (every theta>0, eta in [0,1], pow as an uninterpreted function with the power laws), independent and "
      "dependent copulas; non-negative volume of every rectangle with finite lower ends for the independent and dependent copulas (piecewise linear, "
      "decided exactly).",
      "Trusted: z3; power-law axioms for pow; sympy's differentiation of the theta = 1 definition. The calculus clauses (stated mixed derivative = "
      "mixed partial of the copula up to the orientation sign, conditional distribution in [0,1] = closed form, stated inverse inverts it) are decided "
      "at theta = 1 only (rational copula), for every eta and argument, d = 2, 3, also after theta was re-assigned; other theta: float replay only. "
      "Outside: d-increasingness of Clayton for general theta, volumes of rectangles touching (inf,...,inf) beyond 'F is +inf there'.",
      TECH, "DESIGN.md section 3 C11")

check("C01",
      "Bounded model checking of the real chain constructors, intensity computation, q-vector, inversion probability function, 1-d adapted binary "
      "search tree and grid cell helpers on a symbolic grid (arbitrary strictly increasing axis, 0..k refinements) and an abstract additive Lévy "
      "measure / abstract Lévy copula: rate == mass of the state's cell (cells written from the definition), cells tile the truncated support minus "
      "the central cell, states lie in their cells, rates >= 0, sum of rates == reported intensity; 2-d/3-d copula chains against an independent "
      "oracle (straddling coordinates removed by margins, signed F-volumes). Holds for every model satisfying the measure interface.",
      "Trusted: z3; abstract measure/copula axioms; intensity > 0 assumed (the library divides by it); adapted-tree obligations with the intensity "
      "pinned to 1 and 3/2. Bounds: grid points per half-axis <= 2 (quick) / 3 (thorough), <= 2 refinements, copula 3x3 (quick), 5x5 and 3x3x3 "
      "(thorough); grid object re-used by a chain before each refinement; factory samplers through their batch sample() call. Outside: chains on "
      "probability-step grids (their refinement is C13), n-d adapted tree, float rounding.",
      TECH, "DESIGN.md section 3 C01")

check("C04",
      "Bounded model checking of the real drift/representation code (LevyTriplet conversions, MarkovChainProcess construction and initialisation, "
      "compute_mu_h, vol_adjustment, the per-margin code of the copula chain) on a symbolic grid and an abstract measure: deterministic drift + "
      "rate-weighted states == mean per unit time of the truncated process for all four declared representations, finite/infinite variation and "
      "activity, truncation bounds anywhere relative to +-1; squared diffusion coefficient gets the central-cell second moment iff the variation is "
      "infinite.",
      "Trusted: z3; abstract measure axioms; sqrt axioms. model.drift() (r-d+omega of the exponential models) is an arbitrary symbol. Outside: n-d "
      "small-jump covariance (nquad/sqrtm), per-cell x^2 oscillation bound.",
      TECH, "DESIGN.md section 3 C04")

check("C03",
      "Bounded model checking of the real refinement and coupling code on a symbolic coarse grid, an abstract measure / copula and a scheduler-"
      "controlled coupling uniform: coarse rates (from the real chain code on the un-refined grid) == sum over fine states of fine rate x transfer "
      "probability, even increments copied, odd ones moved only to adjacent coarse states, transfer probability x rate == mass of the half cell "
      "(1-d) / sub-cell (copula, every parity class), coarse drift and diffusion coefficient == previous level's, same Brownian increments drive both "
      "components; transfer probabilities are ratios of masses, proved by cross-multiplied polynomial identities.",
      "Trusted: z3; abstract measure/copula axioms; the scripted uniform (comparisons record the threshold and return the scheduled outcome; leaf "
      "measure = difference of consecutive thresholds); n-d global coarse-rate identity follows from the local sub-cell identities by tiling (C01) and "
      "additivity (C12). Drift/diffusion bookkeeping is observed on the simulated values over 1-2 successive levels; the per-date assembly of the coupled "
      "jump values runs on list- and array-valued sampler outputs. Known finding: mixed-parity increments in the copula coupling (see "
      "known_findings.json). Outside: 3-d coupling, CouplingSDE Euler part (C16).",
      TECH, "DESIGN.md section 3 C03")

check("C05",
      "Bounded model checking of the real multilevel engine (adaptive price() and the fixed-level variant), path managers, statistics and results code "
      "against a scripted coupling process with symbolic payoffs and solver-chosen sample-size / convergence answers: on every explored run history "
      "the price equals the sum over levels of the mean of df*notional*(fine-coarse) over exactly the samples handed out at that level, reported N_l, "
      "ml, vl, mean_level_l, var_level_l, cl equal their definitions on those samples, the coarse payoff is 0 at level 0; uninitialised array cells are "
      "fresh symbols, so any placeholder reaching a result breaks an identity.",
      "Trusted: z3; the scripted process/product/criteria (public duck-typed interfaces); scipy.stats.moment replaced by its definition. Bounds: "
      "initial_level <= 1 (quick) / 2 (thorough), N0 <= 2/3, level_max <= initial+1/+2, answers in [0,2]/[0,3] with 2-5 passes per configuration; one level "
      "of 100/200 samples with answers up to +3 (1% rule); fixed-level variant creating up to 4 levels at once. one control variate (raw view only, regression "
      "covariances as fresh symbols), the worker-pool branch run in-process, one Engine pricing twice. Outside: the control-variate adjustment "
      "itself in the multilevel engine (C07 proves it for the standard engine), payoff dimension > 1 (known finding), real worker processes (C08 "
      "models them), regression of the convergence rates (lstsq).",
      TECH, "DESIGN.md section 3 C05")

check("C06",
      "Pure part: the real compute_mc_paths_giles / criteria_giles on symbolic variance/cost vectors and rmse (sqrt as UF): sizes are the rounded-up "
      "real-valued optimum, the real-valued optimum meets the variance share exactly, hence sum V_l/N_l <= (1-theta) rmse^2; theta is read off the "
      "allocation function itself and the bias tolerance off the comparison the criteria function builds: tau^2 + (1-theta) rmse^2 <= rmse^2. Loop part: "
      "the real Engine.price on the scripted process with solver-chosen answers never simulates above maximum_level, returns only after a passing bias "
      "test or at the maximum level, with every level within 1% of its last optimal size.",
      "Trusted: z3; sqrt axioms; scripted process/criteria as in C05. Bounds: vectors of length <= 2/3; loop histories as C05, plus levels of 100 samples (per-level 1% rule) "
      "and the bias test with 1-3 level means. Outside: termination for unbounded answers; the regression of the rates (numpy lstsq; one concrete "
      "reference scenario with a zero level runs in the check's concrete validation, not a solver verdict). Known findings: zero-cost levels get 0 samples; fall-through exit of the loop right after a level is added.",
      TECH, "DESIGN.md section 3 C06")

check("C07",
      "Bounded model checking of the real standard engine, path manager, Product/Forward/Vanilla/Spot, statistics helpers and control variates "
      "against a scripted process with symbolic terminal spots: price == df * mean(notional * payoff) over exactly the N handed-out paths per payoff "
      "component, (mc_stddev)^2 * N == unbiased sample variance per component, spot statistics hold the simulated spots; with one control: adjusted "
      "mean == mean(Y - b*(X - p_X)) with b* = S_XY/S_XX on biased covariances, equals the raw mean when mean(X) = p_X, and Var(adjusted) = Var(Y) - "
      "S_XY^2/S_XX <= Var(Y) (cross-multiplied polynomial identities).",
      "Trusted: z3; scripted process (public Process interface); np.cov/np.std replaced by their definitions; sqrt axioms. Bounds: N <= 3/4, payoff "
      "dimension <= 2; one control (arbitrary notional, strike, price) and two controls with plain-float prices (compositional: the covariance entries "
      "the library computes are proved equal to the sample covariances, the adjustment is then proved over an arbitrary covariance matrix); the same "
      "Product priced twice; one controls object re-used across pricings; log-simulated process with a control on another underlying type; two "
      "assets with a single-asset control; two strikes with two vector-strike controls (layout of the stored control samples, one path). Outside: "
      ">= 3 controls, the adjustment identity for vector strikes with controls, worker pools.",
      TECH, "DESIGN.md section 3 C07")

check("C17",
      "Bounded model checking of the real payoff / underlying / Product classes on symbolic paths, strikes, barriers, thresholds, notionals: parity, "
      "spread/butterfly decompositions and signs, digitals sum to 1, knock-in + knock-out = vanilla, knock-in pays iff the barrier is crossed, default "
      "time = first jump below the threshold (else inf), n-th-to-default monotone, notional linear, identity vs log representation agree (exp(log x)=x), "
      "and history twins: a barrier payoff evaluated on path A then B equals a fresh one on B; update(LOG) then update(IDENTITY) equals a fresh underlying.",
      "Trusted: z3; exp/log axioms. Bounds: path length <= 3/4, <= 2 assets. Also: default-time underlyings valuing successive paths and in the identity "
      "representation, one underlying shared by two products, Rainbow on 2 assets (value, path left untouched). Outside: LookBack, Rainbow beyond 2 "
      "assets, rate payoffs, CDS (C19). Known findings: Asian.value raises on a one-dimensional path; Butterfly with its middle strike below the midpoint is negative.",
      TECH, "DESIGN.md section 3 C17")

check("C16",
      "Bounded model checking of the real Euler recursions (MarkovChainSDE.simulate_one_path, CouplingSDE.simulate_one_path_with_coupling) on a scripted "
      "symbolic driver path (times, cumulative jumps and Brownian values, drifts) with constant, diag(x) and affine coefficient functions: every returned "
      "state equals the Euler recursion step by step, closed forms for constant and diagonal coefficients, both coupled components with their own driver "
      "increments and drifts, the real CouplingSDE.next_level over 2-3 levels against a stand-in driver coupling whose chain drift differs per level; real df of the rate models on symbolic curves: df(0)=1, positive, non-increasing, value at each tenor = product of the period "
      "accruals (continuity), df of the exponential and SDE base models.",
      "Trusted: z3; simulators built with __new__ around a scripted driver path; exp axioms. Bounds: <= 2/3 steps, dimensions <= 2, <= 2/3 rates. Outside: "
      "Libor drift term (dblquad), sigma(t) schedules of the Libor/forward coefficient functions, epsilon = h^BG hand-over.",
      TECH, "DESIGN.md section 3 C16")

check("C13",
      "Bounded model checking of the real grid constructors and refine() on symbolic steps, bounds and thresholds: strictly increasing axes, 0 at the "
      "origin index with -h/+h neighbours, end points = reported truncations, credit thresholds exactly on cell boundaries; after k refinements old "
      "states sit at 2^k times their index, new states are the grid's own cell boundaries, h halves, the origin index doubles, truncations unchanged, "
      "shared axes are refined once each.",
      "Trusted: z3; compute_truncation (Brent) and np.geomspace are contract stubs (any l < -h/2 < h/2 < r; any strictly monotone sequence). Bounds: "
      "point counts <= 5/9 per axis, dimension <= 3, <= 3 refinements; refinement of the probability-step grid with its root search replaced by the "
      "root contract over an abstract measure; the real compute_truncation over abstract margins (d <= 3): every margin keeps at least the requested share "
      "of its mass. Outside: construction of the probability-step axes. Known findings: "
      "uniform grid with a truncation closer than 2h; credit grid with threshold inside the first step / mirrored threshold beyond r.",
      TECH, "DESIGN.md section 3 C13")

check("C19",
      "Bounded model checking of the real credit grid, chain cell masses, CFLevyModel / CFLevyCopulaModel._theta, survival / par-spread / implied-spread "
      "maps (brentq as a contract stub) and the CDS payoff on abstract measures and copula: sum of the cell masses of the states with a coordinate "
      "below its threshold == closed-form theta (1-d, 2-d symmetric and asymmetric credit grids), theta == inclusion-exclusion of half-space masses "
      "measured by the real rectangle-mass code (d = 2, 3), theta increasing in a threshold, survival = exp(-t theta), par spread = (1-R) theta, "
      "implied spread inverts the present value, implied threshold reprices the spread, CDS value affine in the spread.",
      "Trusted: z3; abstract measure/copula; for the chain comparison margins carry no mass outside the truncation; brentq contract; exp axioms. "
      "Outside: 3-d chain sum, Brent's iterations, Monte-Carlo default times (C17 covers the default-time underlying).",
      TECH, "DESIGN.md section 3 C19")

check("C20",
      "Bounded model checking of the real parameter classes under symbolic assignment histories followed by initialisation() (every cached field equals "
      "that of an object constructed with the final values; each declared constraint raises at construction and on assignment and leaves the value "
      "unchanged) and of the real calibration wiring with brentq and the COS pricer as contract stubs: the objective prices a model whose observable "
      "state equals that of a model constructed directly with the candidate value, the result lies in the interval, the returned model has the input's "
      "type and observable state of a directly constructed one, reprices the Black-Scholes target, and the input model is untouched.",
      "Trusted: z3; brentq contract; COS price as an uninterpreted function of the observable parameter state; gamma/pow UFs; Black-Scholes closed form "
      "evaluated concretely. Bounds: assignment sequences <= 2/3, HEM and CGMY default calibrations. Outside: numerical repricing accuracy (C18), "
      "Merton/VG calibrations.",
      TECH, "DESIGN.md section 3 C20")

check("C09",
      "Symbolic forward-mode AD through the real closed-form integrals of the HEM, Merton and Variance-Gamma measures (and tools.integral) with every "
      "model parameter and end point symbolic: dF/db = b^n nu(b), dF/da = -a^n nu(a) (nu = the model's own density method), F(a,a) = 0 per branch, "
      "additivity across branches and with infinite ends, straddling = sum of the sides, mass >= 0, integrate_against_xn agrees with the dedicated "
      "functions and satisfies the same derivative identities (VG up to n = 4/7, also on intervals ending at 0 or straddling it), CGMY mass and first moment "
      "at the activity indices y = 0 and y = 1 (E1 / incomplete gamma with their derivative rules), truncated measure = integral over the intersection with vanishing "
      "density outside. Together with the fundamental theorem of calculus this gives F = integral of x^n nu on each branch for all parameters.",
      "Trusted: z3; derivative rules of exp/erf/E1; exp/erf/E1/sqrt axioms; pi in (3.14159, 3.1416); the FTC meta-step. Outside: CGMY at other activity indices (fractional / symbolic powers), all quad "
      "fallbacks (n >= 3 for HEM/Merton), odd-moment signs. Attempted, not claimed: Merton second moment on [a, inf) (solver unknown).",
      "symbolic forward-mode AD of the real python functions + SMT (z3, cvc5 fallback) on cross-multiplied polynomial identities in UF terms", "DESIGN.md section 3 C09")

check("C10",
      "Symbolic Taylor-jet execution (order 4/6) of the real levy_exponent_pure_jump of HEM, Merton, VG and CGMY with all parameters symbolic: the stated "
      "cumulants 1, 2, 4, 6 equal t times the derivatives of the exponent at 0; for HEM and Merton the first/second derivatives equal the model's own "
      "closed-form moment integrals over the whole line with the declared representation's compensator; real LevyTriplet.set_representation on abstract "
      "moments for every sequence of representations (path-independent, reversible); martingale routes: omega = -kappa(1), model drift = r - d + omega, "
      "characteristic function at -i real and equal to S0 exp((r-d)t), direct-simulation drift + sigma^2/2 + phi(1) = r - d (BS, HEM, Merton).",
      "Trusted: z3; series coefficients of exp/log/pow; Gamma(s+k) and x^(a+k) functional equations; exp/log axioms; abstract measure for the "
      "representation conversions. Outside: exponent = Lévy-Khintchine integral beyond its Taylor data at 0, CGMY y in {0,1}, CGMY/VG first-moment link; "
      "Markov-chain drift route is C04.",
      "symbolic Taylor-jet / complex execution of the real python functions + SMT (z3, cvc5 fallback) on cross-multiplied polynomial identities", "DESIGN.md section 3 C10")

check("C15",
      "Bounded model checking of the real direct simulators (fixed dates, jump times, maximum step) and both build_finer_grid closures on the RNG / Poisson "
      "models with symbolic dates, uniforms, normals and jump increments: path starts at 0, times are the product dates / sorted jump times ending at the "
      "maturity, jump and diffusion components are running sums with each variate used exactly once, refinement keeps every original (time, value) pair in "
      "order, inserted points repeat their predecessor, every step of the refined grid <= epsilon, fine and coarse arrays stay aligned.",
      "Trusted: z3; RNG model (fresh symbol per draw, Poisson counts in [0,2]); sqrt axioms. Bounds: <= 2/3 dates, <= 2 jumps per interval, gaps < 3 epsilon. "
      "Two-component jump values in the refinement and the coupled chain's jump-time path assembly are covered; outside: copula fixed-date assembly. Known findings: fixed-date jump component not cumulative across several dates; last gap to the "
      "maturity not subdivided.",
      TECH, "DESIGN.md section 3 C15")

check("C08",
      "Bounded model checking of the real standard and multilevel engines, Configuration.initialisation_seed and the real direct simulator against an "
      "RNG-stream model (a draw is the uninterpreted value rng(seed, position); seeding sets (seed, 0)), a clock/pid model (solver-chosen readings) and a "
      "process-pool model (fork = deep copy of the reachable objects and generator state, solver-chosen contiguous chunking; os.urandom = solver-chosen pairwise distinct values): two seeded single-process "
      "runs produce syntactically identical prices (seed 7 and seed 0, both engines); for every pair of distinct samples the solver looks for clock, pid and "
      "chunk values making their payoff terms contain the same rng(seed, position) - unsat for single-process runs of both engines.",
      "Also: the pre-drawn jump counts / Brownian rows of the fixed-date simulator are pairwise distinct variates; a seeded run puts the stdlib generator "
      "(Table sampler) in the seeded state; OS entropy reads are solver-chosen pairwise distinct values. "
      "Trusted: z3; the environment models (listed in evidence.assumptions). Bounds: <= 2/3 paths, 1-2 workers, levels 0..1, one extra pass. Outside: "
      "python's `random` stream, jump-time mode, pools in the multilevel engine. Known finding: forked workers of the standard engine share the pre-drawn rows.",
      TECH, "DESIGN.md section 3 C08")
