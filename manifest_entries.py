# per-check metadata consumed by tools_manifest.py (python, executed with check()/na() in scope)
TECH = "bounded symbolic execution of the real python functions (path forking at solver-decided branches) + SMT (z3, cvc5 fallback) on every obligation; counterexamples replayed on the unshimmed code"

check("C14",
      "Bounded model checking of the real pairing/projection/enumeration code on symbolic integers: for every integer inside the stated bounds "
      "(unbounded for the Szudzik / Rosenberg-Strong 2-d pairings, the N<->Z folding and PairingToZd in 2-d) the round-trip identities are "
      "discharged as unsat SMT queries; floating-point roots are covered by an IEEE error-model lemma. This is the right level because the "
      "property is a universally quantified integer identity whose failures sit at rare inputs (next to perfect squares/cubes, unequal sizes, "
      "last index) that sampling misses.",
      "Trusted: z3/cvc5 unsat answers; sqrt/cube root as exact real roots with integer-root constraints; IEEE sqrt error model (correctly rounded, "
      "rel. error 2^-53); range() havoc in lazy_indices_product; gmpy2.qdiv stub = exact rational division. Outside: HyperbolicPairing, libm pow "
      "accuracy, indices beyond the bounds in evidence.coverage.bounds.",
      TECH, "DESIGN.md section 3 C14")

na("C18", "numerical values of 10^4-term cosine series, a 2^18-point FFT and norm.cdf (shape, positivity, agreement within tolerance) are not encodable in SMT within reach; see DESIGN.md section 5")
